"""C12 — development-lag and month arithmetic are mutually inverse and calendar-exact.

The implementation computes in IEEE doubles, the Lean model (Model/DateUtils.lean) in exact
rationals; the laws are theorems about the model (Properties/C12.lean).  The tie between the two
is an enumeration of the property's finite domain:

  * `enum`  : start dates x every integer k in [-600, 600] whose target month stays inside
              [1970-01, 2100-12].  The compiled driver prints one digest per start date
              (count, sum of result ordinals, k-weighted sum of result ordinals); this file
              computes the same digest from `bermuda.date_utils.add_months` and, on the way,
              checks the calendar statement directly on every implementation result (month
              index moved by exactly k, month ends stay month ends).  A start date whose digest
              differs is expanded to the exact (date, k) pairs.
  * `pairs` : the inverse law `add_months(p, dev_lag_months(p, e)) == e` on the implementation,
              Spec predicate evaluated by the driver on the implementation's result, model fed
              with the implementation's own float lag (as an exact rational).
  * pre-1970: the same two streams over 1900-1969, where the known finding D8 lives: a failing
              input whose EXPECTED result is before 1970-01-01 is reported as KNOWN-FINDING, any
              other failing input is a new violation.
  * `devLag` / `monthId` / `idToMonth` / `resolution`: unit dispatch, id conversions and
              resolution arithmetic against model and Spec.

Float lags are compared with the exact model lag with tolerance 2^-40 * max(1, |lag|) (a division
is unavoidable: day / days_in_month); month-end to month-end lags are compared exactly.
"""
import calendar
import datetime
import multiprocessing
import os
import time
from fractions import Fraction

import common
from common import call, w_date, w_rat

import bermuda.date_utils as du
from bermuda import Cell

D = datetime.date
ONE = datetime.timedelta(days=1)
KMIN, KMAX = -600, 600
IDLO, IDHI = 0, 12 * (2100 - 1970) + 11          # 1970-01 .. 2100-12
PRE_IDLO = 12 * (1900 - 1970)                    # 1900-01
ORD_1970 = D(1970, 1, 1).toordinal()
ORD_2100 = D(2100, 12, 31).toordinal()
ORD_1900 = D(1900, 1, 1).toordinal()
D8_TEXT = ("add_months truncates toward zero: results before 1970-01-01 are off by one month "
           "(inverse law fails for pre-1970 results)")
TOL = Fraction(1, 2 ** 40)
DRV = "drv_c12"


def mid(d):
    """month index, 1970-01 = 0 (the harness's own arithmetic, not month_to_id)"""
    return 12 * (d.year - 1970) + d.month - 1


def is_month_end(d):
    return d.day == calendar.monthrange(d.year, d.month)[1]


def month_end_of_id(i):
    y, m = divmod(i, 12)
    return D(1970 + y, m + 1, calendar.monthrange(1970 + y, m + 1)[1])


def frac(s):
    return Fraction(s)


# --------------------------------------------------------------------------------------
# enumeration: digests per start date
# --------------------------------------------------------------------------------------

def py_digest(d, kmin, kmax, idlo, idhi):
    """(count, s1, s2, bad_post, bad_pre) from the implementation; None if it raised.
    bad_* count results that are not exactly k calendar months later (or a month end that did
    not stay one); `pre` = the expected month is before 1970-01 and the start is not a month end (domain
    of finding D8: month ends with integer offsets are exact in every year, theorem addMonths_monthEnd)."""
    add_months = du.add_months
    i0 = mid(d)
    lo, hi = max(kmin, idlo - i0), min(kmax, idhi - i0)
    ym = d.year * 12 + d.month
    me = is_month_end(d)
    as_float = d.toordinal() & 1
    cnt = s1 = s2 = bad_post = bad_pre = 0
    try:
        for k in range(lo, hi + 1):
            r = add_months(d, float(k) if as_float else k)
            o = r.toordinal()
            cnt += 1
            s1 += o
            s2 += (k - kmin + 1) * o
            if r.year * 12 + r.month - ym != k or (me and (r + ONE).day != 1):
                if i0 + k < 0 and not me:
                    bad_pre += 1
                else:
                    bad_post += 1
    except Exception:  # noqa: BLE001  (expanded per k by the caller)
        return None
    return (cnt, s1, s2, bad_post, bad_pre)


def enum_task(task):
    """one shard: driver digests vs implementation digests. Returns counters + mismatching dates."""
    kind, arg, idlo, idhi = task
    req = {"op": "enum", "kmin": KMIN, "kmax": KMAX, "idlo": idlo, "idhi": idhi}
    if kind == "range":
        o0, n = arg
        dates = [D.fromordinal(o0 + i) for i in range(n)]
        req["from"], req["n"] = w_date(dates[0]), n
    elif kind == "monthEnds":
        a, b = arg
        dates = [month_end_of_id(i) for i in range(a, b + 1)]
        req["monthEnds"] = [a, b]
    else:
        dates = [D.fromordinal(o) for o in arg]
        req["dates"] = [w_date(d) for d in dates]
    t0 = time.time()
    rows = common.Driver(DRV).run([req])[0]["rows"]
    t_drv = time.time() - t0
    out = {"dates": len(dates), "evals": 0, "mismatch": [], "spec_post": [], "spec_pre": [], "enum_err": None,
           "t_drv": t_drv}
    if [r[:3] for r in rows] != [w_date(d) for d in dates]:
        out["enum_err"] = {"request": {k: v for k, v in req.items() if k != "dates"},
                           "driver_first": rows[0][:3] if rows else None, "n_driver": len(rows)}
        return out
    t0 = time.time()
    for d, row in zip(dates, rows):
        pd = py_digest(d, KMIN, KMAX, idlo, idhi)
        out["evals"] += row[3]
        if pd is None or list(pd[:3]) != row[3:6]:
            out["mismatch"].append(d.toordinal())
        elif pd[3]:
            out["spec_post"].append(d.toordinal())
        elif pd[4]:
            out["spec_pre"].append(d.toordinal())
    out["t_py"] = time.time() - t0
    return out


def known_once(ctx, case):
    """report finding D8 once per run (ctx.known re-reads known_findings.json on every call)"""
    if "D8" not in ctx.known_hits and not getattr(ctx, "_d8_reported", False):
        ctx._d8_reported = True
        ctx.known("D8", D8_TEXT, case)


def expand_date(ctx, d, idlo, idhi, limit=6):
    """exact (date, k) pairs behind a digest mismatch / direct spec failure"""
    i0 = mid(d)
    ks = list(range(max(KMIN, idlo - i0), min(KMAX, idhi - i0) + 1))
    res = [call(du.add_months, d, k) for k in ks]
    impl = [w_date(v) if st == "ok" else None for st, v in res]
    out = common.Driver(DRV).run([{"op": "intShift", "items": [w_date(d) + [k] for k in ks], "impl": impl}])[0]
    n_fail = n_known = n_dis = 0
    for k, (st, v), im, mo, sp in zip(ks, res, impl, out["model"], out["spec"]):
        case = {"call": "add_months(date, k)", "date": w_date(d), "k": k}
        if st == "err":
            n_fail += 1
            if n_fail <= limit:
                ctx.fail("add_months raised on an in-range date and integer month offset", case, {"raised": v, "model": mo})
        elif not sp:
            if i0 + k < 0 and not is_month_end(d):
                n_known += 1
                known_once(ctx, case)
            else:
                n_fail += 1
                if n_fail <= limit:
                    ctx.fail("add_months(d, k) is not exactly k calendar months after d / month end not kept "
                             "(expected result >= 1970-01-01, or a month end moved by an integer)", case,
                             {"impl": im, "model": mo, "expected_month": w_date(month_end_of_id(i0 + k))[:2]})
        elif im != mo:
            n_dis += 1
            if n_dis <= limit:
                ctx.disagree("add_months(date, k)", case, mo, im)
    return n_fail, n_known, n_dis


def run_enum(ctx, pool, tasks, label, idlo, idhi):
    outs = pool.map(enum_task, [(k, a, idlo, idhi) for k, a in tasks], chunksize=1)
    n_dates = sum(o["dates"] for o in outs)
    n_evals = sum(o["evals"] for o in outs)
    ctx.evaluations += n_evals
    ctx.count(f"enum/{label}/start_dates", n_dates)
    ctx.count(f"enum/{label}/evaluations", n_evals)
    ctx.notes.append(f"enum {label}: {n_dates} start dates, {n_evals} (date,k) evaluations, "
                     f"driver {sum(o['t_drv'] for o in outs):.1f}s cpu, python {sum(o.get('t_py', 0) for o in outs):.1f}s cpu")
    for o in outs:
        if o["enum_err"]:
            raise common.Infra(f"driver enumerated other start dates than the harness: {o['enum_err']}")
    bad = sorted(set(x for o in outs for x in o["mismatch"] + o["spec_post"]))
    pre = sorted(set(x for o in outs for x in o["spec_pre"]))
    if bad:
        ctx.count(f"enum/{label}/start_dates_with_mismatch", len(bad))
    shown = 0
    for o_ in bad[:12]:
        nf, nk, nd = expand_date(ctx, D.fromordinal(o_), idlo, idhi, limit=3 if shown else 6)
        shown += 1
        if nf == 0 and nk == 0 and nd == 0:
            ctx.disagree("add_months digest per start date (no differing k found on expansion)",
                         {"date": w_date(D.fromordinal(o_))})
    if pre:
        ctx.count(f"enum/{label}/start_dates_hitting_D8", len(pre))
        expand_date(ctx, D.fromordinal(pre[0]), idlo, idhi)
    return n_dates


# --------------------------------------------------------------------------------------
# inverse law on pairs
# --------------------------------------------------------------------------------------

def pair_task(task):
    """pairs (p_ord, e_ord): law on the implementation; `model_every`-th pair (and every failing
    one) also goes to the driver. Returns counters and problem records."""
    pairs, model_every = task
    dev_lag_months, add_months = du.dev_lag_months, du.add_months
    fo = D.fromordinal
    recs, to_model = [], []
    n = 0
    for idx, (po, eo) in enumerate(pairs):
        p, e = fo(po), fo(eo)
        n += 1
        try:
            lag = dev_lag_months(p, e)
            r = add_months(p, lag)
        except Exception as ex:  # noqa: BLE001
            recs.append(("raise", po, eo, common.err_name(ex), None))
            continue
        if r != e or idx % model_every == 0:
            to_model.append((po, eo, lag, r))
    if to_model:
        items = [w_date(fo(po)) + w_date(fo(eo)) for po, eo, _, _ in to_model]
        drv = common.Driver(DRV)
        o1, o2 = drv.run([
            {"op": "inverse", "items": items, "impl": [w_date(r) for _, _, _, r in to_model]},
            {"op": "addMonths", "items": [w_date(fo(po)) + [w_rat(lag)] for po, _, lag, _ in to_model]}])
        retry = []
        for (po, eo, lag, r), mlag, mres, sp, mres2 in zip(to_model, o1["lag"], o1["model"], o1["spec"], o2["model"]):
            wr = w_date(r)
            ml = Fraction(mlag)
            p, e = fo(po), fo(eo)
            if not sp:
                recs.append(("law", po, eo, wr, {"lag": lag, "model_lag": mlag, "model_on_impl_lag": mres2}))
            if eo >= ORD_1970 and mres != w_date(e):
                recs.append(("model-law", po, eo, mres, mlag))
            # e >= 1970: the model fed with the implementation's own float lag must give the same date.
            # e < 1970 (domain of D8): truncation makes the exact model discontinuous at integer lags, where
            # float rounding decides the side; there the implementation must match the model on the float lag
            # or on the exact lag.
            if mres2 != wr and (eo >= ORD_1970 or mres != wr):
                if eo < ORD_1970:
                    retry.append((po, eo, lag, wr, mres2))
                else:
                    recs.append(("dis-add", po, eo, wr, {"lag": w_rat(lag), "model_on_impl_lag": mres2}))
            if is_month_end(p) and is_month_end(e):
                if Fraction(lag) != ml:
                    recs.append(("lag-int", po, eo, w_rat(lag), mlag))
            elif abs(Fraction(lag) - ml) > TOL * max(1, abs(ml)):
                recs.append(("dis-lag", po, eo, w_rat(lag), mlag))
        if retry:
            # e < 1970 only: the day can sit on a rounding tie of the (wrong) month the truncation selects; the
            # implementation must then agree with the model on a lag within 2^-36 of its own float lag
            eps = Fraction(1, 2 ** 36)
            items = [w_date(fo(po)) + [w_rat(Fraction(lag) + s * eps)] for po, _, lag, _, _ in retry for s in (-1, 1)]
            o3 = common.Driver(DRV).run([{"op": "addMonths", "items": items}])[0]["model"]
            for i, (po, eo, lag, wr, mres2) in enumerate(retry):
                if wr not in (o3[2 * i], o3[2 * i + 1]):
                    recs.append(("dis-add", po, eo, wr, {"lag": w_rat(lag), "model_on_impl_lag": mres2}))
                else:
                    recs.append(("tie-pre1970", po, eo, wr, None))
    return n, len(to_model), recs


def feed_pairs(ctx, label, outs, limit=6):
    n = sum(o[0] for o in outs)
    ctx.evaluations += n
    ctx.count(f"pairs/{label}", n)
    ctx.count(f"pairs/{label}/also_through_model", sum(o[1] for o in outs))
    seen = {}
    for _, _, recs in outs:
        for kind, po, eo, a, b in recs:
            p, e = D.fromordinal(po), D.fromordinal(eo)
            case = {"call": "add_months(p, dev_lag_months(p, e))", "p": w_date(p), "e": w_date(e)}
            seen[kind] = seen.get(kind, 0) + 1
            if kind == "law" and eo < ORD_1970:
                ctx.count(f"pairs/{label}/D8_hits")
                known_once(ctx, case)
                continue
            if seen[kind] > limit:
                continue
            if kind == "raise":
                ctx.fail("dev_lag_months/add_months raised on valid dates", case, {"raised": a})
            elif kind == "law":
                ctx.fail("inverse law: add_months(p, dev_lag_months(p, e)) != e with e >= 1970-01-01", case,
                         {"impl": a, **b})
            elif kind == "lag-int":
                ctx.fail("month-end to month-end lag is not the exact integer month difference", case,
                         {"impl": a, "model": b})
            elif kind == "model-law":
                ctx.disagree("model inverse law (theorem addMonths_devLag_partial)", case, a, w_date(e))
            elif kind == "dis-add":
                ctx.disagree("add_months(p, float lag)", {**case, "lag": b["lag"]}, b["model_on_impl_lag"], a)
            elif kind == "dis-lag":
                ctx.disagree("dev_lag_months(p, e) (tolerance 2^-40)", case, b, a)
    for k, v in seen.items():
        if k != "law":
            ctx.count(f"pairs/{label}/records/{k}", v)


def rand_date(rng, lo, hi):
    return rng.randrange(lo, hi + 1)


def rand_month_end(rng, lo_id, hi_id):
    return month_end_of_id(rng.randrange(lo_id, hi_id + 1)).toordinal()


def gen_pairs(rng, n, lo, hi, lo_id, hi_id):
    """mixture of pair shapes inside [lo, hi] (ordinals) / [lo_id, hi_id] (month ids)"""
    out = []
    for _ in range(n):
        u = rng.random()
        if u < 0.35:
            p, e = rand_date(rng, lo, hi), rand_date(rng, lo, hi)
        elif u < 0.55:
            p, e = rand_month_end(rng, lo_id, hi_id), rand_month_end(rng, lo_id, hi_id)
        elif u < 0.75:
            p = rand_date(rng, lo, hi)
            e = min(hi, max(lo, p + rng.randrange(-1100, 1101)))
        elif u < 0.85:
            p = rand_date(rng, lo, hi)
            e = min(hi, max(lo, p + rng.randrange(-2, 3)))
        elif u < 0.93:
            p, e = rand_date(rng, lo, hi), rand_month_end(rng, lo_id, hi_id)
        else:
            # February / year boundaries
            def edge():
                y = 1970 + rng.randrange(lo_id, hi_id + 1) // 12
                return rng.choice([D(y, 2, 27), D(y, 2, 28), D(y, 3, 1), D(y, 1, 1), D(y, 12, 31), D(y, 12, 30),
                                   D(y, 1, 31), D(y, 2, calendar.monthrange(y, 2)[1])]).toordinal()
            p, e = edge(), edge()
        out.append((p, e))
    return out


def chunks(xs, n):
    return [xs[i:i + n] for i in range(0, len(xs), n)]


def window_task(task):
    """all pairs (p in sample, e in every day of the window): law checked on the implementation"""
    w0, w1, ps, model_per_p, seed = task
    import random
    rng = random.Random(seed)
    es = list(range(w0, w1 + 1))
    pairs = []
    for p in ps:
        pick = set(rng.sample(es, model_per_p))
        pairs.append((p, pick))
    dev_lag_months, add_months = du.dev_lag_months, du.add_months
    fo = D.fromordinal
    edates = [fo(o) for o in es]
    flagged = []
    n = 0
    for p_o, pick in pairs:
        p = fo(p_o)
        for e_o, e in zip(es, edates):
            n += 1
            try:
                ok = add_months(p, dev_lag_months(p, e)) == e
            except Exception:  # noqa: BLE001
                ok = False
            if not ok or e_o in pick:
                flagged.append((p_o, e_o))
    sub = pair_task((flagged, 1))
    return n, sub[1], sub[2]


# --------------------------------------------------------------------------------------
# small streams: unit dispatch, ids, resolutions
# --------------------------------------------------------------------------------------

LAG_UNITS = ["months", "month", "Month", "MONTHS", "dev_months", "day", "days", "Day", "DAYS", "timedelta",
             "Timedelta", "TIMEDELTA", "monthday", "calendar_days", "in days", "timedeltas", "time", "weeks", ""]
RES_UNITS = ["month", "months", "Month", "MONTHS", "quarter", "quarters", "Quarter", "year", "years", "YEAR",
             "day", "days", "Day", "week", "weeks", "WEEK", "timedelta", "period", "", "yearmonth", "weekday",
             "calendar days", "biweekly", "half-year", "per quarter", "3-monthly"]


def stream_devlag(ctx, rng, n):
    items, impl, meta = [], [], []
    for i in range(n):
        u = rng.random()
        lo = ORD_1900 if u < 0.3 else ORD_1970
        pe = rand_date(rng, lo, ORD_2100) if rng.random() < 0.6 else rand_month_end(rng, (lo - ORD_1970) // 31, IDHI)
        pe = max(lo, pe)
        ev = rand_date(rng, lo, ORD_2100) if rng.random() < 0.5 else min(ORD_2100, pe + rng.randrange(0, 4000))
        if rng.random() < 0.3:
            ev = rand_month_end(rng, max(mid(D.fromordinal(pe)), PRE_IDLO), IDHI)
        unit = rng.choice(LAG_UNITS)
        ped, evd = D.fromordinal(pe), D.fromordinal(ev)
        via_cell = rng.random() < 0.7
        if via_cell:
            psd = D.fromordinal(max(ORD_1900, min(pe, ev) - rng.choice([0, 1, 30, 364, 400])))
            st, c = call(Cell, psd, ped, evd, {"x": 1})
            if st != "ok":
                ctx.fail("Cell(period_start <= period_end, period_start <= evaluation_date) refused",
                         {"ps": w_date(psd), "pe": w_date(ped), "ev": w_date(evd)}, c)
                continue
            st, v = call(c.dev_lag, unit)
        else:
            st, v = call(du.calculate_dev_lag, ped, evd, unit)
        if st == "ok":
            if isinstance(v, datetime.timedelta):
                kind = "timedelta"
                wv = w_rat(Fraction(v.days) + Fraction(v.seconds, 86400) + Fraction(v.microseconds, 86400 * 10 ** 6))
            else:
                kind = type(v).__name__
                wv = w_rat(v)
        else:
            kind, wv = v, None
        items.append(w_date(ped) + w_date(evd) + [unit])
        impl.append(wv)
        meta.append((via_cell, kind, unit))
        ctx.case(digest=f"devlag/{pe}/{ev}/{unit}", sample={"op": "dev_lag", "pe": w_date(ped), "ev": w_date(evd), "unit": unit} if i < 1 else None)
        ctx.count(f"devLag/unit={unit!r}")
    out = common.Driver(DRV).run([{"op": "devLag", "items": items, "impl": impl}])[0]
    for it, wv, (via_cell, kind, unit), mo, sp in zip(items, impl, meta, out["model"], out["spec"]):
        case = {"call": "Cell.dev_lag(unit)" if via_cell else "calculate_dev_lag(pe, ev, unit)",
                "pe": it[0:3], "ev": it[3:6], "unit": unit}
        if mo is None or wv is None:
            if (mo is None) != (wv is None) or (wv is None and kind != "ValueError"):
                ctx.fail("unit dispatch: 'month' / 'day' substring or 'timedelta', anything else ValueError",
                         case, {"impl": wv if wv is not None else kind, "model": mo})
            continue
        if sp is False:
            ctx.fail("dev_lag in days / timedelta is not the calendar difference (or month-end lag not the integer "
                     "month difference)", case, {"impl": wv, "model": mo})
            continue
        lower = unit.lower()
        want_kind = "float" if "month" in lower else ("int" if "day" in lower else "timedelta")
        if kind != want_kind and not (want_kind == "float" and kind in ("int", "float64")):
            ctx.disagree("dev_lag result type", case, want_kind, kind)
        a, b = Fraction(wv), Fraction(mo)
        if want_kind == "float":
            if abs(a - b) > TOL * max(1, abs(b)):
                ctx.disagree("dev_lag months (tolerance 2^-40)", case, mo, wv)
        elif a != b:
            ctx.disagree("dev_lag days", case, mo, wv)


def stream_sentinel(ctx, rng, n):
    """`evaluation_date == date.max` (date_utils.py:36-40) and `add_months(d, inf)` (58-59): the sentinel lag
    (inf / timedelta.max, decided BEFORE the unit dispatch) and the inverse law on it, against
    calculateDevLagExt / addMonthsExt; a share of ordinary evaluation dates runs through the same op so that
    the short-circuit is seen NOT to fire below date.max (incl. date.max - 1 day)."""
    import numpy as np
    MAXD = D.max
    items, impl, meta = [], [], []
    near = [MAXD - ONE, D(9999, 12, 1), D(9999, 11, 30), D(9998, 12, 31)]
    for i in range(n):
        pe = D.fromordinal(rand_date(rng, ORD_1900, ORD_2100)) if rng.random() < 0.7 else month_end_of_id(
            rng.randrange(PRE_IDLO, IDHI + 1))
        u = rng.random()
        if u < 0.6:
            ev, kind_ev = MAXD, "max"
        elif u < 0.75:
            ev, kind_ev = rng.choice(near), "near-max"
        else:
            ev, kind_ev = D.fromordinal(min(ORD_2100, pe.toordinal() + rng.randrange(0, 4000))), "ordinary"
        unit = rng.choice(LAG_UNITS + ["TimeDelta", "timedelta ", "bogus"])
        via_cell = rng.random() < 0.5
        if via_cell:
            psd = D.fromordinal(max(ORD_1900, pe.toordinal() - rng.choice([0, 1, 30, 364])))
            # the validating constructor refuses evaluation_date == date.max (cell.py:88); such a cell exists only
            # through the non-validating path, which is what Cell.dev_lag's sentinel branch serves
            st, c = call(Cell, psd, pe, ev, {"x": 1}, _skip_validation=(ev == MAXD))
            if st != "ok":
                ctx.fail("Cell with period_start <= period_end, period_start <= evaluation_date refused",
                         {"ps": w_date(psd), "pe": w_date(pe), "ev": w_date(ev)}, c)
                continue
            st, v = call(c.dev_lag, unit)
        else:
            st, v = call(du.calculate_dev_lag, pe, ev, unit)
        back = None
        if st != "ok":
            wl, kind = None, v
        elif isinstance(v, datetime.timedelta):
            kind = "timedelta"
            wl = "tdmax" if v == datetime.timedelta.max else ["fin", w_rat(Fraction(v.days) + Fraction(v.seconds, 86400))]
        elif isinstance(v, float) and v == float("inf"):
            kind, wl = "float", "inf"
            # the three spellings of infinity a caller can pass
            delta = [v, float("inf"), np.inf, np.float64("inf")][i % 4]
            s2, r = call(du.add_months, pe, delta)
            back = w_date(r) if s2 == "ok" else None
        else:
            kind, wl = type(v).__name__, ["fin", w_rat(v)]
            if "month" in unit.lower() and kind_ev == "ordinary":
                s2, r = call(du.add_months, pe, v)
                back = w_date(r) if s2 == "ok" else None
        items.append(w_date(pe) + w_date(ev) + [unit])
        impl.append([wl, back])
        meta.append((via_cell, kind, kind_ev))
        ctx.case(digest=f"sentinel/{pe.toordinal()}/{ev.toordinal()}/{unit}",
                 sample={"op": "dev_lag at date.max", "pe": w_date(pe), "ev": w_date(ev), "unit": unit} if i < 1 else None)
        ctx.count(f"sentinel/{kind_ev}/{'tdmax' if wl == 'tdmax' else 'inf' if wl == 'inf' else 'refused' if wl is None else 'finite'}")
    ctx.evaluations += len(items)
    out = common.Driver(DRV).run([{"op": "devLagExt", "items": items, "impl": impl}])[0]
    for it, (wl, back), (via_cell, kind, kind_ev), (ml, mback), sp in zip(items, impl, meta, out["model"], out["spec"]):
        case = {"call": "Cell.dev_lag(unit)" if via_cell else "calculate_dev_lag(pe, ev, unit)",
                "pe": it[0:3], "ev": it[3:6], "unit": it[6]}
        if sp is False:
            ctx.fail("inverse law on the sentinel: add_months(pe, calculate_dev_lag(pe, date.max)) is not date.max",
                     case, {"lag": wl, "add_months(pe, lag)": back, "model": mback})
            continue
        if wl is None or ml is None:
            if (wl is None) != (ml is None) or (wl is None and kind != "ValueError"):
                ctx.disagree("calculate_dev_lag refusal (date.max short-circuits before the unit dispatch; below it an "
                             "unknown unit is a ValueError)", case, ml, wl if wl is not None else kind)
            continue
        if isinstance(wl, list) and isinstance(ml, list):
            a, b = Fraction(wl[1]), Fraction(ml[1])
            if (a != b) if ("month" not in it[6].lower()) else abs(a - b) > TOL * max(1, abs(b)):
                ctx.disagree("calculate_dev_lag below date.max (must not short-circuit)", case, ml, wl)
            elif back is not None and mback is not None and back != mback and it[3] >= 1970:
                # finite month lag: the model's exact lag and the float lag can round differently only before 1970
                ctx.disagree("add_months(pe, finite lag)", case, mback, back)
        elif wl != ml:
            ctx.disagree("calculate_dev_lag sentinel (inf / timedelta.max only at date.max)", case, ml, wl)
        elif wl == "inf" and back != mback:
            ctx.disagree("add_months(pe, inf)", case, mback, back)


def stream_ids(ctx, rng, n):
    drv = common.Driver(DRV)
    dates = [D.fromordinal(rand_date(rng, ORD_1900, ORD_2100)) for _ in range(n)]
    dates += [month_end_of_id(i) for i in range(PRE_IDLO, IDHI + 1, 7)]
    dates += [D(y, m, 1) for y in (1900, 1969, 1970, 2000, 2100) for m in (1, 2, 12)]
    items, impl = [], []
    for d in dates:
        st, i = call(du.month_to_id, d)
        r = None
        if st == "ok" and isinstance(i, int):
            s1, f = call(du.id_to_month, i)
            s2, l_ = call(du.id_to_month, i, beginning=False)
            if s1 == "ok" and s2 == "ok":
                r = [i, w_date(f), w_date(l_)]
        items.append(w_date(d))
        impl.append(r)
        ctx.case(digest=f"monthId/{d.toordinal()}", sample=None)
    ctx.count("monthId/dates", len(dates))
    out = drv.run([{"op": "monthId", "items": items, "impl": impl}])[0]
    for it, im, mo, sp in zip(items, impl, out["model"], out["spec"]):
        case = {"call": "id_to_month(month_to_id(d), beginning=True/False)", "d": it}
        if not sp:
            ctx.fail("month_to_id / id_to_month do not convert losslessly between a month and its first / last day",
                     case, {"impl [id, first, last]": im, "model": mo})
        elif im != mo:
            ctx.disagree("month_to_id / id_to_month", case, mo, im)
    # every id of the range, both flags: id -> date -> id
    ids = list(range(PRE_IDLO - 24, IDHI + 25))
    items, impl = [], []
    for i in ids:
        for b in (True, False):
            st, r = call(du.id_to_month, i, b)
            back = call(du.month_to_id, r) if st == "ok" else ("err", None)
            items.append([i, b])
            impl.append(w_date(r) if st == "ok" else None)
            if st == "ok" and back != ("ok", i):
                ctx.fail("month_to_id(id_to_month(id, beginning)) != id", {"id": i, "beginning": b},
                         {"date": w_date(r), "back": back[1]})
            ctx.evaluations += 1
    ctx.count("idToMonth/ids", len(ids) * 2)
    out = drv.run([{"op": "idToMonth", "items": items, "impl": impl}])[0]
    for it, im, mo, sp in zip(items, impl, out["model"], out["spec"]):
        case = {"call": "id_to_month(id, beginning)", "id": it[0], "beginning": it[1]}
        if not sp:
            ctx.fail("id_to_month(id, beginning) is not the first / last day of month id", case, {"impl": im, "model": mo})
        elif im != mo:
            ctx.disagree("id_to_month", case, mo, im)


MONTH_KIND = ["month", "months", "Month", "MONTHS", "3-monthly", "yearmonth"]
QUARTER_KIND = ["quarter", "quarters", "Quarter", "per quarter"]
YEAR_KIND = ["year", "years", "YEAR", "half-year"]
DAY_KIND = ["day", "days", "Day", "weekday", "calendar days"]
WEEK_KIND = ["week", "weeks", "WEEK", "biweekly"]


def month_edge_days(y, m):
    """27..last day and 1, 2 of a month: the neighbourhood of month ends (incl. 28/29 February)"""
    last = calendar.monthrange(y, m)[1]
    return [D(y, m, dd) for dd in (1, 2, 27, 28, 29, 30, 31) if dd <= last]


def resolution_cases(ctx, rng, n):
    """(date, quantity, units, negative).  Random part + deterministic edges: every 28/29 February
    1970-2100 x every unit spelling x both signs x several quantities; every month end 1970-2100 and the
    days around it (27-31, 1-2) x one spelling of each unit kind x both signs.  thorough: every date."""
    for _ in range(n):
        pre = rng.random() < 0.2
        lo = ORD_1900 if pre else ORD_1970
        d = D.fromordinal(rand_date(rng, lo, ORD_2100)) if rng.random() < 0.5 else month_end_of_id(
            rng.randrange(PRE_IDLO if pre else IDLO, IDHI + 1))
        q = rng.choice([0, 1, 1, 2, 3, 4, 6, 12, 13, 24, 37, 120, rng.randrange(0, 200)])
        yield "random", d, q, rng.choice(RES_UNITS), rng.random() < 0.5
    for y in range(1970, 2101):
        for d in [D(y, 2, 28)] + ([D(y, 2, 29)] if calendar.isleap(y) else []):
            for units in RES_UNITS:
                for q in (1, rng.choice([2, 3, 5, 12, 13, 24]), rng.randrange(1, 60)):
                    for neg in (False, True):
                        yield "feb28-29", d, q, units, neg
    if ctx.thorough:
        dates = (D.fromordinal(o) for o in range(ORD_1970, ORD_2100 + 1))
        label = "every date 1970-2100"
    else:
        dates = (d for y in range(1970, 2101) for m in range(1, 13) for d in month_edge_days(y, m))
        label = "month ends +-days 1970-2100"
    pre_dates = [d for y in range(1900, 1970) for m in range(1, 13, 1 if ctx.thorough else 5) for d in month_edge_days(y, m)]
    for lab, ds in ((label, dates), ("month ends +-days 1900-1969", pre_dates)):
        for d in ds:
            for kind in (MONTH_KIND, QUARTER_KIND, YEAR_KIND, rng.choice([DAY_KIND, WEEK_KIND])):
                q = rng.choice([1, 1, 2, 3, 4, 6, 11, 12, 13, rng.randrange(1, 48)])
                for neg in (False, True):
                    yield lab, d, q, rng.choice(kind), neg


def stream_resolution(ctx, rng, n):
    items, impl, meta = [], [], []
    first = True
    for label, d, q, units, neg in resolution_cases(ctx, rng, n):
        st, std = call(du.standardize_resolution, (q, units))
        res, same = None, None
        if st == "ok":
            sq, su = std
            # keep the target inside the modelled range
            span = sq if su == "month" else sq // 28 + 1
            tgt = mid(d) + (-span if neg else span)
            if not (PRE_IDLO <= tgt <= IDHI):
                continue
            s2, r = call(du.resolution_delta, d, std, neg)
            if s2 == "ok":
                res = w_date(r)
                if su == "month":
                    same = call(du.add_months, d, -sq if neg else sq) == ("ok", r)
                else:
                    same = d + datetime.timedelta(days=-sq if neg else sq) == r
            else:
                res = None
                std = ("raised", r)
        items.append(w_date(d) + [q, units, neg])
        impl.append(res)
        meta.append((st, std, same, mid(d)))
        ctx.case(digest=f"res/{d.toordinal()}/{q}/{units}/{neg}",
                 sample={"op": "resolution_delta", "d": w_date(d), "resolution": [q, units], "negative": neg} if first else None)
        first = False
        ctx.count(f"resolution/{label}")
        if label == "random":
            ctx.count(f"resolution/units={units!r}")
    drv = common.Driver(DRV)
    outs = drv.run([{"op": "resolution", "items": items[i:i + 20000], "impl": impl[i:i + 20000]}
                    for i in range(0, len(items), 20000)])
    out = {"model": [m for o in outs for m in o["model"]], "spec": [x for o in outs for x in o["spec"]]}
    n_fail = 0
    for it, im, (st, std, same, i0), mo, sp in zip(items, impl, meta, out["model"], out["spec"]):
        case = {"call": "resolution_delta(d, standardize_resolution((q, units)), negative)", "d": it[:3],
                "resolution": it[3:5], "negative": it[5]}
        if "err" in mo or st == "err":
            if not ("err" in mo and st == "err" and std == mo["err"]):
                ctx.fail("standardize_resolution: month/quarter/year/day/week substrings, anything else ValueError",
                         case, {"impl": std, "model": mo})
            continue
        mq, mu = mo["std"]
        if list(std) != [mq, mu]:
            if std and std[0] == "raised":
                ctx.fail("resolution_delta raised on a standard resolution", case, {"raised": std[1], "model": mo})
            else:
                ctx.fail("standardize_resolution gives the wrong (quantity, unit)", case, {"impl": list(std), "model": mo["std"]})
            continue
        k = -mq if it[5] else mq
        if not sp or same is False:
            if mu == "month" and i0 + k < 0 and same is not False and not is_month_end(D(*it[:3])):
                known_once(ctx, case)
            else:
                n_fail += 1
                if n_fail <= 40:
                    ctx.fail("resolution_delta does not agree with add_months (month units) / day arithmetic (day, week units)",
                             case, {"impl": im, "model": mo["res"], "agrees_with_add_months_or_timedelta": same})
        elif im != mo["res"]:
            ctx.disagree("resolution_delta", case, mo["res"], im)


# --------------------------------------------------------------------------------------

def correspondence(ctx):
    rng = ctx.rng
    procs = min(16, os.cpu_count() or 4)
    mp = multiprocessing.get_context("fork")
    with mp.Pool(procs) as pool:
        # ---- (1) integer month offsets, 1970-2100 ------------------------------------------
        if ctx.thorough:
            n_all = ORD_2100 - ORD_1970 + 1
            step = 400
            tasks = [("range", (ORD_1970 + i, min(step, n_all - i))) for i in range(0, n_all, step)]
            n = run_enum(ctx, pool, tasks, "every date 1970-2100", IDLO, IDHI)
            ctx.notes.append(f"exhaustive: every date 1970-01-01..2100-12-31 ({n}) x every k in [-600,600] in range")
        else:
            tasks = [("monthEnds", (a, min(a + 59, IDHI))) for a in range(IDLO, IDHI + 1, 60)]
            run_enum(ctx, pool, tasks, "all month ends 1970-2100", IDLO, IDHI)
            ords = sorted({rand_date(rng, ORD_1970, ORD_2100) for _ in range(260)}
                          | {D(y, m, d).toordinal() for y in (1970, 2000, 2024, 2100) for m, d in
                             ((1, 1), (1, 30), (2, 28), (3, 1), (4, 15), (12, 30))}
                          | {D(y, 2, 29).toordinal() for y in (1972, 2000, 2096)}
                          # day-of-month ties of round(): k/28 and 15/30 fractions land on x.5 in other months
                          | {D(y, m, d).toordinal() for y in (1971, 2001, 2023) for m, d in
                             ((2, 7), (2, 14), (2, 21), (6, 15), (9, 15), (11, 15))})
            run_enum(ctx, pool, [("dates", c) for c in chunks(ords, 20)], "random dates 1970-2100", IDLO, IDHI)
        for o in (ORD_1970, ORD_2100, D(2000, 2, 29).toordinal()):
            ctx.nontrivial.add(f"enum/{o}")
        ctx.samples.append({"op": "enum", "start": [2000, 2, 29], "k": "every integer in [-600,600] with target month in 1970-01..2100-12"})

        # ---- (2) integer month offsets from / into 1900-1969 (finding D8) -------------------
        if ctx.thorough:
            n_pre = ORD_1970 - ORD_1900
            tasks = [("range", (ORD_1900 + i, min(400, n_pre - i))) for i in range(0, n_pre, 400)]
            run_enum(ctx, pool, tasks, "every date 1900-1969 (targets 1900-2100)", PRE_IDLO, IDHI)
            tasks = [("range", (ORD_1970 + i, min(400, 366 * 51 - i))) for i in range(0, 366 * 51, 400)]
            run_enum(ctx, pool, tasks, "1970-2020 into 1900-1969", PRE_IDLO, -1)
        else:
            ords = sorted({rand_date(rng, ORD_1900, ORD_1970 - 1) for _ in range(110)}
                          | {month_end_of_id(i).toordinal() for i in range(-14, 0)}
                          | {D(1969, 12, 15).toordinal(), D(1969, 12, 30).toordinal(), D(1962, 5, 17).toordinal()})
            run_enum(ctx, pool, [("dates", c) for c in chunks(ords, 10)], "sample 1900-1969 (targets 1900-2100)", PRE_IDLO, IDHI)
            ords = sorted({rand_date(rng, ORD_1970, ORD_1970 + 366 * 50) for _ in range(40)})
            run_enum(ctx, pool, [("dates", c) for c in chunks(ords, 5)], "1970-2020 into 1900-1969", PRE_IDLO, -1)

        # ---- (3) inverse law on pairs ------------------------------------------------------
        n_pairs = 1_000_000 if ctx.thorough else 200_000
        pairs = gen_pairs(rng, n_pairs, ORD_1970, ORD_2100, IDLO, IDHI)
        ctx.nontrivial.update(f"pair/{p}/{e}" for p, e in pairs[:50_000] if p != e)
        outs = pool.map(pair_task, [(c, 4 if ctx.thorough else 1) for c in chunks(pairs, 5000)], chunksize=1)
        feed_pairs(ctx, "1970-2100", outs)
        ctx.samples.append({"op": "inverse", "p": w_date(D.fromordinal(pairs[0][0])), "e": w_date(D.fromordinal(pairs[0][1]))})
        # pairs touching 1900-1969: expected result e < 1970 -> known finding, e >= 1970 must hold
        n_pre = 400_000 if ctx.thorough else 40_000
        pre = gen_pairs(rng, n_pre // 2, ORD_1900, ORD_1970 - 1, PRE_IDLO, -1)
        pre += [(rand_date(rng, ORD_1900, ORD_1970 - 1), e) for _, e in gen_pairs(rng, n_pre // 4, ORD_1970, ORD_2100, IDLO, IDHI)]
        pre += [(p, rand_date(rng, ORD_1900, ORD_1970 - 1)) for p, _ in gen_pairs(rng, n_pre // 4, ORD_1970, ORD_2100, IDLO, IDHI)]
        ctx.nontrivial.update(f"pair/{p}/{e}" for p, e in pre[:20_000] if p != e)
        outs = pool.map(pair_task, [(c, 4 if ctx.thorough else 1) for c in chunks(pre, 5000)], chunksize=1)
        feed_pairs(ctx, "touching 1900-1969", outs)

        if ctx.thorough:
            # all pairs (sampled p) x (every e) inside sliding 3-year windows, stride one year
            tasks = []
            for y in range(1900, 2099):
                w0, w1 = D(y, 1, 1).toordinal(), D(min(y + 2, 2100), 12, 31).toordinal()
                ps = sorted({rand_date(rng, w0, w1) for _ in range(70)} |
                            {month_end_of_id(i).toordinal() for i in range(12 * (y - 1970), 12 * (y - 1970) + 36, 3)})
                tasks.append((w0, w1, ps, 30, rng.randrange(1 << 30)))
            outs = pool.map(window_task, tasks, chunksize=1)
            feed_pairs(ctx, "3-year windows 1900-2100 (sampled p x every e)", outs)
            ctx.notes.append(f"windows: {len(tasks)} sliding 3-year windows, {sum(o[0] for o in outs)} pairs")

    # ---- (4) unit dispatch, ids, resolutions -------------------------------------------
    stream_devlag(ctx, rng, 20_000 if ctx.thorough else 4_000)
    stream_sentinel(ctx, rng, 6_000 if ctx.thorough else 1_500)
    stream_ids(ctx, rng, 20_000 if ctx.thorough else 3_000)
    stream_resolution(ctx, rng, 30_000 if ctx.thorough else 6_000)


if __name__ == "__main__":
    common.run_check(
        "C12", module="Bermuda.Properties.C12", driver_targets=[DRV],
        correspondence=correspondence, level="proof",
        rule="quick: every month end 1970-2100 and ~300 random dates x every integer k in [-600,600] whose target month "
             "stays in 1970-01..2100-12 (one digest per start date from the compiled model, same digest and the calendar "
             "statement recomputed from add_months; mismatches expanded to (date,k)); 200k random pairs (p,e) for the "
             "inverse law (uniform / month ends / near / adjacent / February and year edges), 40k pairs touching 1900-1969, "
             "sampled start dates in 1900-1969 and offsets into 1900-1969; 4k dev_lag unit dispatches (Cell.dev_lag and "
             "calculate_dev_lag), 1.5k dispatches at / next to date.max (sentinel: inf, timedelta.max, add_months(d, inf)), all month ids with both flags; resolution_delta vs add_months / day arithmetic / model: 6k random, every 28 and 29 "
             "February 1970-2100 x every unit spelling x both signs x 3 quantities, every month end 1970-2100 and the days "
             "around it (27-31, 1-2) x month/quarter/year/day-or-week spelling x both signs (thorough: every date). thorough: "
             "EVERY date 1970-01-01..2100-12-31 x every k, every date 1900-1969 x every k, 1M + 400k pairs, sampled p x "
             "every e in all sliding 3-year windows 1900-2100. distinct = distinct (date) / (p,e) / (input tuple); "
             "evaluations counts single add_months / dev_lag / id calls",
        assumptions=["dates within 1900-01-01..2100-12-31 (the theorems hold for all dates from 1970 on; the tie between "
                     "floating point code and exact model is enumeration on the stated range)",
                     "the date.max sentinel (evaluation_date == date.max -> inf / timedelta.max before the unit dispatch; "
                     "add_months(d, inf) -> date.max) is modelled by the wrappers calculateDevLagExt / addMonthsExt "
                     "(Model/DateUtilsExt.lean; theorems calculateDevLagExt_fin/_max, addMonthsExt_devLagExt_max) and "
                     "compared in the `sentinel` stream; NaN and -inf deltas are outside the property",
                     "float month lags are compared with the exact model lag with tolerance 2^-40*max(1,|lag|); "
                     "dates, day lags and month-end lags are compared exactly"],
        trusted=["CPython datetime.date ordinal arithmetic and calendar.monthrange as modelled (Model/Basic.lean dim, ordinal)",
                 "digest (count, sum ord, k-weighted sum ord) per start date distinguishes result rows"],
    )
