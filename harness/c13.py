"""C13 — descriptive accessors and the triangle taxonomy agree with the cells.

Correspondence between bermuda's accessors (periods, evaluation_dates, evaluation_date, dev_lags,
fields, metadata, field_cell_counts, field_slice_counts, num_samples, experience_gaps,
common_metadata, metadata_differences, is_disjoint, is_semi_regular, is_regular, period_resolution,
eval_date_resolution, is_slicewise_disjoint, slice_period_rows) and the Lean model (drv_c13); the Lean Spec predicates and the independently
written taxonomy definitions (Spec/C13.lean) are evaluated against the IMPLEMENTATION's outputs."""
import calendar
import datetime
import json
from fractions import Fraction

import numpy as np

import common
from common import w_cells, w_meta, w_date, w_rat, canon_cell, call
import gen
from bermuda import Cell, CumulativeCell, IncrementalCell, Metadata, Triangle
from bermuda.date_utils import dev_lag_months

D = datetime.date
DAY = datetime.timedelta(days=1)
TOL = 2.0 ** -40


def canon(cells_wire):
    return [canon_cell(c) for c in cells_wire]


def mdays(d):
    return calendar.monthrange(d.year, d.month)[1]


def exact_lag_months(a, b):
    return (12 * (b.year - a.year) + (b.month - a.month)
            - Fraction(a.day, mdays(a)) + Fraction(b.day, mdays(b)))


# ---- layouts ------------------------------------------------------------------------------------
# every layout returns rows (ps, pe, [evals]) for one slice

def lay_regular(rng):
    return gen.layout_regular(rng)


def lay_off_grid_lag(rng):
    """regular periods, square lags, one evaluation date moved off the lag grid"""
    res = rng.choice([1, 3, 6, 12])
    rows = gen.layout_regular(rng, res=res, n_periods=rng.randrange(1, 4), n_lags=rng.randrange(3, 6), shape="square")
    i = rng.randrange(len(rows))
    ps, pe, evs = rows[i]
    j = rng.randrange(len(evs))
    how = rng.random()
    if how < 0.5:
        evs = evs[:j] + [gen.add_months_int(evs[j], 1, end=True) if res > 1 else evs[j] + 10 * DAY] + evs[j + 1:]
    else:
        evs = evs[:j] + [evs[j] + rng.choice([1, 5, 15]) * DAY] + evs[j + 1:]
    rows[i] = (ps, pe, sorted(set(evs)))
    return rows


def lay_unequal_periods(rng):
    """month-aligned, non-overlapping, periods of different month counts (irregular), with gaps"""
    start = D(rng.randrange(1995, 2030), rng.choice([1, 4, 7, 10]), 1)
    rows, cur = [], start
    for _ in range(rng.randrange(2, 5)):
        cur = gen.add_months_int(cur, rng.choice([0, 0, 1, 3, 6]))
        n = rng.choice([1, 2, 3, 6, 12])
        pe = gen.add_months_int(cur, n - 1, end=True)
        evs = [gen.add_months_int(pe, k * rng.choice([1, 3]), end=True) for k in range(rng.randrange(1, 4))]
        rows.append((cur, pe, sorted(set(evs))))
        cur = pe + DAY
    return rows


def lay_gaps(rng):
    """regular layout with some periods dropped (experience gaps) and some evaluation dates thinned"""
    res = rng.choice([1, 3, 6, 12])
    rows = gen.layout_regular(rng, res=res, n_periods=rng.randrange(3, 7), n_lags=rng.randrange(1, 5))
    keep = [r for r in rows if rng.random() < 0.6] or rows[:1]
    return keep


def lay_touching(rng):
    """two or three day-level periods that are adjacent, overlap by exactly one day, or leave a
    one-day gap: the classification boundary of is_disjoint"""
    ps = D(rng.randrange(1995, 2030), rng.randrange(1, 13), rng.randrange(1, 28))
    rows = []
    for _ in range(rng.randrange(2, 4)):
        pe = ps + datetime.timedelta(days=rng.choice([0, 6, 29, 30, 89]))
        evs = [pe + datetime.timedelta(days=k) for k in sorted(rng.sample([0, 1, 30, 31, 59, 90], rng.randrange(1, 4)))]
        rows.append((ps, pe, evs))
        ps = pe + datetime.timedelta(days=rng.choice([0, 1, 1, 2]))   # 0: shares one day; 1: adjacent; 2: gap
    return rows


def lay_overlap(rng):
    """erratic: nested / overlapping / duplicated-start periods"""
    base = D(rng.randrange(1995, 2030), rng.randrange(1, 13), 1)
    rows = []
    for _ in range(rng.randrange(2, 5)):
        ps = gen.add_months_int(base, rng.randrange(0, 6))
        pe = gen.add_months_int(ps, rng.randrange(0, 12), end=True)
        if rng.random() < 0.3:
            pe = pe - datetime.timedelta(days=rng.randrange(0, 20))
            if pe < ps:
                pe = ps
        evs = [gen.add_months_int(pe, k, end=True) for k in sorted(rng.sample(range(0, 8), rng.randrange(1, 4)))]
        rows.append((ps, pe, evs))
    return rows


def lay_calendar_months(rng):
    """consecutive calendar months (equal in months, unequal in days), lags at month ends"""
    start = D(rng.randrange(1995, 2030), rng.randrange(1, 13), 1)
    n_lags = rng.randrange(1, 4)
    rows = []
    for i in range(rng.randrange(2, 5)):
        ps = gen.add_months_int(start, i)
        pe = gen.add_months_int(ps, 0, end=True)
        rows.append((ps, pe, [gen.add_months_int(pe, k, end=True) for k in range(n_lags)]))
    return rows


def lay_equal_days(rng):
    """periods of an equal number of days (regular in days, usually not in months)"""
    n = rng.choice([7, 14, 30, 91])
    step = rng.choice([n, n, n + 1])
    ps = D(rng.randrange(1995, 2030), rng.randrange(1, 13), rng.randrange(1, 28))
    k = rng.choice([7, 30])
    n_lags = rng.randrange(1, 4)
    rows = []
    for _ in range(rng.randrange(2, 5)):
        pe = ps + datetime.timedelta(days=n - 1)
        rows.append((ps, pe, [pe + datetime.timedelta(days=k * j) for j in range(n_lags)]))
        ps = ps + datetime.timedelta(days=step)
    return rows


def lay_same_month_evals(rng):
    """several evaluation dates inside one month (month-id gap 0) next to month-spaced ones"""
    ps = D(rng.randrange(1995, 2030), rng.randrange(1, 13), 1)
    pe = gen.add_months_int(ps, rng.choice([0, 2]), end=True)
    evs = {pe}
    for _ in range(rng.randrange(1, 4)):
        evs.add(gen.add_months_int(pe, rng.choice([1, 1, 3, 6]), end=False).replace(day=rng.randrange(1, 28)))
    return [(ps, pe, sorted(evs))]


def lay_daily(rng):
    return gen.layout_daily(rng)


LAYOUTS = {
    "regular": lay_regular, "off-grid-lag": lay_off_grid_lag, "unequal-periods": lay_unequal_periods,
    "gaps": lay_gaps, "touching": lay_touching, "overlap": lay_overlap,
    "calendar-months": lay_calendar_months, "equal-days": lay_equal_days,
    "same-month-evals": lay_same_month_evals, "daily": lay_daily,
}


def rand_metas(rng, n):
    """n distinct metadata with arbitrary shared / unshared attributes and details"""
    r = rng.random()
    if r < 0.4:
        return gen.rand_metas(rng, n, single_attr=False)
    if r < 0.6:
        return gen.rand_metas(rng, n, single_attr=True)
    # shared base, details and loss_details overlapping partly in keys and values
    typed = {}
    base = gen.base_meta_kwargs(rng, typed)
    pool = {"coverage": ["BI", "PD"], "state": ["CA", "NY"], "k": [0, 1], "s": [0.5, 1.5]}
    out, seen = [], set()
    tries = 0
    while len(out) < n and tries < 60:
        tries += 1
        kw = dict(base)
        for attr in ("details", "loss_details"):
            kw[attr] = {k: rng.choice(v) for k, v in pool.items() if rng.random() < 0.6}
        for attr in ("country", "currency", "reinsurance_basis", "loss_definition"):
            if rng.random() < 0.25:
                kw[attr] = rng.choice(gen._STR_POOL[attr])
        if rng.random() < 0.25:
            kw["per_occurrence_limit"] = rng.choice(gen._LIMITS)
        if rng.random() < 0.15:
            kw["risk_basis"] = rng.choice(gen._STR_POOL["risk_basis"])
        m = Metadata(**kw)
        if m not in seen and all(m != o for o in out):
            seen.add(m)
            out.append(m)
    return out


def late_metas(rng, n):
    """n >= 3 slices whose first-sorting ones share NOTHING except an attribute value that equals the dataclass
    default (risk_basis "Accident"; everything else None / empty), while a slice sorting later differs in exactly
    that attribute -- or, second flavour, shares an attribute value with only SOME of the earlier slices. The fold
    of common_metadata has to look at every slice even after the running value became `Metadata()`."""
    flavour = rng.choice(["default-risk-basis", "default-risk-basis", "late-only-differs", "late-none"])
    cs = rng.sample(["US", "DE", "ES", "FR", "IT"], n - 1)
    if flavour == "default-risk-basis":
        early = [Metadata(country=c, **({"details": {"lob": rng.choice(["auto", "home"])}} if rng.random() < 0.3 else {}))
                 for c in cs]
        # make sure the early slices share no detail
        if len({tuple(m.details.items()) for m in early}) == 1 and early[0].details:
            early[0] = Metadata(country=cs[0])
        late = Metadata(risk_basis=rng.choice(["Policy", "Report"]), country=rng.choice(cs + ["GB", None]))
        return early + [late]
    if flavour == "late-only-differs":
        # all early slices share currency and risk basis, the last one (sorting last: risk_basis Report) does not
        early = [Metadata(country=c, currency="USD") for c in cs]
        return early + [Metadata(risk_basis="Report", country=cs[0], currency=rng.choice(["EUR", None, "USD"]))]
    # risk_basis None sorts FIRST: the odd slice leads
    return [Metadata(risk_basis=None, country=cs[0])] + [Metadata(country=c) for c in cs]


def decorate_none(rng, metas):
    """give some (not all) slices a details / loss_details entry whose value is None (an allowed
    MetadataValue): `{key: None}` in one slice and the key ABSENT from another must not count as
    shared. Key names sorting before and after the usual keys put the None-carrying slices before
    or after the lacking ones in `metadata` order (the fold of common_metadata is order-sensitive)."""
    import dataclasses
    for attr in ("details", "loss_details"):
        if rng.random() < 0.25:
            key = rng.choice(["aa_flag", "zz_flag", "cohort"])
            p = rng.choice([0.5, 0.7, 1.0])
            metas = [dataclasses.replace(m, **{attr: {**getattr(m, attr), key: None}}) if rng.random() < p else m
                     for m in metas]
    return metas


def make_cells(rng):
    layout = rng.choice(sorted(LAYOUTS))
    n_slices = rng.choice([1, 1, 2, 2, 3, 4])
    kind = rng.choice(["C", "U", "I"])
    same_layout = rng.random() < 0.6
    if rng.random() < 0.08:
        n_slices = rng.choice([3, 4, 5])
        metas = late_metas(rng, n_slices)
    else:
        metas = decorate_none(rng, rand_metas(rng, n_slices))
    fields_pool = rng.sample(gen.FIELDS, rng.randrange(1, 5))
    sample_mode = rng.choice(["scalar", "scalar", "samples", "samples", "mixed", "inconsistent", "size1"])
    rows = LAYOUTS[layout](rng)
    cells = []
    for m in metas:
        r = rows if same_layout else LAYOUTS[layout](rng)
        fs = fields_pool if rng.random() < 0.5 else (rng.sample(fields_pool, rng.randrange(1, len(fields_pool) + 1)))
        n_s = rng.choice([2, 4])
        for ps, pe, evals in r:
            prev = ps - DAY
            for ev in evals:
                use = fs if rng.random() < 0.6 else ([f for f in fs if rng.random() < 0.6] or fs[:1])
                vals = {}
                for f in use:
                    if sample_mode == "scalar":
                        vals[f] = gen.rand_value(rng, rng.choice(["int", "float"]))
                    elif sample_mode == "samples":
                        vals[f] = gen.rand_value(rng, rng.choice(["iarr", "farr"]), n_samples=n_s if len(metas) == 1 else 4)
                    elif sample_mode == "mixed":
                        vals[f] = gen.rand_value(rng, rng.choice(["int", "farr", "none"]), n_samples=3)
                    elif sample_mode == "size1":
                        vals[f] = rng.choice([np.array([1.5]), np.array(7), gen.rand_value(rng, "iarr", n_samples=5), 3])
                    else:
                        vals[f] = gen.rand_value(rng, "farr", n_samples=rng.choice([3, 3, 3, 4]))
                if kind == "I":
                    cells.append(IncrementalCell(ps, pe, prev, ev, vals, m))
                    prev = ev
                elif kind == "U":
                    cells.append(CumulativeCell(ps, pe, ev, vals, m))
                else:
                    cells.append(Cell(ps, pe, ev, vals, m))
    if len(cells) > 40:
        cells = rng.sample(cells, 40)
    rng.shuffle(cells)
    return cells, {"layout": layout, "slices": len(metas), "kind": kind, "samples": sample_mode}


# ---- implementation dump ----------------------------------------------------------------------

def wrap(res, conv=lambda x: x):
    st, v = res
    return {"ok": conv(v)} if st == "ok" else {"err": v}


def call_cls(fn):
    """like common.call but keeps the exact exception class name"""
    try:
        return ("ok", fn())
    except Exception as e:  # noqa: BLE001
        return ("err", type(e).__name__)


def snap(f, exact):
    """an implementation month lag (IEEE double) as the exact rational it approximates within relative
    2^-40 (division by days-in-month is unavoidable); otherwise the float's own exact value"""
    for q in exact:
        if abs(float(q) - f) <= TOL * max(1.0, abs(f)):
            return q
    return Fraction(f)


def lag_to_rat(x, exact_months, kind):
    if kind == "month":
        return snap(float(x), exact_months)
    if kind == "timedelta":
        if x.seconds or x.microseconds:
            return Fraction(x.total_seconds()) / 86400
        return Fraction(x.days)
    return Fraction(int(x))


def unit_kind(u):
    u = u.lower()
    if "month" in u:
        return "month"
    if "day" in u:
        return "day"
    if u == "timedelta":
        return "timedelta"
    return None


def float_ok_semi(t):
    """month-unit period lengths: the float equalities the implementation evaluates agree with exact ones"""
    ps = sorted({c.period for c in t.cells})
    if not ps or ps[0][0] == D.min:
        return True
    fl = [dev_lag_months(s - DAY, e) for s, e in ps]
    ex = [exact_lag_months(s - DAY, e) for s, e in ps]
    return all((f == fl[0]) == (q == ex[0]) for f, q in zip(fl, ex))


def float_ok_lags(t):
    """month-unit lags: float set has as many members as the exact one and equal-spacing tests agree"""
    fl = sorted({c.dev_lag("month") for c in t.cells})
    ex = sorted({exact_lag_months(c.period_end, c.evaluation_date) for c in t.cells})
    if len(fl) != len(ex):
        return False
    if len(fl) < 3:
        return True
    of, oq = fl[1] - fl[0], ex[1] - ex[0]
    return all(((b - a) != of) == ((bq - aq) != oq)
               for a, b, aq, bq in zip(fl[1:-1], fl[2:], ex[1:-1], ex[2:]))


def impl_dump(t, units):
    exact_months = sorted({exact_lag_months(c.period_end, c.evaluation_date) for c in t.cells})
    d = {}
    d["periods"] = wrap(call(lambda: t.periods), lambda ps: [[w_date(a), w_date(b)] for a, b in ps])
    d["evaluation_dates"] = wrap(call(lambda: t.evaluation_dates), lambda ds: [w_date(x) for x in ds])
    d["evaluation_date"] = wrap(call_cls(lambda: t.evaluation_date), w_date)
    d["dev_lags"] = {u: wrap(call(lambda u=u: t.dev_lags(u)),
                             lambda ls, u=u: [w_rat(lag_to_rat(x, exact_months, unit_kind(u))) for x in ls])
                     for u in units}
    d["fields"] = wrap(call(lambda: t.fields), list)
    d["metadata"] = wrap(call(lambda: t.metadata), lambda ms: [w_meta(m) for m in ms])
    d["field_cell_counts"] = wrap(call(lambda: t.field_cell_counts), lambda x: [[k, int(v)] for k, v in x.items()])
    d["field_slice_counts"] = wrap(call(lambda: t.field_slice_counts), lambda x: [[k, int(v)] for k, v in x.items()])
    d["num_samples"] = wrap(call(lambda: t.num_samples), int)
    d["experience_gaps"] = wrap(call(lambda: t.experience_gaps), lambda ps: [[w_date(a), w_date(b)] for a, b in ps])
    d["common_metadata"] = wrap(call(lambda: t.common_metadata), w_meta)
    d["metadata_differences"] = wrap(call(lambda: t.metadata_differences), lambda ms: [w_meta(m) for m in ms])
    d["is_disjoint"] = wrap(call(lambda: t.is_disjoint), bool)
    d["is_slicewise_disjoint"] = wrap(call(lambda: t.is_slicewise_disjoint), bool)
    d["slice_period_rows"] = wrap(call(lambda: list(t.slice_period_rows)), lambda rows: [
        [w_meta(k[0]), [w_date(k[1][0]), w_date(k[1][1])], w_cells(row)] for k, row in rows])
    d["is_semi_regular"] = {u: wrap(call(lambda u=u: t.is_semi_regular(u)), bool) for u in units}
    d["is_regular"] = {u: wrap(call(lambda u=u: t.is_regular(u)), bool) for u in units}
    d["period_resolution"] = wrap(call(lambda: t.period_resolution), lambda x: None if x is None else int(x))
    d["eval_date_resolution"] = wrap(call(lambda: t.eval_date_resolution), lambda x: None if x is None else int(x))
    return d


# accessors that never raise on a valid triangle are sent to the driver unwrapped
PLAIN = ["periods", "evaluation_dates", "fields", "metadata", "field_cell_counts", "field_slice_counts",
         "experience_gaps", "is_disjoint", "is_slicewise_disjoint", "slice_period_rows"]
WRAPPED = ["evaluation_date", "num_samples", "common_metadata", "metadata_differences", "period_resolution",
           "eval_date_resolution"]


def to_driver(d):
    out = {}
    for k in PLAIN:
        out[k] = d[k].get("ok") if "ok" in d[k] else None
    for k in WRAPPED + ["dev_lags", "is_semi_regular", "is_regular"]:
        out[k] = d[k]
    return out


def correspondence(ctx):
    rng = ctx.rng
    drv = common.Driver("drv_c13")
    n_tri = 9000 if ctx.thorough else 1500
    reqs, cases = [], []
    def emit(t, wcells, desc):
        units = ["month", "day", "timedelta"]
        if rng.random() < 0.15:
            units.append(rng.choice(["Months", "DAYS", "weeks", "fortnight"]))
        for k, v in desc.items():
            ctx.count(f"tri/{k}={v}")
        d = impl_dump(t, units)
        if rng.random() < 0.3:
            # read everything a second time on the same object, after emptying the containers that the
            # non-cached accessors returned (dev_lags list, slices dict): the answers must not change
            ctx.count("stream/accessors read twice")
            for u in ("month", "day"):
                st, lst = call(lambda u=u: t.dev_lags(u))
                if st == "ok":
                    lst.clear()
            st, sl = call(lambda: t.slices)
            if st == "ok":
                sl.clear()
            d2 = impl_dump(t, units)
            if d2 != d:
                diff = sorted(k for k in d if d[k] != d2.get(k))
                ctx.fail("accessors give different answers on a second read of the same triangle",
                         {"cells": wcells, "accessors": diff}, {"first": {k: d[k] for k in diff}, "second": {k: d2[k] for k in diff}})
            d = d2
        guards = {"semi": float_ok_semi(t), "lags": float_ok_lags(t)}
        if not guards["semi"]:
            ctx.count("guard/month period lengths float-ambiguous (month taxonomy not compared)")
        if not guards["lags"]:
            ctx.count("guard/month lags float-ambiguous (month dev_lags / is_regular not compared)")
        reqs.append({"cells": wcells, "units": units, "impl": to_driver(d)})
        cases.append((wcells, units, d, desc, guards, w_cells(t.cells)))

    def derive(t):
        """an operation applied to a triangle whose cached accessors have ALL been read already;
        returns (name, derived Triangle object) or None"""
        fields = t.fields
        evs = t.evaluation_dates
        ops = ["merge-all", "merge-details", "merge-attr", "split-by-period", "split-by-eval",
               "derive_fields-const", "derive_fields-fn", "select", "clip", "add", "right_edge", "filter"]
        name = rng.choice(ops)
        if name == "merge-all":
            fn = lambda: t.derive_metadata(risk_basis="Accident", country=None, currency=None,
                                           reinsurance_basis=None, loss_definition=None,
                                           per_occurrence_limit=None, details={}, loss_details={})
        elif name == "merge-details":
            fn = lambda: t.derive_metadata(details={}, loss_details={})
        elif name == "merge-attr":
            attr = rng.choice(["country", "currency", "reinsurance_basis", "loss_definition"])
            fn = lambda: t.derive_metadata(**{attr: "ZZ"})
        elif name == "split-by-period":
            fn = lambda: t.derive_metadata(zz_period=lambda c: c.period_start.toordinal())
        elif name == "split-by-eval":
            fn = lambda: t.derive_metadata(zz_year=lambda c: c.evaluation_date.year % 2)
        elif name == "derive_fields-const":
            fn = lambda: t.derive_fields(zz_new=1, **({fields[0]: 2.5} if fields and rng.random() < 0.5 else {}))
        elif name == "derive_fields-fn":
            fn = lambda: t.derive_fields(zz_cnt=lambda c: len(c.values))
        elif name == "select":
            ks = [f for f in fields if rng.random() < 0.5]
            fn = lambda: t.select(ks)
        elif name == "clip":
            fn = (lambda: t.clip(max_eval=rng.choice(evs))) if evs else (lambda: t.clip())
        elif name == "add":
            fn = lambda: t + t.derive_metadata(zz_copy=True).select(fields[:1])
        elif name == "right_edge":
            fn = lambda: t.right_edge
        else:
            keep = {id(c): rng.random() < 0.6 for c in t.cells}
            fn = lambda: t.filter(lambda c: keep[id(c)])
        st, out = call(fn)
        if st != "ok" or not isinstance(out, Triangle):
            ctx.count(f"derived/{name}/raised")
            return None
        return name, out

    for i in range(n_tri):
        if rng.random() < 0.02:
            cells, desc = [], {"layout": "empty", "slices": 0, "kind": "-", "samples": "-"}
        else:
            cells, desc = make_cells(rng)
        st, t = call(Triangle, cells)
        if st != "ok":
            raise common.Infra(f"generator produced cells the constructor refuses: {t} {desc}")
        emit(t, w_cells(cells), desc)
        # SEQUENCE stream: every cached accessor of `t` has now been read. Apply an operation to that
        # very object and check the accessors of the OUTPUT object against the model applied to the
        # output's cells (a cache carried over from the input would be stale).
        if t.cells and rng.random() < 0.35:
            got = derive(t)
            if got is not None:
                name, out = got
                ctx.count(f"derived/{name}")
                emit(out, w_cells(out.cells), {"layout": f"derived:{name}", "slices": len(out.slices),
                                               "kind": desc["kind"], "samples": desc["samples"]})

    outs = drv.run(reqs)

    for (wcells, units, d, desc, guards, tcells), out in zip(cases, outs):
        if "ok" not in out["t"] or canon(out["t"]["ok"]) != canon(tcells):
            ctx.disagree("Triangle(cells).cells", {"cells": wcells}, out["t"], tcells)
            continue
        model, spec, tax = out["model"], out["spec"], out["taxonomy"]
        ctx.case(digest=json.dumps(canon(wcells), sort_keys=True), nontrivial=len(tcells) > 1,
                 sample={"n_cells": len(tcells), **desc, "is_disjoint": d["is_disjoint"],
                         "is_regular": d["is_regular"].get("month"), "period_resolution": d["period_resolution"]})
        case = {"cells": wcells}
        tag = ("disjoint" if d["is_disjoint"].get("ok") else "overlapping") + "/" + (
            "regular" if d["is_regular"]["month"].get("ok") else
            "semi-regular" if d["is_semi_regular"]["month"].get("ok") else "irregular")
        ctx.count(f"taxonomy(month)/{tag}")
        ctx.count(f"num_samples/{d['num_samples'].get('ok', 'ValueError')}")
        ctx.count(f"period_resolution/{d['period_resolution'].get('ok', 'err')}")
        ctx.count(f"eval_date_resolution/{d['eval_date_resolution'].get('ok', 'err')}")
        ctx.count(f"gaps/{len(d['experience_gaps'].get('ok', []))}")

        def month_skip(name, u):
            k = unit_kind(u)
            if k != "month":
                return False
            if name == "dev_lags":
                return not guards["lags"]
            if name == "is_semi_regular":
                return not guards["semi"]
            if name == "is_regular":
                return not (guards["semi"] and guards["lags"])
            return False

        def compare(name, m, im, sp, u=None):
            """m: model answer, im: implementation answer (both {'ok'|'err'}), sp: spec verdict or None"""
            where = dict(case, accessor=name, **({"unit": u} if u else {}))
            if sp is False:
                ctx.fail(f"{name}: the implementation's answer is not what the cells determine", where,
                         {"impl": im, "model": m})
                return
            if ("err" in m) != ("err" in im):
                if name in PLAIN or name in ("evaluation_date", "common_metadata", "metadata_differences"):
                    ctx.fail(f"{name}: raises / does not raise unlike the model of the documented behaviour", where,
                             {"impl": im, "model": m})
                else:
                    ctx.disagree(name, where, m, im)
                return
            if "err" in m:
                if name == "evaluation_date" and im["err"] != "TriangleEmptyError":
                    ctx.fail("evaluation_date on an empty triangle must raise TriangleEmptyError", where, {"impl": im})
                elif name == "num_samples" and im["err"] != "ValueError":
                    ctx.fail("num_samples with inconsistent sizes must raise ValueError", where, {"impl": im})
                return
            if name == "slice_period_rows":
                if [[a, b, canon(r)] for a, b, r in m["ok"]] != [[a, b, canon(r)] for a, b, r in im["ok"]]:
                    ctx.disagree(name, where, m, im)
            elif m["ok"] != im["ok"]:
                ctx.disagree(name, where, m, im)

        for name in PLAIN:
            compare(name, {"ok": model[name]}, d[name], spec.get(name))
        for name in WRAPPED:
            compare(name, model[name], d[name], spec.get(name))
        for u in units:
            if not month_skip("dev_lags", u):
                compare("dev_lags", model["dev_lags"][u], d["dev_lags"][u], spec["dev_lags"].get(u), u)
            for name in ("is_semi_regular", "is_regular"):
                if month_skip(name, u):
                    continue
                im = d[name][u]
                compare(name, model[name][u], im, None, u)
                tv = tax[name].get(u)
                if tv is not None and "ok" in im and im["ok"] != tv:
                    ctx.fail(f"{name}('{u}') disagrees with the documented taxonomy computed independently",
                             dict(case, accessor=name, unit=u), {"impl": im["ok"], "independent": tv})
        if "ok" in d["is_slicewise_disjoint"]:
            sw = d["is_slicewise_disjoint"]["ok"]
            ctx.count(f"slicewise/{'disjoint' if sw else 'overlapping'} (whole triangle "
                      f"{'disjoint' if d['is_disjoint'].get('ok') else 'overlapping'})")
            if sw != tax["is_slicewise_disjoint"]:
                ctx.fail("is_slicewise_disjoint disagrees with 'no two different periods of one slice overlap' "
                         "computed pairwise", dict(case, accessor="is_slicewise_disjoint"),
                         {"impl": sw, "independent": tax["is_slicewise_disjoint"]})
            if d["is_disjoint"].get("ok") and not sw:
                ctx.fail("is_disjoint without is_slicewise_disjoint", case)
        if "ok" in d["slice_period_rows"]:
            ctx.count(f"slice_period_rows/rows={min(len(d['slice_period_rows']['ok']), 8)}"
                      f"{'+' if len(d['slice_period_rows']['ok']) > 8 else ''}")
        if "ok" in d["is_disjoint"] and d["is_disjoint"]["ok"] != tax["is_disjoint"]:
            ctx.fail("is_disjoint disagrees with 'no two different periods overlap' computed pairwise",
                     dict(case, accessor="is_disjoint"), {"impl": d["is_disjoint"]["ok"], "independent": tax["is_disjoint"]})
        # nesting, on the implementation directly
        for u in units:
            if unit_kind(u) is None:
                continue
            r, s = d["is_regular"][u].get("ok"), d["is_semi_regular"][u].get("ok")
            if r and not s:
                ctx.fail("is_regular without is_semi_regular", dict(case, unit=u))
            if s and not d["is_disjoint"].get("ok"):
                ctx.fail("is_semi_regular without is_disjoint", dict(case, unit=u))


if __name__ == "__main__":
    common.run_check(
        "C13", module="Bermuda.Properties.C13", driver_targets=["drv_c13"],
        correspondence=correspondence,
        level="proof",
        rule="random triangles: 0-4 slices with arbitrary shared/unshared metadata (attributes, details, loss_details), "
             "layouts {regular, one off-grid lag, unequal period lengths, dropped periods, touching/adjacent/one-day "
             "overlap, overlapping/nested, calendar months, equal-day periods, several evaluations in one month, "
             "day-level}, same or different layout per slice, 3-5-slice layouts where only a late-sorting slice differs in an "
             "attribute the earlier ones share (incl. the default risk_basis), is_slicewise_disjoint and slice_period_rows "
             "(model + Spec + independent taxonomy), mixed field coverage, scalar / sample / mixed / "
             "inconsistent-size / size-1 values, None-valued detail entries present in some slices only; units month, day, "
             "timedelta (+ aliases and unrecognised units); sequence stream: accessors read twice on one object, and "
             "accessors of triangles DERIVED (derive_metadata merging/splitting slices, derive_fields, select, clip, +, "
             "right_edge, filter) from an object whose cached accessors were all read before. "
             "distinct = distinct canonical cell dump; non-trivial = more than one cell",
        assumptions=["month lags and month period lengths are IEEE doubles in the implementation: implementation lags "
                     "are matched to the exact rational within relative 2^-40, and month-unit dev_lags / is_semi_regular "
                     "/ is_regular are compared only when the float (in)equalities the code evaluates agree with the "
                     "exact ones (counted in the input distribution as guard/...)",
                     "detail values under one key are mutually comparable", "NaN-free values",
                     "period_end < date.max and period_start > date.min (timedelta overflow otherwise)"],
        trusted=["Python set/sorted semantics as modelled (Model/Accessors.lean: sortedDedup)",
                 "math.gcd over a set is order-independent"],
    )
