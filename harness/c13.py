"""C13 — descriptive accessors and the triangle taxonomy agree with the cells.

Correspondence between bermuda's accessors (periods, evaluation_dates, evaluation_date, dev_lags,
fields, metadata, field_cell_counts, field_slice_counts, num_samples, experience_gaps,
common_metadata, metadata_differences, is_disjoint, is_semi_regular, is_regular, period_resolution,
eval_date_resolution, is_slicewise_disjoint, slice_period_rows) and the Lean model (drv_c13); the Lean Spec predicates and the independently
written taxonomy definitions (Spec/C13.lean) are evaluated against the IMPLEMENTATION's outputs."""
import calendar
import dataclasses
import datetime
import json
import os
from fractions import Fraction

import numpy as np

import common
from common import w_cells, w_meta, w_date, w_rat, canon_cell, call
import gen
import c09_seq
from bermuda import Cell, CumulativeCell, IncrementalCell, Metadata, Triangle
from bermuda.date_utils import dev_lag_months

D = datetime.date
DAY = datetime.timedelta(days=1)
TOL = 2.0 ** -40


def canon(cells_wire):
    return [canon_cell(c) for c in cells_wire]


def mdays(d):
    return calendar.monthrange(d.year, d.month)[1]


def exact_lag_months(a, b):
    return (12 * (b.year - a.year) + (b.month - a.month)
            - Fraction(a.day, mdays(a)) + Fraction(b.day, mdays(b)))


# ---- layouts ------------------------------------------------------------------------------------
# every layout returns rows (ps, pe, [evals]) for one slice

def lay_regular(rng):
    return gen.layout_regular(rng)


def lay_off_grid_lag(rng):
    """regular periods, square lags, one evaluation date moved off the lag grid"""
    res = rng.choice([1, 3, 6, 12])
    rows = gen.layout_regular(rng, res=res, n_periods=rng.randrange(1, 4), n_lags=rng.randrange(3, 6), shape="square")
    i = rng.randrange(len(rows))
    ps, pe, evs = rows[i]
    j = rng.randrange(len(evs))
    how = rng.random()
    if how < 0.5:
        evs = evs[:j] + [gen.add_months_int(evs[j], 1, end=True) if res > 1 else evs[j] + 10 * DAY] + evs[j + 1:]
    else:
        evs = evs[:j] + [evs[j] + rng.choice([1, 5, 15]) * DAY] + evs[j + 1:]
    rows[i] = (ps, pe, sorted(set(evs)))
    return rows


def lay_unequal_periods(rng):
    """month-aligned, non-overlapping, periods of different month counts (irregular), with gaps"""
    start = D(rng.randrange(1995, 2030), rng.choice([1, 4, 7, 10]), 1)
    rows, cur = [], start
    for _ in range(rng.randrange(2, 5)):
        cur = gen.add_months_int(cur, rng.choice([0, 0, 1, 3, 6]))
        n = rng.choice([1, 2, 3, 6, 12])
        pe = gen.add_months_int(cur, n - 1, end=True)
        evs = [gen.add_months_int(pe, k * rng.choice([1, 3]), end=True) for k in range(rng.randrange(1, 4))]
        rows.append((cur, pe, sorted(set(evs))))
        cur = pe + DAY
    return rows


def lay_gaps(rng):
    """regular layout with some periods dropped (experience gaps) and some evaluation dates thinned"""
    res = rng.choice([1, 3, 6, 12])
    rows = gen.layout_regular(rng, res=res, n_periods=rng.randrange(3, 7), n_lags=rng.randrange(1, 5))
    keep = [r for r in rows if rng.random() < 0.6] or rows[:1]
    return keep


def lay_touching(rng):
    """two or three day-level periods that are adjacent, overlap by exactly one day, or leave a
    one-day gap: the classification boundary of is_disjoint"""
    ps = D(rng.randrange(1995, 2030), rng.randrange(1, 13), rng.randrange(1, 28))
    rows = []
    for _ in range(rng.randrange(2, 4)):
        pe = ps + datetime.timedelta(days=rng.choice([0, 6, 29, 30, 89]))
        evs = [pe + datetime.timedelta(days=k) for k in sorted(rng.sample([0, 1, 30, 31, 59, 90], rng.randrange(1, 4)))]
        rows.append((ps, pe, evs))
        ps = pe + datetime.timedelta(days=rng.choice([0, 1, 1, 2]))   # 0: shares one day; 1: adjacent; 2: gap
    return rows


def lay_overlap(rng):
    """erratic: nested / overlapping / duplicated-start periods"""
    base = D(rng.randrange(1995, 2030), rng.randrange(1, 13), 1)
    rows = []
    for _ in range(rng.randrange(2, 5)):
        ps = gen.add_months_int(base, rng.randrange(0, 6))
        pe = gen.add_months_int(ps, rng.randrange(0, 12), end=True)
        if rng.random() < 0.3:
            pe = pe - datetime.timedelta(days=rng.randrange(0, 20))
            if pe < ps:
                pe = ps
        evs = [gen.add_months_int(pe, k, end=True) for k in sorted(rng.sample(range(0, 8), rng.randrange(1, 4)))]
        rows.append((ps, pe, evs))
    return rows


def lay_calendar_months(rng):
    """consecutive calendar months (equal in months, unequal in days), lags at month ends"""
    start = D(rng.randrange(1995, 2030), rng.randrange(1, 13), 1)
    n_lags = rng.randrange(1, 4)
    rows = []
    for i in range(rng.randrange(2, 5)):
        ps = gen.add_months_int(start, i)
        pe = gen.add_months_int(ps, 0, end=True)
        rows.append((ps, pe, [gen.add_months_int(pe, k, end=True) for k in range(n_lags)]))
    return rows


def lay_equal_days(rng):
    """periods of an equal number of days (regular in days, usually not in months)"""
    n = rng.choice([7, 14, 30, 91])
    step = rng.choice([n, n, n + 1])
    ps = D(rng.randrange(1995, 2030), rng.randrange(1, 13), rng.randrange(1, 28))
    k = rng.choice([7, 30])
    n_lags = rng.randrange(1, 4)
    rows = []
    for _ in range(rng.randrange(2, 5)):
        pe = ps + datetime.timedelta(days=n - 1)
        rows.append((ps, pe, [pe + datetime.timedelta(days=k * j) for j in range(n_lags)]))
        ps = ps + datetime.timedelta(days=step)
    return rows


def lay_same_month_evals(rng):
    """several evaluation dates inside one month (month-id gap 0) next to month-spaced ones"""
    ps = D(rng.randrange(1995, 2030), rng.randrange(1, 13), 1)
    pe = gen.add_months_int(ps, rng.choice([0, 2]), end=True)
    evs = {pe}
    for _ in range(rng.randrange(1, 4)):
        evs.add(gen.add_months_int(pe, rng.choice([1, 1, 3, 6]), end=False).replace(day=rng.randrange(1, 28)))
    return [(ps, pe, sorted(evs))]


def lay_daily(rng):
    return gen.layout_daily(rng)


LAYOUTS = {
    "regular": lay_regular, "off-grid-lag": lay_off_grid_lag, "unequal-periods": lay_unequal_periods,
    "gaps": lay_gaps, "touching": lay_touching, "overlap": lay_overlap,
    "calendar-months": lay_calendar_months, "equal-days": lay_equal_days,
    "same-month-evals": lay_same_month_evals, "daily": lay_daily,
}


def rand_metas(rng, n):
    """n distinct metadata with arbitrary shared / unshared attributes and details"""
    r = rng.random()
    if r < 0.4:
        return gen.rand_metas(rng, n, single_attr=False)
    if r < 0.6:
        return gen.rand_metas(rng, n, single_attr=True)
    # shared base, details and loss_details overlapping partly in keys and values
    typed = {}
    base = gen.base_meta_kwargs(rng, typed)
    pool = {"coverage": ["BI", "PD"], "state": ["CA", "NY"], "k": [0, 1], "s": [0.5, 1.5]}
    out, seen = [], set()
    tries = 0
    while len(out) < n and tries < 60:
        tries += 1
        kw = dict(base)
        for attr in ("details", "loss_details"):
            kw[attr] = {k: rng.choice(v) for k, v in pool.items() if rng.random() < 0.6}
        for attr in ("country", "currency", "reinsurance_basis", "loss_definition"):
            if rng.random() < 0.25:
                kw[attr] = rng.choice(gen._STR_POOL[attr])
        if rng.random() < 0.25:
            kw["per_occurrence_limit"] = rng.choice(gen._LIMITS)
        if rng.random() < 0.15:
            kw["risk_basis"] = rng.choice(gen._STR_POOL["risk_basis"])
        m = Metadata(**kw)
        if m not in seen and all(m != o for o in out):
            seen.add(m)
            out.append(m)
    return out


def late_metas(rng, n):
    """n >= 3 slices whose first-sorting ones share NOTHING except an attribute value that equals the dataclass
    default (risk_basis "Accident"; everything else None / empty), while a slice sorting later differs in exactly
    that attribute -- or, second flavour, shares an attribute value with only SOME of the earlier slices. The fold
    of common_metadata has to look at every slice even after the running value became `Metadata()`."""
    flavour = rng.choice(["default-risk-basis", "default-risk-basis", "late-only-differs", "late-none"])
    cs = rng.sample(["US", "DE", "ES", "FR", "IT"], n - 1)
    if flavour == "default-risk-basis":
        early = [Metadata(country=c, **({"details": {"lob": rng.choice(["auto", "home"])}} if rng.random() < 0.3 else {}))
                 for c in cs]
        # make sure the early slices share no detail
        if len({tuple(m.details.items()) for m in early}) == 1 and early[0].details:
            early[0] = Metadata(country=cs[0])
        late = Metadata(risk_basis=rng.choice(["Policy", "Report"]), country=rng.choice(cs + ["GB", None]))
        return early + [late]
    if flavour == "late-only-differs":
        # all early slices share currency and risk basis, the last one (sorting last: risk_basis Report) does not
        early = [Metadata(country=c, currency="USD") for c in cs]
        return early + [Metadata(risk_basis="Report", country=cs[0], currency=rng.choice(["EUR", None, "USD"]))]
    # risk_basis None sorts FIRST: the odd slice leads
    return [Metadata(risk_basis=None, country=cs[0])] + [Metadata(country=c) for c in cs]


def decorate_none(rng, metas):
    """give some (not all) slices a details / loss_details entry whose value is None (an allowed
    MetadataValue): `{key: None}` in one slice and the key ABSENT from another must not count as
    shared. Key names sorting before and after the usual keys put the None-carrying slices before
    or after the lacking ones in `metadata` order (the fold of common_metadata is order-sensitive)."""
    import dataclasses
    for attr in ("details", "loss_details"):
        if rng.random() < 0.25:
            key = rng.choice(["aa_flag", "zz_flag", "cohort"])
            p = rng.choice([0.5, 0.7, 1.0])
            metas = [dataclasses.replace(m, **{attr: {**getattr(m, attr), key: None}}) if rng.random() < p else m
                     for m in metas]
    return metas


def make_cells(rng):
    layout = rng.choice(sorted(LAYOUTS))
    n_slices = rng.choice([1, 1, 2, 2, 3, 4])
    kind = rng.choice(["C", "U", "I"])
    same_layout = rng.random() < 0.6
    if rng.random() < 0.08:
        n_slices = rng.choice([3, 4, 5])
        metas = late_metas(rng, n_slices)
    else:
        metas = decorate_none(rng, rand_metas(rng, n_slices))
    fields_pool = rng.sample(gen.FIELDS, rng.randrange(1, 5))
    sample_mode = rng.choice(["scalar", "scalar", "samples", "samples", "mixed", "inconsistent", "size1"])
    rows = LAYOUTS[layout](rng)
    cells = []
    for m in metas:
        r = rows if same_layout else LAYOUTS[layout](rng)
        fs = fields_pool if rng.random() < 0.5 else (rng.sample(fields_pool, rng.randrange(1, len(fields_pool) + 1)))
        n_s = rng.choice([2, 4])
        for ps, pe, evals in r:
            prev = ps - DAY
            for ev in evals:
                use = fs if rng.random() < 0.6 else ([f for f in fs if rng.random() < 0.6] or fs[:1])
                vals = {}
                for f in use:
                    if sample_mode == "scalar":
                        vals[f] = gen.rand_value(rng, rng.choice(["int", "float"]))
                    elif sample_mode == "samples":
                        vals[f] = gen.rand_value(rng, rng.choice(["iarr", "farr"]), n_samples=n_s if len(metas) == 1 else 4)
                    elif sample_mode == "mixed":
                        vals[f] = gen.rand_value(rng, rng.choice(["int", "farr", "none"]), n_samples=3)
                    elif sample_mode == "size1":
                        vals[f] = rng.choice([np.array([1.5]), np.array(7), gen.rand_value(rng, "iarr", n_samples=5), 3])
                    else:
                        vals[f] = gen.rand_value(rng, "farr", n_samples=rng.choice([3, 3, 3, 4]))
                if kind == "I":
                    cells.append(IncrementalCell(ps, pe, prev, ev, vals, m))
                    prev = ev
                elif kind == "U":
                    cells.append(CumulativeCell(ps, pe, ev, vals, m))
                else:
                    cells.append(Cell(ps, pe, ev, vals, m))
    if len(cells) > 40:
        cells = rng.sample(cells, 40)
    rng.shuffle(cells)
    return cells, {"layout": layout, "slices": len(metas), "kind": kind, "samples": sample_mode}


# ---- implementation dump ----------------------------------------------------------------------

def wrap(res, conv=lambda x: x):
    st, v = res
    return {"ok": conv(v)} if st == "ok" else {"err": v}


def call_cls(fn):
    """like common.call but keeps the exact exception class name"""
    try:
        return ("ok", fn())
    except Exception as e:  # noqa: BLE001
        return ("err", type(e).__name__)


def snap(f, exact):
    """an implementation month lag (IEEE double) as the exact rational it approximates within relative
    2^-40 (division by days-in-month is unavoidable); otherwise the float's own exact value"""
    for q in exact:
        if abs(float(q) - f) <= TOL * max(1.0, abs(f)):
            return q
    return Fraction(f)


def lag_to_rat(x, exact_months, kind):
    if kind == "month":
        return snap(float(x), exact_months)
    if kind == "timedelta":
        if x.seconds or x.microseconds:
            return Fraction(x.total_seconds()) / 86400
        return Fraction(x.days)
    return Fraction(int(x))


def unit_kind(u):
    u = u.lower()
    if "month" in u:
        return "month"
    if "day" in u:
        return "day"
    if u == "timedelta":
        return "timedelta"
    return None


def float_ok_semi(t):
    """month-unit period lengths: the float equalities the implementation evaluates agree with exact ones"""
    ps = sorted({c.period for c in t.cells})
    if not ps or ps[0][0] == D.min:
        return True
    fl = [dev_lag_months(s - DAY, e) for s, e in ps]
    ex = [exact_lag_months(s - DAY, e) for s, e in ps]
    return all((f == fl[0]) == (q == ex[0]) for f, q in zip(fl, ex))


def float_ok_lags(t):
    """month-unit lags: float set has as many members as the exact one and equal-spacing tests agree"""
    fl = sorted({c.dev_lag("month") for c in t.cells})
    ex = sorted({exact_lag_months(c.period_end, c.evaluation_date) for c in t.cells})
    if len(fl) != len(ex):
        return False
    if len(fl) < 3:
        return True
    of, oq = fl[1] - fl[0], ex[1] - ex[0]
    return all(((b - a) != of) == ((bq - aq) != oq)
               for a, b, aq, bq in zip(fl[1:-1], fl[2:], ex[1:-1], ex[2:]))


def unit_calls(t, u, defaults):
    """the three unit-taking accessors for unit `u`. With `defaults` the month answers are taken from the calls WITHOUT
    argument (dev_lags(), is_semi_regular(), is_regular()) and every other unit is passed by keyword."""
    if not defaults:
        return (lambda: t.dev_lags(u)), (lambda: t.is_semi_regular(u)), (lambda: t.is_regular(u))
    if u == "month":
        return (lambda: t.dev_lags()), (lambda: t.is_semi_regular()), (lambda: t.is_regular())
    return (lambda: t.dev_lags(unit=u)), (lambda: t.is_semi_regular(dev_lag_unit=u)), (lambda: t.is_regular(dev_lag_unit=u))


def impl_dump(t, units, defaults=False):
    exact_months = sorted({exact_lag_months(c.period_end, c.evaluation_date) for c in t.cells})
    d = {}
    d["periods"] = wrap(call(lambda: t.periods), lambda ps: [[w_date(a), w_date(b)] for a, b in ps])
    d["evaluation_dates"] = wrap(call(lambda: t.evaluation_dates), lambda ds: [w_date(x) for x in ds])
    d["evaluation_date"] = wrap(call_cls(lambda: t.evaluation_date), w_date)
    d["dev_lags"] = {u: wrap(call(unit_calls(t, u, defaults)[0]),
                             lambda ls, u=u: [w_rat(lag_to_rat(x, exact_months, unit_kind(u))) for x in ls])
                     for u in units}
    d["fields"] = wrap(call(lambda: t.fields), list)
    d["metadata"] = wrap(call(lambda: t.metadata), lambda ms: [w_meta(m) for m in ms])
    d["field_cell_counts"] = wrap(call(lambda: t.field_cell_counts), lambda x: [[k, int(v)] for k, v in x.items()])
    d["field_slice_counts"] = wrap(call(lambda: t.field_slice_counts), lambda x: [[k, int(v)] for k, v in x.items()])
    d["num_samples"] = wrap(call(lambda: t.num_samples), int)
    d["experience_gaps"] = wrap(call(lambda: t.experience_gaps), lambda ps: [[w_date(a), w_date(b)] for a, b in ps])
    d["common_metadata"] = wrap(call(lambda: t.common_metadata), w_meta)
    d["metadata_differences"] = wrap(call(lambda: t.metadata_differences), lambda ms: [w_meta(m) for m in ms])
    d["is_disjoint"] = wrap(call(lambda: t.is_disjoint), bool)
    d["is_slicewise_disjoint"] = wrap(call(lambda: t.is_slicewise_disjoint), bool)
    d["slice_period_rows"] = wrap(call(lambda: list(t.slice_period_rows)), lambda rows: [
        [w_meta(k[0]), [w_date(k[1][0]), w_date(k[1][1])], w_cells(row)] for k, row in rows])
    d["is_semi_regular"] = {u: wrap(call(unit_calls(t, u, defaults)[1]), bool) for u in units}
    d["is_regular"] = {u: wrap(call(unit_calls(t, u, defaults)[2]), bool) for u in units}
    d["period_resolution"] = wrap(call(lambda: t.period_resolution), lambda x: None if x is None else int(x))
    d["eval_date_resolution"] = wrap(call(lambda: t.eval_date_resolution), lambda x: None if x is None else int(x))
    return d


# accessors that never raise on a valid triangle are sent to the driver unwrapped
PLAIN = ["periods", "evaluation_dates", "fields", "metadata", "field_cell_counts", "field_slice_counts",
         "experience_gaps", "is_disjoint", "is_slicewise_disjoint", "slice_period_rows"]
WRAPPED = ["evaluation_date", "num_samples", "common_metadata", "metadata_differences", "period_resolution",
           "eval_date_resolution"]


def to_driver(d):
    out = {}
    for k in PLAIN:
        out[k] = d[k].get("ok") if "ok" in d[k] else None
    for k in WRAPPED + ["dev_lags", "is_semi_regular", "is_regular"]:
        out[k] = d[k]
    return out


# ---- generator lessons of seeded batch 4 (round 6): a fixed quota of each input kind in EVERY run ------------------
# Every generator below calls `put(stream, tags, cells, ...)`, which builds the Triangle and hands it to the SAME
# per-case function as the random cases (`emit`: model comparison, Spec predicates on the implementation's output,
# independent taxonomy, nesting, second read). Histogram keys `lesson/<stream>/<tag>`.

am = gen.add_months_int
ALL_UNITS = ["month", "day", "timedelta", "months", "Month", "MONTHS", "days", "Day", "DAYS", "Timedelta",
             "TIMEDELTA", "monthly", "weeks", "fortnight", "timedeltas", ""]
BASE_UNITS = ["month", "day", "timedelta"]


def rows_cells(kind, rows, m, valfn):
    """cells of one slice from rows (ps, pe, [ascending evals]); `valfn(ps, pe, ev)` gives the values dict"""
    out = []
    for ps, pe, evs in rows:
        prev = ps - DAY
        for ev in evs:
            vals = valfn(ps, pe, ev)
            if kind == "I":
                out.append(IncrementalCell(ps, pe, prev, ev, vals, m))
                prev = ev
            elif kind == "U":
                out.append(CumulativeCell(ps, pe, ev, vals, m))
            else:
                out.append(Cell(ps, pe, ev, vals, m))
    return out


def scalars(rng, fields=("paid_loss", "reported_loss")):
    return lambda ps, pe, ev: {f: gen.rand_value(rng, "int") for f in fields}


def month_rows(start, res, n_periods, lags, lag_step=1):
    """month-aligned periods of `res` months; evaluation dates `lag * lag_step` months after the period end (month
    ends). `lags`: one list for all periods or one list per period"""
    rows = []
    for i in range(n_periods):
        ps = am(start, i * res)
        pe = am(ps, res - 1, end=True)
        ls = lags[i] if lags and isinstance(lags[0], (list, tuple)) else lags
        rows.append((ps, pe, [am(pe, k * lag_step, end=True) for k in sorted(set(ls))]))
    return rows


def rkind(rng):
    return rng.choice(["C", "U", "I"])


# -- lesson 1: sizes ---------------------------------------------------------------------------------------------

def les_large(rng, put):
    y = rng.randrange(1990, 2020)
    # >= 300 cells in one slice (25 monthly periods x 12 lags); second flavour: ONE late cell two months off the grid
    for late in (False, True):
        rows = month_rows(D(y, 1, 1), 1, 25, list(range(12)))
        if late:
            ps, pe, evs = rows[-1]
            rows[-1] = (ps, pe, evs[:-1] + [am(evs[-1], 2, end=True)])
        put("large", ["cells>=300", "late-off-grid-lag" if late else "regular"],
            rows_cells(rkind(rng), rows, Metadata(country="US"), scalars(rng)))
    # >= 300 cells of samples; the LAST cell alone has another sample count / the only second field
    for tag in ("last-cell-other-sample-count", "last-cell-only-field"):
        cells = rows_cells(rkind(rng), month_rows(D(y, 1, 1), 1, 25, list(range(12))), Metadata(country="US"),
                           lambda ps, pe, ev: {"paid_loss": gen.rand_value(rng, "iarr", n_samples=2)})
        cells[-1] = cells[-1].derive_fields(**({"paid_loss": gen.rand_value(rng, "iarr", n_samples=3)}
                                               if tag == "last-cell-other-sample-count" else {"zz_late": 0}))
        put("large", ["cells>=300", tag], cells)
    # >= 256 slices of one cell; the odd slice (other currency / lacking the shared detail / the only one with a
    # second field) sorts last or second to last (country is the position key)
    # (sizes: exactly 256 for the plain flavour; an ODD count / not a multiple of 256 where the last slice deviates, so
    # that pairwise folds and block-wise loops have a tail)
    for flavour in ("all-share", "last-differs", "second-to-last-differs"):
        n = {"all-share": 256, "last-differs": 257, "second-to-last-differs": rng.choice([258, 259, 300])}[flavour]
        odd = {"all-share": None, "last-differs": n - 1, "second-to-last-differs": n - 2}[flavour]
        kind = rkind(rng)
        cells = []
        for i in range(n):
            m = Metadata(country=f"C{i:03d}", currency="USD" if i != odd else rng.choice([None, "EUR"]),
                         per_occurrence_limit=0, details={"lob": "auto"} if i != odd else {},
                         loss_details={"peril": "wind"})
            vals = {"paid_loss": i} if i != odd else {"paid_loss": i, "earned_premium": 7}
            cells += rows_cells(kind, [(D(y, 1, 1), D(y, 12, 31), [D(y, 12, 31)])], m, lambda *a, v=vals: dict(v))
        put("large", [f"slices>={256}", flavour], cells)
    # >= 256 periods in one slice: equal disjoint months; LAST period overlapping its neighbour by one day; LAST
    # period one month longer; one-day periods with one two-day period late
    for flavour in ("disjoint", "last-overlaps-one-day", "last-longer"):
        n = {"disjoint": 256, "last-overlaps-one-day": 257, "last-longer": rng.choice([257, 259, 300])}[flavour]
        rows = month_rows(D(y, 1, 1), 1, n, [0])
        ps, pe, evs = rows[-1]
        if flavour == "last-overlaps-one-day":
            rows[-1] = (ps - DAY, pe, evs)
        elif flavour == "last-longer":
            pe2 = am(pe, 1, end=True)
            rows[-1] = (ps, pe2, [pe2])
        put("large", ["periods>=256", flavour], rows_cells(rkind(rng), rows, Metadata(), scalars(rng, ("paid_loss",))))
    d0 = D(y, rng.randrange(1, 13), rng.randrange(1, 28))
    rows, cur = [], d0
    late_at = n - 2
    for i in range(n):
        pe = cur + (DAY if i == late_at else 0 * DAY)
        rows.append((cur, pe, [pe + 30 * DAY]))
        cur = pe + DAY
    put("large", ["periods>=256", "one-day-periods", "late-two-day-period"],
        rows_cells(rkind(rng), rows, Metadata(), scalars(rng, ("paid_loss",))))
    # >= 256 distinct development lags on one period: regular; and steps of two months with the second-to-last lag one
    # month late (gaps ..., 2, 3, 1: the deviations cancel, first gap = typical gap, total span = (n - 1) * first gap)
    for late in (False, True):
        n = 257 if late else 256
        lags = list(range(n))
        if late:
            lags = [2 * k for k in range(n)]
            lags[-2] += 1
        put("large", ["lags>=256", "late-cancelling-off-grid-lag" if late else "regular"],
            rows_cells(rkind(rng), month_rows(D(y, 1, 1), 1, 1, lags), Metadata(), scalars(rng, ("paid_loss",))),
            units=BASE_UNITS)
    # >= 256 distinct fields; the last fields live in one cell only
    n = rng.choice([257, 260])
    names = [f"f{i:03d}" for i in range(n)]
    kind = rkind(rng)
    rows = [(D(y, 1, 1), D(y, 3, 31), [D(y, 3, 31), D(y, 6, 30)])]
    c1 = rows_cells(kind, rows, Metadata(country="US"),
                    lambda ps, pe, ev: {f: 1 for f in (names if ev.month == 3 else names[:250] + ["zz_late"])})
    c2 = rows_cells(kind, rows, Metadata(country="ZZ"), lambda ps, pe, ev: {f: 0 for f in names[:3] + ["zz_only_last_slice"]})
    put("large", ["fields>=256"], c1 + c2)
    # sample counts 40 / 256 / 1000 (and one of 80, 255, 257) mixed with scalars, size-1 and 0-d arrays;
    # an inconsistent size only in the LAST field of the LAST cell
    for S in (40, 256, 1000, rng.choice([80, 255, 257])):
        for late_bad in (False, True):
            if late_bad and S == 1000:
                continue
            kind = rkind(rng)
            rows = month_rows(D(y, 1, 1), 3, 2, [0, 1], lag_step=3)
            mix = rng.choice([["farr", "int", "iarr"], ["int", "farr"], ["iarr", "one", "zerod", "float"]])

            def vf(ps, pe, ev, S=S, mix=mix):
                out = {}
                for f, k in zip(gen.FIELDS, mix):
                    out[f] = (np.array([1.5]) if k == "one" else np.array(7) if k == "zerod"
                              else gen.rand_value(rng, k, n_samples=S))
                return out
            cells = rows_cells(kind, rows, Metadata(country="US"), vf) + rows_cells(kind, rows, Metadata(country="ZZ"), vf)
            if late_bad:
                cells[-1] = cells[-1].derive_fields(zz_last_field=gen.rand_value(rng, "farr", n_samples=S + 1))
            put("large", [f"samples={S}" if S in (40, 256, 1000) else "samples=other",
                          "late-inconsistent-size" if late_bad else "consistent"], cells)


# -- lesson 2: non-disjoint layouts -------------------------------------------------------------------------------

def les_overlap(rng, put):
    y = rng.randrange(1995, 2030)
    J = D(y, 1, 1)

    def evs(pe, ks=(0, 3, 12)):
        return [am(pe, k, end=True) for k in ks]
    stub, q1, h1, ytd = (J, am(J, 0, end=True)), (J, am(J, 2, end=True)), (J, am(J, 5, end=True)), (J, D(y, 12, 31))
    q2, q3, q4, h2, dec = ((D(y, 4, 1), D(y, 6, 30)), (D(y, 7, 1), D(y, 9, 30)), (D(y, 10, 1), D(y, 12, 31)),
                           (D(y, 7, 1), D(y, 12, 31)), (D(y, 12, 1), D(y, 12, 31)))
    yend = [D(y, 12, 31), D(y + 1, 3, 31)]
    m1, m2, m3 = Metadata(country="AA"), Metadata(country="BB"), Metadata(country="CC")

    def sl(kind, periods, m, common_evals=None):
        return rows_cells(kind, [(a, b, common_evals or evs(b)) for a, b in periods], m, scalars(rng))
    k = rkind(rng)
    # one slice: stub / quarter / half year / year to date from one 1 January, all observed at the SAME evaluation dates
    put("overlap", ["same-start", "one-slice", "same-evals"], sl(k, [stub, q1, h1, ytd], m1, yend))
    put("overlap", ["same-start", "one-slice"], sl(rkind(rng), rng.sample([stub, q1, h1, ytd], 3), m1))
    # same period_end, different starts
    put("overlap", ["same-end", "one-slice", "same-evals"], sl(rkind(rng), [dec, q4, h2, ytd], m1, yend))
    k = rkind(rng)
    put("overlap", ["same-end", "two-slices"], sl(k, [q4, h2], m1) + sl(k, [dec, ytd, q1], m2))
    # overlap only BETWEEN slices: every slice disjoint, the triangle is not
    k = rkind(rng)
    put("overlap", ["between-slices-only", "same-start-across-slices"], sl(k, [q1, q3], m1) + sl(k, [h1, q4], m2))
    k = rkind(rng)
    put("overlap", ["between-slices-only", "nested-across-slices"], sl(k, [q1, q2, q3, q4], m1) + sl(k, [ytd], m2)
        + sl(k, [q1, q2], m3))
    # overlap only in the LAST slice
    k = rkind(rng)
    put("overlap", ["last-slice-only", "same-start"],
        sl(k, [q1, q2, q3], m1) + sl(k, [q1, q2, q3], m2) + sl(k, [q1, q2, q3, h2], m3))
    k = rkind(rng)
    put("overlap", ["last-slice-only", "same-end"],
        sl(k, [q1, q2, q3, q4], m1) + sl(k, [q1, q2, q3, q4], m2) + sl(k, [q1, q2, q3, q4, dec], m3))
    # only the LAST pair of periods: same start / nested / one shared day; control: adjacent
    k = rkind(rng)
    qs = [(am(J, 3 * i), am(J, 3 * i + 2, end=True)) for i in range(6)]
    put("overlap", ["last-pair-only", "same-start"], sl(k, qs + [(qs[-1][0], am(qs[-1][1], 3, end=True))], m1))
    put("overlap", ["last-pair-only", "nested"], sl(rkind(rng), qs + [(am(qs[-1][0], 1), am(qs[-1][0], 1, end=True))], m1))
    for tag, shift in (("one-shared-day", 0), ("adjacent", 1), ("one-day-gap", 2)):
        ps = D(y, rng.randrange(1, 13), rng.randrange(1, 28))
        rows = []
        for i in range(5):
            pe = ps + 13 * DAY
            rows.append((ps, pe, [pe, pe + 14 * DAY]))
            ps = pe + (DAY if i < 3 else shift * DAY)
        put("overlap", ["last-pair-only", tag], rows_cells(rkind(rng), rows, m1, scalars(rng)))
    # one shared day at the FIRST pair only (control for "last pair" shortcuts the other way round)
    rows, ps = [], D(y, 3, 10)
    for i in range(4):
        pe = ps + 9 * DAY
        rows.append((ps, pe, [pe + 5 * DAY]))
        ps = pe + (0 * DAY if i == 0 else DAY)
    put("overlap", ["first-pair-only", "one-shared-day"], rows_cells(rkind(rng), rows, m2, scalars(rng)))


# -- lesson 3: off the month grid ------------------------------------------------------------------------------------

def les_midmonth(rng, put):
    y = rng.randrange(1995, 2030)
    m0 = rng.randrange(1, 10)
    S = D(y, m0, 1)
    m1, m2 = Metadata(country="AA"), Metadata(country="BB")
    # month periods evaluated on the 15th AND at the end of the same months
    rows = []
    for i in range(3):
        ps = am(S, i)
        pe = am(ps, 0, end=True)
        rows.append((ps, pe, sorted({pe, am(ps, 1).replace(day=15), am(pe, 1, end=True), am(ps, 2).replace(day=15)})))
    put("midmonth", ["eval-15th-and-month-end"], rows_cells(rkind(rng), rows, m1, scalars(rng)), units=ALL_UNITS)
    # periods 16th -> 15th
    rows = []
    for i in range(4):
        ps = am(S, i).replace(day=16)
        pe = am(S, i + 1).replace(day=15)
        rows.append((ps, pe, [pe, am(S, i + 2).replace(day=15), am(S, i + 2, end=True)][: rng.randrange(1, 4)]))
    put("midmonth", ["periods-16th-to-15th"], rows_cells(rkind(rng), rows, m1, scalars(rng)), units=ALL_UNITS)
    # half months 1-15 / 16-EOM
    rows = []
    for i in range(3):
        a = am(S, i)
        rows.append((a, a.replace(day=15), [a.replace(day=15), am(a, 0, end=True)]))
        rows.append((a.replace(day=16), am(a, 0, end=True), [am(a, 0, end=True), am(a, 1).replace(day=15)]))
    put("midmonth", ["half-months"], rows_cells(rkind(rng), rows, m1, scalars(rng)))
    # period ends inside a month: the month FOLLOWING the end month is the boundary (2 and 4 months here)
    rows = [(S, am(S, 1).replace(day=15), [am(S, 1).replace(day=15), am(S, 2).replace(day=20)]),
            (am(S, 2), am(S, 5).replace(day=20), [am(S, 5).replace(day=20)])]
    put("midmonth", ["period-ends-mid-month", "resolution"], rows_cells(rkind(rng), rows, m1, scalars(rng)))
    # period starts inside a month, ends at month ends
    rows = [(am(S, 0).replace(day=10), am(S, 2, end=True), [am(S, 2, end=True)]),
            (am(S, 3).replace(day=20), am(S, 8, end=True), [am(S, 8, end=True), am(S, 9).replace(day=3)])]
    put("midmonth", ["period-starts-mid-month", "resolution"], rows_cells(rkind(rng), rows, m1, scalars(rng)))
    # gcd of mixed period gaps: 3 and 12 -> 3; 6 and 9 -> 3; quarters with a 1-month stub LATE -> 1; 6, 6, 6, 4 -> 2
    for tag, lens in (("gaps-3-12", [3, 12]), ("gaps-6-9", [6, 9]), ("gaps-12-3", [12, 3]),
                      ("late-1-month-stub", [3, 3, 3, 3, 1]), ("late-4-after-6s", [6, 6, 6, 4]),
                      ("first-1-month-stub", [1, 3, 3, 3])):
        rows, cur = [], D(y, 1, 1)
        for n in lens:
            pe = am(cur, n - 1, end=True)
            rows.append((cur, pe, [pe, am(pe, 3, end=True)]))
            cur = pe + DAY
        slices = rows_cells(rkind(rng), rows, m1, scalars(rng))
        put("midmonth", ["period-gcd", tag], slices)
    # the late stub lives in the LAST slice only
    k = rkind(rng)
    q = month_rows(D(y, 1, 1), 3, 4, [0, 3])
    put("midmonth", ["period-gcd", "stub-in-last-slice-only"],
        rows_cells(k, q, m1, scalars(rng)) + rows_cells(k, q + [(D(y + 1, 1, 1), D(y + 1, 1, 31), [D(y + 1, 1, 31)])], m2,
                                                       scalars(rng)))
    # gcd of evaluation-month gaps, evaluation dates anywhere inside their months
    for tag, offs in (("gaps-3-12", [0, 3, 15]), ("gaps-6-9", [0, 6, 15]), ("late-1-month", [0, 3, 6, 9, 10]),
                      ("late-same-month", [0, 3, 6, 6]), ("gaps-4-6", [0, 4, 10])):
        pe = am(S, 2, end=True)
        days = [rng.choice([1, 15, 28]) for _ in offs]
        if tag == "late-same-month":
            days[-2:] = [10, 20]
        es = sorted({max(pe, am(pe, o).replace(day=dd)) for o, dd in zip(offs, days)})
        put("midmonth", ["eval-gcd", tag], rows_cells(rkind(rng), [(S, pe, es)], m1, scalars(rng)))
    # 29 days that cross two month boundaries vs 31 days inside one month
    rows = [(D(y, 1, 1), D(y, 1, 31), [D(y, 1, 31), D(y, 3, 1)]), (D(y, 2, 1), D(y, 2, 28), [D(y, 3, 1), D(y, 3, 31)])]
    put("midmonth", ["eval-gcd", "month-id-vs-days"], rows_cells(rkind(rng), rows, m1, scalars(rng)))


# -- is_regular / is_semi_regular boundaries (lessons 3 / 4 applied to the lag and length sets) -----------------------

def les_regularity(rng, put):
    y = rng.randrange(1995, 2030)
    m1, m2 = Metadata(country="AA"), Metadata(country="BB")
    lagsets = [("cancelling-0-3-7-9", [0, 3, 7, 9]), ("cancelling-0-3-6-8-12", [0, 3, 6, 8, 12]),
               ("first-gap=last-gap", [0, 2, 5, 7]), ("late-off-grid", [0, 3, 6, 9, 13]),
               ("regular", [0, 3, 6, 9, 12]), ("first-gap-differs", [0, 4, 6, 8, 10]),
               ("second-to-last-gap-differs", [0, 2, 4, 6, 9, 11]), ("two-lags", [0, 5]), ("one-lag", [4]),
               ("span=n*first-gap", [0, 2, 3, 6])]
    for tag, lags in lagsets:
        how = rng.choice(["square", "spread", "one-period"])
        res = rng.choice([1, 3])
        if how == "square":
            rows = month_rows(D(y, 1, 1), res, 3, lags)
        elif how == "one-period":
            rows = month_rows(D(y, 1, 1), res, 1, lags)
        else:
            # the lags are spread over the periods; the LAST lag is seen in the last period only
            per = [sorted(set(lags[:-1][i::2]) | {lags[0]}) for i in range(2)] + [[lags[0], lags[-1]]]
            rows = month_rows(D(y, 1, 1), res, 3, per)
        k = rkind(rng)
        cells = rows_cells(k, rows, m1, scalars(rng))
        if rng.random() < 0.5:
            cells += rows_cells(k, month_rows(D(y, 1, 1), res, 2, lags[:2]), m2, scalars(rng))
        put("regularity", ["lags", tag, how], cells, units=BASE_UNITS + ["Months", "DAYS"])
    # the same in days: 7-day periods, lags in days
    for tag, lags in (("days-cancelling", [0, 7, 15, 21]), ("days-late-off-grid", [0, 7, 14, 21, 29]),
                      ("days-regular", [0, 7, 14, 21])):
        ps = D(y, rng.randrange(1, 13), rng.randrange(1, 28))
        rows = []
        for i in range(3):
            pe = ps + 6 * DAY
            rows.append((ps, pe, [pe + k * DAY for k in lags]))
            ps = pe + DAY
        put("regularity", ["lags", tag], rows_cells(rkind(rng), rows, m1, scalars(rng)))
    # period lengths: equal in months but 28/29/30/31 days; equal in days but not in months; ONE period a day longer
    for yy, tag in ((2021, "calendar-months-28"), (2024, "calendar-months-29")):
        rows = [(D(yy, i, 1), gen.month_end(yy, i), [gen.month_end(yy, i), gen.month_end(yy, i + 1)]) for i in (1, 2, 3, 4)]
        put("regularity", ["lengths", tag], rows_cells(rkind(rng), rows, m1, scalars(rng)))
    put("regularity", ["lengths", "february-28-and-29"],
        rows_cells(rkind(rng), [(D(2023, 2, 1), D(2023, 2, 28), [D(2023, 2, 28)]), (D(2024, 2, 1), D(2024, 2, 29), [D(2024, 2, 29)])],
                   m1, scalars(rng)))
    for tag, lens in (("30-day-periods", [30, 30, 30, 30]), ("last-one-day-longer", [30, 30, 30, 31]),
                      ("middle-one-day-longer", [30, 31, 30, 30]), ("first-one-day-longer", [31, 30, 30])):
        ps, rows = D(y, 3, 1), []
        for n in lens:
            pe = ps + (n - 1) * DAY
            rows.append((ps, pe, [pe, pe + 30 * DAY]))
            ps = pe + DAY
        put("regularity", ["lengths", tag], rows_cells(rkind(rng), rows, m1, scalars(rng)))
    # whole months, the last period running one day into the next month
    rows = [(D(y, 2, 1), gen.month_end(y, 2), [gen.month_end(y, 2)]), (D(y, 3, 1), D(y, 3, 31), [D(y, 3, 31)]),
            (D(y, 4, 1), D(y, 5, 1), [D(y, 5, 1)])]
    put("regularity", ["lengths", "months-last-one-day-longer"], rows_cells(rkind(rng), rows, m1, scalars(rng)))
    # quarters, the unequal period lives in the last slice only
    k = rkind(rng)
    q = month_rows(D(y, 1, 1), 3, 3, [0])
    put("regularity", ["lengths", "unequal-period-in-last-slice-only"],
        rows_cells(k, q, m1, scalars(rng)) + rows_cells(k, q + [(D(y, 10, 1), D(y, 11, 30), [D(y, 11, 30)])], m2, scalars(rng)))


# -- lesson 4: the distinguishing attribute sits in a LATE slice ----------------------------------------------------

LATE_PAIRS = {   # attribute -> (value shared by the others, value of the odd slice)
    "risk_basis": [("Accident", "Policy"), ("Accident", "Report"), ("Policy", "Report"), ("", "Accident")],
    "country": [(None, "US"), ("", "US"), ("US", "ZZ"), ("US", None), ("US", "")],
    "currency": [(None, "USD"), ("", "EUR"), ("USD", "EUR"), ("USD", None), ("USD", "")],
    "reinsurance_basis": [(None, "Net"), ("", "Net"), ("Gross", "Net"), ("Gross", None), ("Gross", "")],
    "loss_definition": [(None, "Loss"), ("", "Loss"), ("Loss", "Loss+DCC"), ("Loss", None)],
    "per_occurrence_limit": [(None, 0), (None, 1e6), (0, None), (0, 2.5), (0.0, 1e6), (1e6, None), (1e6, 0), (5e5, 1e6),
                             (0, 0.0), (1000000, 1e6)],      # equal numbers of different Python types: still shared
}
DETAIL_PAIRS = [   # tag, dict shared by the others, dict of the odd slice
    ("key-missing-in-odd", {"lob": "auto", "k": 0}, {"k": 0}),
    ("other-value-in-odd", {"lob": "auto", "k": 0}, {"lob": "home", "k": 0}),
    ("None-vs-missing", {"flag": None}, {}),
    ("missing-vs-None", {}, {"flag": None}),
    ("0-vs-False", {"k": 0, "lob": "auto"}, {"k": False, "lob": "auto"}),
    ("0-vs-missing", {"k": 0}, {}),
    ("0-vs-None", {"k": 0}, {"k": None}),
    ("empty-string-vs-None", {"k": ""}, {"k": None}),
    ("False-vs-missing", {"k": False}, {}),
    ("None-vs-0", {"k": None, "lob": "auto"}, {"k": 0, "lob": "auto"}),
    ("0-vs-0.0", {"k": 0, "lob": "auto"}, {"k": 0.0, "lob": "auto"}),
    ("1-vs-True", {"k": 1}, {"k": True}),
]
POS_COUNTRY = ["AA", "BB", "CC", "DD", "EE"]
POS_RISK = [None, "Accident", "Policy", "Report"]
RICH = dict(risk_basis="Accident", country="US", currency="USD", reinsurance_basis="Gross", loss_definition="Loss",
            per_occurrence_limit=1e6, details={"lob": "auto", "k": 0}, loss_details={"peril": "wind"})


def positioned_metas(rng, attr, shared, odd, n, odd_at, others):
    """n metadata in ascending `__lt__` order. Slice `odd_at` carries `odd` in `attr`, every other slice `shared`.
    `others`: 'same' (all other attributes equal and non-default), 'default' (all other attributes at the dataclass
    default) or 'distinct' (every other attribute differs from slice to slice)."""
    pos_attr = "risk_basis" if attr == "country" else "country"
    pos = POS_RISK if pos_attr == "risk_basis" else POS_COUNTRY
    out = []
    for i in range(n):
        kw = dict(RICH) if others == "same" else {}
        if others == "distinct":
            kw = dict(currency=f"C{i}", reinsurance_basis=f"R{i}", loss_definition=f"L{i}", per_occurrence_limit=100 + i,
                      details={"id": i}, loss_details={"lid": i})
            if pos_attr == "risk_basis":
                kw["country"] = None
        val = odd if i == odd_at else shared
        if attr in ("details", "loss_details") and others == "distinct":
            val = {**val, ("id" if attr == "details" else "lid"): i}
        kw[attr] = val
        if attr != "risk_basis":
            kw[pos_attr] = pos[i]
        else:
            kw["country"] = POS_COUNTRY[i]
        out.append(Metadata(**kw))
    return out


def meta_cells(rng, metas, kind=None, fields=("paid_loss", "reported_loss")):
    """one or two cells per slice on a common two-period layout, in the order of `metas` (no shuffle)"""
    kind = kind or rkind(rng)
    y = rng.randrange(1995, 2030)
    rows = month_rows(D(y, 1, 1), 3, 2, [[0, 1], [0]], lag_step=3)
    cells = []
    for m in metas:
        cells += rows_cells(kind, rows if rng.random() < 0.5 else rows[:1], m, scalars(rng, fields))
    return cells


def les_late(rng, put):
    for attr in gen.ATTRS:
        pats = ["last", "second-to-last", "middle", "first"]
        if attr == "risk_basis":
            pats = ["last", "last"]          # the primary sort key: an odd value cannot sit between equal ones
        for pat in pats:
            n = rng.choice([4, 5]) if pat == "middle" else rng.choice([3, 4, 5])
            if attr == "country":
                n = min(n, 4)
            odd_at = {"last": n - 1, "second-to-last": n - 2, "middle": 1, "first": 0}[pat]
            if attr in ("details", "loss_details"):
                tag, shared, odd = rng.choice(DETAIL_PAIRS[:2])
            else:
                shared, odd = rng.choice(LATE_PAIRS[attr])
                tag = f"{shared!r}-vs-{odd!r}"
            if attr == "risk_basis" and not ((shared is not None, shared or "") < (odd is not None, odd or "")):
                shared, odd = odd, shared
            others = rng.choice(["same", "default", "distinct"])
            if attr == "risk_basis" and pat == pats[0]:
                pats[0] = "last "            # the first of the two: nothing else is shared, the running fold is `Metadata()`
                shared, odd, others = "Accident", rng.choice(["Policy", "Report"]), "default"
            metas = positioned_metas(rng, attr, shared, odd, n, odd_at, others)
            put("late", [f"{attr}/{pat}", f"others-{others}"], meta_cells(rng, metas))
    # every details / loss_details flavour once (late or middle position)
    for attr in ("details", "loss_details"):
        for tag, shared, odd in DETAIL_PAIRS:
            pat = rng.choice(["last", "second-to-last", "middle"])
            n = rng.choice([4, 5]) if pat == "middle" else rng.choice([3, 4, 5])
            odd_at = {"last": n - 1, "second-to-last": n - 2, "middle": 1}[pat]
            others = rng.choice(["same", "default", "distinct"])
            if others == "same":
                others = "default"           # RICH carries its own details
            metas = positioned_metas(rng, attr, shared, odd, n, odd_at, others)
            put("late", [f"{attr}/{tag}", f"{attr}/{pat}"], meta_cells(rng, metas))


# -- lesson 5: degenerate triangles, every unit spelling, default arguments --------------------------------------------

def les_options(rng, put):
    for kind in ("C", "U", "I"):
        ps = D(rng.randrange(1995, 2030), rng.randrange(1, 13), rng.choice([1, 10]))
        pe = ps + rng.choice([0, 27, 30, 89]) * DAY
        ev = pe + rng.choice([0, 1, 15, 365]) * DAY
        m = Metadata(**rng.choice([{}, RICH, {"details": {"flag": None}}]))
        vals = rng.choice([{}, {"paid_loss": 0}, {"paid_loss": gen.rand_value(rng, "farr", n_samples=40), "n": None}])
        for defaults in (False, True):
            put("options", ["single-cell", f"kind={kind}", "defaults" if defaults else "explicit"],
                rows_cells(kind, [(ps, pe, [ev])], m, lambda *a: dict(vals)), units=ALL_UNITS, defaults=defaults, twice=True)
    for defaults in (False, True):
        put("options", ["empty", "defaults" if defaults else "explicit"], [], units=ALL_UNITS, defaults=defaults, twice=True)
    # a multi-slice triangle with every spelling, both calling conventions
    for defaults in (False, True):
        metas = positioned_metas(rng, "currency", "USD", "EUR", 3, 2, "same")
        put("options", ["every-unit-spelling", "defaults" if defaults else "explicit"], meta_cells(rng, metas),
            units=ALL_UNITS, defaults=defaults, twice=True)


# -- lesson 6: twins -- same coordinates and metadata, other content, consecutively in one process --------------------

def les_twin(rng, put):
    y = rng.randrange(1995, 2030)
    rows = month_rows(D(y, 1, 1), 3, 3, [[0, 1, 2], [0, 1], [0]], lag_step=3)
    metas = [Metadata(country="AA", currency="USD", details={"lob": "auto"}),
             Metadata(country="BB", currency="USD", details={"lob": "auto"}),
             Metadata(country="CC", currency="USD", details={"lob": "home"})]

    def tri(kind, valfn, ms=metas):
        out = []
        for i, m in enumerate(ms):
            out += rows_cells(kind, rows, m, lambda ps, pe, ev, i=i: valfn(i, ps, pe, ev))
        return out
    base = {}

    def a_vals(i, ps, pe, ev):
        return base.setdefault((i, ps, ev), {"paid_loss": rng.randrange(1, 4096), "reported_loss": float(rng.randrange(1, 4096))})

    def arr(S):
        return lambda i, ps, pe, ev: {"paid_loss": gen.rand_value(rng, "farr", n_samples=S), "reported_loss": rng.randrange(9)}

    def incons(i, ps, pe, ev):
        return {"paid_loss": gen.rand_value(rng, "farr", n_samples=3 if (i, ps.month, ev.month) != (2, 7, 9) else 4), "reported_loss": 1}

    def coverage(i, ps, pe, ev):
        v = {"paid_loss": 2 * a_vals(i, ps, pe, ev)["paid_loss"]}
        if i != 2:
            v["reported_loss"] = 1.0
        if i == 2 and ev == pe:
            v["earned_premium"] = 5
        return v
    def slice_coverage(i, ps, pe, ev):
        v = dict(a_vals(i, ps, pe, ev))
        if i == 2:
            del v["reported_loss"]
        return v
    pairs = [("same-fields-other-slice-coverage", a_vals, slice_coverage, metas),
             ("rescaled-values", a_vals, lambda i, ps, pe, ev: {k: 2 * v for k, v in a_vals(i, ps, pe, ev).items()}, metas),
             ("other-field-coverage", a_vals, coverage, metas),
             ("samples-4-then-40", arr(4), arr(40), metas),
             ("scalars-then-samples", a_vals, arr(256), metas),
             ("samples-then-scalars", arr(5), a_vals, metas),
             ("consistent-then-inconsistent", arr(3), incons, metas),
             ("inconsistent-then-consistent", incons, arr(3), metas),
             ("other-metadata-same-coordinates", a_vals, a_vals,
              [metas[0], metas[1], dataclasses.replace(metas[2], currency="EUR", details={"lob": "auto"})])]
    for tag, fa, fb, msb in pairs:
        kind = rkind(rng)
        put("twin", [tag, "first"], tri(kind, fa))
        put("twin", [tag, "second"], tri(kind, fb, msb))


# -- lesson 7: derived triangles whose parent's caches are all warm ---------------------------------------------------

def les_derived(rng, put, ctx):
    from bermuda.utils.merge import coalesce, merge
    for flavour in ("samples", "details"):
        y = rng.randrange(1995, 2030)
        kind = rkind(rng)
        rows = month_rows(D(y, 1, 1), 3, 4, [[0, 1, 2, 3], [0, 1, 2], [0, 1], [0]], lag_step=3)
        metas = [Metadata(country="AA", currency="USD", per_occurrence_limit=0, details={"lob": "auto", "k": 0},
                          loss_details={"peril": "wind"}),
                 Metadata(country="BB", currency="USD", per_occurrence_limit=0, details={"lob": "auto", "k": 1},
                          loss_details={"peril": "wind"}),
                 Metadata(country="CC", currency="EUR", per_occurrence_limit=0, details={"lob": "home", "k": 0},
                          loss_details={"peril": "wind", "late": None})]
        cells = []
        for i, m in enumerate(metas):
            def vf(ps, pe, ev, i=i):
                v = {"reported_loss": rng.randrange(4096)}
                if i < 2:
                    v["paid_loss"] = gen.rand_value(rng, "farr", n_samples=4) if flavour == "samples" else rng.randrange(99)
                if i == 2 and ev == pe:
                    v["earned_premium"] = 0
                if ev.year > y:
                    v["open_claims"] = None
                return v
            cells += rows_cells(kind, rows if i < 2 else rows[:3], m, vf)
        parent = put("derived", ["parent", flavour], cells, twice=False)
        if parent is None:
            continue
        c09_seq.read_accessors(parent)                 # every cached accessor of the parent is warm now
        evs, pers, fields = parent.evaluation_dates, parent.periods, parent.fields
        half = len(parent) // 2
        ops = [
            ("filter-last-slice", lambda: parent.filter(lambda c: c.metadata == metas[2])),
            ("filter-first-slice", lambda: parent.filter(lambda c: c.metadata == metas[0])),
            ("filter-drop-first-period", lambda: parent.filter(lambda c: c.period != pers[0])),
            ("filter-one-period", lambda: parent.filter(lambda c: c.period == pers[-1])),
            ("filter-nothing-left", lambda: parent.filter(lambda c: False)),
            ("filter-everything", lambda: parent.filter(lambda c: True)),
            ("clip-max-eval", lambda: parent.clip(max_eval=evs[1])),
            ("clip-min-period", lambda: parent.clip(min_period=pers[1][0])),
            ("clip-max-dev", lambda: parent.clip(max_dev=3)),
            ("slice-tail", lambda: parent[half:]),
            ("slice-head", lambda: parent[:half]),
            ("slice-step", lambda: parent[::3]),
            ("getitem-period-slice", lambda: parent[pers[1][0]:, :, :]),
            ("getitem-eval-slice", lambda: parent[:, :evs[1], :]),
            ("getitem-metadata", lambda: parent[:, :, metas[2]]),
            ("getitem-period-eval-metadata", lambda: parent[pers[1][0]:, evs[1]:, metas[0]]),
            ("select-one-field", lambda: parent.select(["reported_loss"])),
            ("select-sample-field", lambda: parent.select(["paid_loss"])),
            ("select-late-field", lambda: parent.select(["earned_premium", "open_claims"])),
            ("select-nothing", lambda: parent.select([])),
            ("derive_fields-const", lambda: parent.derive_fields(zz_new=1)),
            ("derive_fields-overwrite-samples", lambda: parent.derive_fields(paid_loss=2.5)),
            ("derive_metadata-merge-currency", lambda: parent.derive_metadata(currency="USD", country=None)),
            ("derive_metadata-merge-details", lambda: parent.derive_metadata(details={}, loss_details={})),
            ("derive_metadata-split-by-period", lambda: parent.derive_metadata(zz_period=lambda c: c.period_start.month)),
            ("replace-values", lambda: parent.replace(values=lambda c: {"only": len(c.values)})),
            ("replace-evaluation-date", lambda: parent.replace(evaluation_date=lambda c: c.evaluation_date + 15 * DAY)),
            ("replace-period-end", lambda: parent.replace(period_end=lambda c: c.period_end - 10 * DAY)),
            ("right_edge", lambda: parent.right_edge),
            ("add-copy", lambda: parent + parent.derive_metadata(zz_copy=True).select(["reported_loss"])),
            ("remove_static_details", lambda: parent.remove_static_details()),
            ("coalesce", lambda: coalesce([parent.filter(lambda c: c.metadata == metas[2]), parent.select(["reported_loss"])])),
            ("merge", lambda: merge(parent.select(["reported_loss"]).clip(max_eval=evs[2]),
                                    parent.filter(lambda c: c.metadata != metas[0]).derive_fields(zz_new=1))),
            ("slices-value", lambda: parent.slices[metas[1]]),
        ]
        for name, fn in ops:
            st, out = call(fn)
            if st != "ok" or not isinstance(out, Triangle):
                ctx.count(f"lesson/derived/{name}/raised")
                continue
            put("derived", [name, f"parent-{flavour}"], None, tri=out, twice=rng.random() < 0.4)
        # the parent once more, after everything was derived from it
        put("derived", ["parent-read-again", flavour], None, tri=parent, twice=True)


# -- lesson 8: falsy everywhere ------------------------------------------------------------------------------------------

FALSY = [("per_occurrence_limit", 0), ("per_occurrence_limit", 0.0), ("risk_basis", ""), ("country", ""), ("currency", ""),
         ("reinsurance_basis", ""), ("loss_definition", ""), ("details", {"k": 0}), ("details", {"k": False}),
         ("details", {"k": ""}), ("details", {"k": 0.0}), ("details", {"flag": None}), ("loss_details", {"k": 0}),
         ("loss_details", {"k": False}), ("loss_details", {"k": ""}), ("loss_details", {"flag": None})]


def les_falsy(rng, put):
    # falsy in EVERY slice (it is shared: common_metadata keeps it, the differences drop it)
    for attr, val in FALSY:
        n = rng.choice([2, 3, 4])
        unset = {} if attr in ("details", "loss_details") else None
        if attr == "risk_basis":
            metas = [Metadata(risk_basis="", country=POS_COUNTRY[i]) for i in range(n)]
        else:
            metas = positioned_metas(rng, attr, val, val, n, 0, rng.choice(["default", "distinct"]))
        put("falsy", ["every-slice", f"{attr}={val!r}"], meta_cells(rng, metas))
        # falsy in ONE late slice only, unset elsewhere (the difference of that slice must carry the falsy value)
        if attr != "risk_basis":
            odd_at = rng.choice([n - 1, max(n - 2, 0)])
            metas = positioned_metas(rng, attr, unset, val, n, odd_at, rng.choice(["default", "same"]) if unset is None else "default")
            put("falsy", ["one-late-slice-only", f"{attr}={val!r}"], meta_cells(rng, metas))
    # equal values of different Python types in different slices (0 == 0.0 == False, 1000000 == 1e6): shared all the same
    for tag, vals in (("limit-0-0.0-False", [0, 0.0, False]), ("limit-int-float", [1000000, 1e6, 1000000])):
        put("falsy", ["equal-values-of-different-types", tag],
            meta_cells(rng, [Metadata(country=c, per_occurrence_limit=v) for c, v in zip(POS_COUNTRY, vals)]))
    for attr in ("details", "loss_details"):
        put("falsy", ["equal-values-of-different-types", f"{attr}-0-0.0-False"],
            meta_cells(rng, [Metadata(country=c, **{attr: {"k": v, "one": w}})
                             for c, v, w in zip(POS_COUNTRY, [0, 0.0, False], [1, True, 1.0])]))
    # all of them at once
    allf = dict(risk_basis="", currency="", reinsurance_basis="", loss_definition="", per_occurrence_limit=0,
                details={"k": 0, "s": "", "b": False, "n": None}, loss_details={"k": 0.0, "n": None})
    put("falsy", ["every-slice", "all-attributes-falsy"],
        meta_cells(rng, [Metadata(country=c, **allf) for c in ["", "AA", "BB"]]))
    put("falsy", ["every-slice", "all-attributes-falsy", "country-too"],
        meta_cells(rng, [Metadata(country="", **{**allf, "details": {**allf["details"], "id": i}}) for i in range(3)]))
    # fields whose value is 0 / 0.0 / None / an empty array / all-zero samples in EVERY cell; and only in the last slice
    metas = [Metadata(country=c) for c in POS_COUNTRY[:3]]
    fv = {"paid_loss": 0, "reported_loss": 0.0, "open_claims": None, "zz_empty": np.array([]), "zeros": np.zeros(4),
          "false": False}
    y = rng.randrange(1995, 2030)
    rows = month_rows(D(y, 1, 1), 3, 2, [0, 1], lag_step=3)
    k = rkind(rng)
    put("falsy", ["fields", "every-cell"],
        [c for m in metas for c in rows_cells(k, rows, m, lambda *a: {f: (v.copy() if isinstance(v, np.ndarray) else v)
                                                                      for f, v in fv.items()})])
    k = rkind(rng)
    cells = []
    for i, m in enumerate(metas):
        cells += rows_cells(k, rows, m, lambda *a, i=i: ({"earned_premium": 3, **({f: (v.copy() if isinstance(v, np.ndarray) else v)
                                                                                  for f, v in fv.items()} if i == 2 else {})}))
    put("falsy", ["fields", "last-slice-only"], cells)
    for name, v in (("None", None), ("0", 0), ("empty-array", np.array([])), ("0.0", 0.0)):
        k = rkind(rng)
        put("falsy", ["fields", f"only-field-is-{name}"],
            [c for m in metas[:2] for c in rows_cells(k, rows, m, lambda *a: {"paid_loss": v})])


LESSONS = [("large", les_large), ("overlap", les_overlap), ("midmonth", les_midmonth), ("regularity", les_regularity),
           ("late", les_late), ("options", les_options), ("twin", les_twin), ("derived", les_derived),
           ("falsy", les_falsy)]


def correspondence(ctx):
    rng = ctx.rng
    drv = common.Driver("drv_c13")
    n_tri = 9000 if ctx.thorough else 1500
    reqs, cases = [], []
    def emit(t, wcells, desc, units=None, twice=None, defaults=None):
        """ONE case: every accessor of the Triangle object `t` is read and queued for the model comparison, the Spec
        predicates on the implementation's output and the independent taxonomy. Random and lesson cases share it.
        `units` / `twice` / `defaults` force what the random cases draw (no random number is consumed when given);
        `defaults`: month answers from the calls WITHOUT argument, other units by keyword (every 4th case otherwise)."""
        if units is None:
            units = ["month", "day", "timedelta"]
            if rng.random() < 0.15:
                units.append(rng.choice(["Months", "DAYS", "weeks", "fortnight"]))
        else:
            units = list(units)
        if defaults is None:
            defaults = len(reqs) % 4 == 1
        if twice is None:
            twice = rng.random() < 0.3
        if defaults:
            ctx.count("options/unit argument omitted (month) or passed by keyword")
        for k, v in desc.items():
            ctx.count(f"tri/{k}={v}")
        d = impl_dump(t, units, defaults)
        if twice:
            # read everything a second time on the same object, after emptying the containers that the
            # non-cached accessors returned (dev_lags list, slices dict): the answers must not change
            ctx.count("stream/accessors read twice")
            for u in ("month", "day"):
                st, lst = call(lambda u=u: t.dev_lags(u))
                if st == "ok":
                    lst.clear()
            st, sl = call(lambda: t.slices)
            if st == "ok":
                sl.clear()
            st, rws = call(lambda: list(t.slice_period_rows))
            if st == "ok":
                for _, row in rws:
                    row.clear()
            d2 = impl_dump(t, units, not defaults)      # the other calling convention on the second read
            if d2 != d:
                diff = sorted(k for k in d if d[k] != d2.get(k))
                ctx.fail("accessors give different answers on a second read of the same triangle",
                         {"cells": wcells, "accessors": diff}, {"first": {k: d[k] for k in diff}, "second": {k: d2[k] for k in diff}})
            d = d2
        guards = {"semi": float_ok_semi(t), "lags": float_ok_lags(t)}
        if not guards["semi"]:
            ctx.count("guard/month period lengths float-ambiguous (month taxonomy not compared)")
        if not guards["lags"]:
            ctx.count("guard/month lags float-ambiguous (month dev_lags / is_regular not compared)")
        reqs.append({"cells": wcells, "units": units, "impl": to_driver(d)})
        cases.append((wcells, units, d, desc, guards, w_cells(t.cells)))

    def derive(t):
        """an operation applied to a triangle whose cached accessors have ALL been read already;
        returns (name, derived Triangle object) or None"""
        fields = t.fields
        evs = t.evaluation_dates
        ops = ["merge-all", "merge-details", "merge-attr", "split-by-period", "split-by-eval",
               "derive_fields-const", "derive_fields-fn", "select", "clip", "add", "right_edge", "filter"]
        name = rng.choice(ops)
        if name == "merge-all":
            fn = lambda: t.derive_metadata(risk_basis="Accident", country=None, currency=None,
                                           reinsurance_basis=None, loss_definition=None,
                                           per_occurrence_limit=None, details={}, loss_details={})
        elif name == "merge-details":
            fn = lambda: t.derive_metadata(details={}, loss_details={})
        elif name == "merge-attr":
            attr = rng.choice(["country", "currency", "reinsurance_basis", "loss_definition"])
            fn = lambda: t.derive_metadata(**{attr: "ZZ"})
        elif name == "split-by-period":
            fn = lambda: t.derive_metadata(zz_period=lambda c: c.period_start.toordinal())
        elif name == "split-by-eval":
            fn = lambda: t.derive_metadata(zz_year=lambda c: c.evaluation_date.year % 2)
        elif name == "derive_fields-const":
            fn = lambda: t.derive_fields(zz_new=1, **({fields[0]: 2.5} if fields and rng.random() < 0.5 else {}))
        elif name == "derive_fields-fn":
            fn = lambda: t.derive_fields(zz_cnt=lambda c: len(c.values))
        elif name == "select":
            ks = [f for f in fields if rng.random() < 0.5]
            fn = lambda: t.select(ks)
        elif name == "clip":
            fn = (lambda: t.clip(max_eval=rng.choice(evs))) if evs else (lambda: t.clip())
        elif name == "add":
            fn = lambda: t + t.derive_metadata(zz_copy=True).select(fields[:1])
        elif name == "right_edge":
            fn = lambda: t.right_edge
        else:
            keep = {id(c): rng.random() < 0.6 for c in t.cells}
            fn = lambda: t.filter(lambda c: keep[id(c)])
        st, out = call(fn)
        if st != "ok" or not isinstance(out, Triangle):
            ctx.count(f"derived/{name}/raised")
            return None
        return name, out

    for i in range(n_tri):
        if rng.random() < 0.02:
            cells, desc = [], {"layout": "empty", "slices": 0, "kind": "-", "samples": "-"}
        else:
            cells, desc = make_cells(rng)
        st, t = call(Triangle, cells)
        if st != "ok":
            raise common.Infra(f"generator produced cells the constructor refuses: {t} {desc}")
        emit(t, w_cells(cells), desc)
        # SEQUENCE stream: every cached accessor of `t` has now been read. Apply an operation to that
        # very object and check the accessors of the OUTPUT object against the model applied to the
        # output's cells (a cache carried over from the input would be stale).
        if t.cells and rng.random() < 0.35:
            got = derive(t)
            if got is not None:
                name, out = got
                ctx.count(f"derived/{name}")
                emit(out, w_cells(out.cells), {"layout": f"derived:{name}", "slices": len(out.slices),
                                               "kind": desc["kind"], "samples": desc["samples"]})

    # the eight generator lessons of seeded batch 4: a fixed quota of each input kind in EVERY run, through the same
    # `emit` as the random cases. Knob for mutation experiments only: VERIF_SKIP_LESSONS=1 drops them.
    def put(stream, tags, cells, tri=None, **opts):
        if tri is None:
            st, tri = call(Triangle, cells)
            if st != "ok":
                raise common.Infra(f"lesson generator {stream} {tags} produced cells the constructor refuses: {tri}")
            wc = w_cells(cells)
        else:
            wc = w_cells(tri.cells)
        ctx.count(f"stream=lesson:{stream}")
        for tg in tags:
            ctx.count(f"lesson/{stream}/{tg}")
        kinds = {common.w_kind(c) for c in tri.cells}
        emit(tri, wc, {"layout": f"lesson:{stream}", "slices": len({c.metadata for c in tri.cells}),
                       "kind": kinds.pop() if len(kinds) == 1 else "-", "samples": "-"}, **opts)
        return tri

    reps = 0 if os.environ.get("VERIF_SKIP_LESSONS") else 4 if ctx.thorough else 1
    for _ in range(reps):
        for name, fn in LESSONS:
            if name == "derived":
                fn(rng, put, ctx)
            else:
                fn(rng, put)

    outs = drv.run(reqs)

    for (wcells, units, d, desc, guards, tcells), out in zip(cases, outs):
        if "ok" not in out["t"] or canon(out["t"]["ok"]) != canon(tcells):
            ctx.disagree("Triangle(cells).cells", {"cells": wcells}, out["t"], tcells)
            continue
        model, spec, tax = out["model"], out["spec"], out["taxonomy"]
        ctx.case(digest=json.dumps(canon(wcells), sort_keys=True), nontrivial=len(tcells) > 1,
                 sample={"n_cells": len(tcells), **desc, "is_disjoint": d["is_disjoint"],
                         "is_regular": d["is_regular"].get("month"), "period_resolution": d["period_resolution"]})
        case = {"cells": wcells}
        tag = ("disjoint" if d["is_disjoint"].get("ok") else "overlapping") + "/" + (
            "regular" if d["is_regular"]["month"].get("ok") else
            "semi-regular" if d["is_semi_regular"]["month"].get("ok") else "irregular")
        ctx.count(f"taxonomy(month)/{tag}")
        ctx.count(f"num_samples/{d['num_samples'].get('ok', 'ValueError')}")
        ctx.count(f"period_resolution/{d['period_resolution'].get('ok', 'err')}")
        ctx.count(f"eval_date_resolution/{d['eval_date_resolution'].get('ok', 'err')}")
        ctx.count(f"gaps/{len(d['experience_gaps'].get('ok', []))}")

        def month_skip(name, u):
            k = unit_kind(u)
            if k != "month":
                return False
            if name == "dev_lags":
                return not guards["lags"]
            if name == "is_semi_regular":
                return not guards["semi"]
            if name == "is_regular":
                return not (guards["semi"] and guards["lags"])
            return False

        def compare(name, m, im, sp, u=None):
            """m: model answer, im: implementation answer (both {'ok'|'err'}), sp: spec verdict or None"""
            where = dict(case, accessor=name, **({"unit": u} if u else {}))
            if sp is False:
                ctx.fail(f"{name}: the implementation's answer is not what the cells determine", where,
                         {"impl": im, "model": m})
                return
            if ("err" in m) != ("err" in im):
                if name in PLAIN or name in ("evaluation_date", "common_metadata", "metadata_differences"):
                    ctx.fail(f"{name}: raises / does not raise unlike the model of the documented behaviour", where,
                             {"impl": im, "model": m})
                else:
                    ctx.disagree(name, where, m, im)
                return
            if "err" in m:
                if name == "evaluation_date" and im["err"] != "TriangleEmptyError":
                    ctx.fail("evaluation_date on an empty triangle must raise TriangleEmptyError", where, {"impl": im})
                elif name == "num_samples" and im["err"] != "ValueError":
                    ctx.fail("num_samples with inconsistent sizes must raise ValueError", where, {"impl": im})
                return
            if name == "slice_period_rows":
                if [[a, b, canon(r)] for a, b, r in m["ok"]] != [[a, b, canon(r)] for a, b, r in im["ok"]]:
                    ctx.disagree(name, where, m, im)
            elif m["ok"] != im["ok"]:
                ctx.disagree(name, where, m, im)

        for name in PLAIN:
            compare(name, {"ok": model[name]}, d[name], spec.get(name))
        for name in WRAPPED:
            compare(name, model[name], d[name], spec.get(name))
        for u in units:
            if not month_skip("dev_lags", u):
                compare("dev_lags", model["dev_lags"][u], d["dev_lags"][u], spec["dev_lags"].get(u), u)
            for name in ("is_semi_regular", "is_regular"):
                if month_skip(name, u):
                    continue
                im = d[name][u]
                compare(name, model[name][u], im, None, u)
                tv = tax[name].get(u)
                if tv is not None and "ok" in im and im["ok"] != tv:
                    ctx.fail(f"{name}('{u}') disagrees with the documented taxonomy computed independently",
                             dict(case, accessor=name, unit=u), {"impl": im["ok"], "independent": tv})
        if "ok" in d["is_slicewise_disjoint"]:
            sw = d["is_slicewise_disjoint"]["ok"]
            ctx.count(f"slicewise/{'disjoint' if sw else 'overlapping'} (whole triangle "
                      f"{'disjoint' if d['is_disjoint'].get('ok') else 'overlapping'})")
            if sw != tax["is_slicewise_disjoint"]:
                ctx.fail("is_slicewise_disjoint disagrees with 'no two different periods of one slice overlap' "
                         "computed pairwise", dict(case, accessor="is_slicewise_disjoint"),
                         {"impl": sw, "independent": tax["is_slicewise_disjoint"]})
            if d["is_disjoint"].get("ok") and not sw:
                ctx.fail("is_disjoint without is_slicewise_disjoint", case)
        if "ok" in d["slice_period_rows"]:
            ctx.count(f"slice_period_rows/rows={min(len(d['slice_period_rows']['ok']), 8)}"
                      f"{'+' if len(d['slice_period_rows']['ok']) > 8 else ''}")
        if "ok" in d["is_disjoint"] and d["is_disjoint"]["ok"] != tax["is_disjoint"]:
            ctx.fail("is_disjoint disagrees with 'no two different periods overlap' computed pairwise",
                     dict(case, accessor="is_disjoint"), {"impl": d["is_disjoint"]["ok"], "independent": tax["is_disjoint"]})
        # nesting, on the implementation directly
        for u in units:
            if unit_kind(u) is None:
                continue
            r, s = d["is_regular"][u].get("ok"), d["is_semi_regular"][u].get("ok")
            if r and not s:
                ctx.fail("is_regular without is_semi_regular", dict(case, unit=u))
            if s and not d["is_disjoint"].get("ok"):
                ctx.fail("is_semi_regular without is_disjoint", dict(case, unit=u))


if __name__ == "__main__":
    common.run_check(
        "C13", module="Bermuda.Properties.C13", driver_targets=["drv_c13"],
        correspondence=correspondence,
        level="proof",
        rule="random triangles: 0-4 slices with arbitrary shared/unshared metadata (attributes, details, loss_details), "
             "layouts {regular, one off-grid lag, unequal period lengths, dropped periods, touching/adjacent/one-day "
             "overlap, overlapping/nested, calendar months, equal-day periods, several evaluations in one month, "
             "day-level}, same or different layout per slice, 3-5-slice layouts where only a late-sorting slice differs in an "
             "attribute the earlier ones share (incl. the default risk_basis), is_slicewise_disjoint and slice_period_rows "
             "(model + Spec + independent taxonomy), mixed field coverage, scalar / sample / mixed / "
             "inconsistent-size / size-1 values, None-valued detail entries present in some slices only; units month, day, "
             "timedelta (+ aliases and unrecognised units); sequence stream: accessors read twice on one object, and "
             "accessors of triangles DERIVED (derive_metadata merging/splitting slices, derive_fields, select, clip, +, "
             "right_edge, filter) from an object whose cached accessors were all read before; unit argument omitted / "
             "passed by keyword on every 4th case. LESSON cases (fixed quota in every run, same per-case checks, "
             "histogram lesson/*): large (>= 300 cells, >= 256 slices / periods / lags / fields, 40-1000 samples, the "
             "deviation in the last cell / slice / pair), overlap (same start or same end in one slice, between slices "
             "only, last slice only, last pair only, one shared day vs adjacent), midmonth (evaluations on the 15th, "
             "periods 16th-15th, half months, mid-month period boundaries, gcd of mixed period / evaluation gaps with a "
             "late stub), regularity (lag sets whose deviations cancel, first gap = last gap, late off-grid lag, period "
             "lengths equal in months or in days only, one period a day longer), late (each of the eight attributes and "
             "twelve details flavours differing only in the last / second-to-last / a middle / the first of 3-5 slices), "
             "options (single-cell and empty triangles, 16 unit spellings, default arguments), twin (same coordinates "
             "and metadata, other values / field coverage / sample counts, consecutively), derived (33 operations on a "
             "parent whose caches are warm), falsy (every falsy value of every attribute in every slice / in one late "
             "slice only; fields that are 0 / None / empty arrays in every cell). "
             "distinct = distinct canonical cell dump; non-trivial = more than one cell",
        assumptions=["month lags and month period lengths are IEEE doubles in the implementation: implementation lags "
                     "are matched to the exact rational within relative 2^-40, and month-unit dev_lags / is_semi_regular "
                     "/ is_regular are compared only when the float (in)equalities the code evaluates agree with the "
                     "exact ones (counted in the input distribution as guard/...)",
                     "detail values under one key are mutually comparable", "NaN-free values",
                     "period_end < date.max and period_start > date.min (timedelta overflow otherwise)"],
        trusted=["Python set/sorted semantics as modelled (Model/Accessors.lean: sortedDedup)",
                 "math.gcd over a set is order-independent"],
    )
