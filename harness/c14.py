"""C14 — CSV, array-frame and Matrix forms round-trip coordinates, slices and numbers (PARTIAL:
pandas' text layer — dtype inference, NaN handling, date parsing, float formatting — is trusted /
opaque; the model and the theorems are about the row algebra).

Correspondence with the Lean model (lean/Bermuda/Model/Frame.lean, driver drv_c14); the group-by
key lists of the data-frame readers are regenerated from VERIF_REPO into
lean/Bermuda/Generated/Frame.lean on every run and the model groups by THAT table.

Observables per generated triangle:
  * the wide / long CSV text, read with Python's `csv` module (independent reader) = model rows
    (row by row, as dicts; column order is a Python set order and not compared); Spec row count
  * from_wide_csv(to_wide_csv(t), field_cols, loss_detail_cols), from_long_csv(to_long_csv(t)),
    from_long_data_frame(read_csv, loss_detail_cols) = model = original (Spec `wideSpec/longSpec`:
    coordinates incl. prev, class, slice metadata, field set, numbers as floats with size-1 / 0-d
    arrays as their scalar, sample order); Spec `slicesSpec`: every slice stays separate
  * array frame (regular single slice, resolutions 1/3/6/12): frame = model, round trip with
    explicit and with inferred period_resolution = model = original
  * Matrix (month-aligned semi-regular, complete and holey, incl. quarterly periods evaluated
    annually): index, shape, entries = model; matrix_to_triangle(triangle_to_matrix(t)) = original
  * Rich matrix (io/rich_matrix.py): index, shape and every entry of the object array (plain number with its Python
    kind, PredictedValue, Disaggregated(Predicted)Value with id, MissingValue with id) = model; Spec on the
    IMPLEMENTATION's matrix (every cell value at the position plain month arithmetic gives, nothing else but
    MissingValues numbered 0..n-1) and on rich_matrix_to_triangle(triangle_to_rich_matrix(t)) (exactly the cells holding a
    value of an index field, kinds / dtypes / shapes kept); the model's reader on the implementation's own matrix
  * the rest of io/array.py: from_statics_data_frame, to_right_edge_data_frame (+ read back as statics frame),
    from_array_data_frame with eval_resolution / dev_lag_from_period_end / non-integer labels, array_triangle_builder,
    parse_date = model, each with an independent Spec clause; triangle_to_matrix with eval_resolution / fields = model
  * in-memory data frames: column types of the writers, from_*_data_frame(to_*_data_frame(t)) = model (D21)
  * chainladder round trip: Spec only (third-party package, not modelled)
  * SEQUENCE (state carried between calls in one process): every CSV pair is read by five readers in
    random order — from_wide_csv with field_cols only / detail_cols only (fields inferred) / both,
    from_long_csv, from_long_data_frame(loss_detail_cols) — each checked against model and Spec, so an
    earlier read with explicit detail columns precedes later reads that infer them; a share of the
    files is written twice (identical bytes), a reader repeated; array frame and matrix are asked twice
    after the first result was edited in place; the written triangle must be unchanged.
"""
import csv
import dataclasses
import datetime
import json
import os
import tempfile
from fractions import Fraction

import numpy as np
import pandas as pd

import common
from common import call, w_cells, w_cell, w_meta, w_date, w_rat, w_val, canon_cell
import gen
import bermuda
from bermuda import Cell, CumulativeCell, IncrementalCell, Metadata, Triangle
from bermuda.io.matrix import matrix_to_triangle, triangle_to_matrix

D = datetime.date

# ---- generators (CSV-safe metadata: no '' strings — an empty CSV field reads back as NaN) --------

STR_POOL = {
    "risk_basis": ["Accident", "Policy", "Report"],
    "country": [None, "US", "DE", "ES"],
    "currency": [None, "USD", "EUR", "GBP"],
    "reinsurance_basis": [None, "Gross", "Net"],
    "loss_definition": [None, "Loss", "Loss+DCC", "Loss+LAE"],
}
LIMITS = [None, 250000, 500000.0, 1e6, 2.5, 0, 0.0]
DETAIL_KEYS = ["coverage", "state", "product"]
LOSS_DETAIL_KEYS = ["peril", "cause"]
STR_VALUES = ["BI", "PD", "CA", "NY", "a b", "x,y", "Üb"]
NUM_VALUES = [0, 0.0, 0, 1, 2, 3, 0.5, 1.5, 10.0]      # falsy numbers are values too
ATTRS = list(STR_POOL) + ["per_occurrence_limit", "details", "loss_details"]


def detail_value(rng, kind):
    return rng.choice(STR_VALUES if kind == "str" else NUM_VALUES)


def rand_detail_dict(rng, keys, typed):
    out = {}
    for k in rng.sample(keys, rng.randrange(0, len(keys) + 1)):
        kind = typed.setdefault(k, rng.choice(["str", "num"]))
        out[k] = detail_value(rng, kind)
    return out


def rand_metas(rng, n):
    """n distinct Metadata; each differs from the first in exactly ONE of the eight attributes"""
    typed = {}
    base = dict(
        risk_basis=rng.choice(STR_POOL["risk_basis"]), country=rng.choice(STR_POOL["country"]),
        currency=rng.choice(STR_POOL["currency"]), reinsurance_basis=rng.choice(STR_POOL["reinsurance_basis"]),
        loss_definition=rng.choice(STR_POOL["loss_definition"]), per_occurrence_limit=rng.choice(LIMITS),
        details=rand_detail_dict(rng, DETAIL_KEYS, typed), loss_details=rand_detail_dict(rng, LOSS_DETAIL_KEYS, typed))
    metas, how = [Metadata(**base)], []
    tries = 0
    while len(metas) < n and tries < 200:
        tries += 1
        attr = rng.choice(ATTRS)
        kw = dict(base)
        if attr in STR_POOL:
            kw[attr] = rng.choice(STR_POOL[attr])
        elif attr == "per_occurrence_limit":
            kw[attr] = rng.choice(LIMITS)
        else:
            keys = DETAIL_KEYS if attr == "details" else LOSS_DETAIL_KEYS
            d = dict(base[attr])
            k = rng.choice(keys)
            if k in d and rng.random() < 0.25:
                del d[k]
            else:
                d[k] = detail_value(rng, typed.setdefault(k, rng.choice(["str", "num"])))
            kw[attr] = d
        m = Metadata(**kw)
        if all(m != o for o in metas):
            metas.append(m)
            how.append(attr)
    return metas, how


def rand_csv_cells(rng):
    stream = rng.choice(["cum-scalar", "cum-scalar", "cum-sample", "inc-scalar"])
    n_slices = rng.choice([1, 2, 2, 3, 4])
    metas, how = rand_metas(rng, n_slices)
    layout = rng.choice(["regular", "ragged", "daily"])
    fields = rng.sample(gen.FIELDS, rng.randrange(1, 4))
    kind = "I" if stream == "inc-scalar" else rng.choice(["C", "U"])
    n_samples = rng.randrange(2, 5)
    fkind = {f: rng.choice(["int", "float"]) for f in fields}
    cells, rows = [], None
    # "subset" mode: slices share the periods but observe different subsets of the evaluation dates
    # (incremental cells of different slices then share coordinates but not prev_evaluation_date)
    subset = n_slices > 1 and rng.random() < 0.4
    ragged = rng.random() < 0.6
    for m in metas:
        if rows is None or (not subset and rng.random() < 0.5):
            rows = gen.layout_daily(rng) if layout == "daily" else gen.layout_regular(
                rng, shape="ragged" if layout == "ragged" else None)
        use = rows
        if subset:
            use = [(ps, pe, sorted(rng.sample(evs, rng.randrange(1, len(evs) + 1)))) for ps, pe, evs in rows]
        for c in gen.cells_from_layout(rng, use, m, kind=kind, fields=fields, vkind="int"):
            if stream == "cum-sample":
                # ragged: sampled cells need not carry the same fields (a field a cell lacks is empty in every scenario row)
                fs = ([f for f in fields if rng.random() < 0.7] or fields[:1]) if ragged else fields
                vals = {f: gen.rand_value(rng, "iarr" if fkind[f] == "int" else "farr", n_samples) for f in fs}
            else:
                fs = [f for f in fields if rng.random() < 0.8] or fields[:1]
                vals = {f: gen.rand_value(rng, fkind[f]) for f in fs}
                if rng.random() < 0.05:
                    f0 = next(iter(vals))
                    vals[f0] = np.array([float(gen.rand_value(rng, "int"))])      # size-1 array
            cells.append(c.replace(values=vals))
    if len(cells) > 24:
        cells = rng.sample(cells, 24)
    rng.shuffle(cells)
    return stream, how, cells


def rename_details(rng, cells):
    """the same cells with every detail / loss-detail key renamed (a rotation within its key pool): same values, same
    number of columns, other column names"""
    def rot(keys):
        k = rng.randrange(1, len(keys))
        return {a: keys[(j + k) % len(keys)] for j, a in enumerate(keys)}
    dm, lm = rot(DETAIL_KEYS), rot(LOSS_DETAIL_KEYS)
    cache = {}
    out = []
    for c in cells:
        m = c.metadata
        if m not in cache:
            cache[m] = dataclasses.replace(m, details={dm[k]: v for k, v in m.details.items()},
                                           loss_details={lm[k]: v for k, v in m.loss_details.items()})
        out.append(c.replace(metadata=cache[m]))
    return out


def regular_single_slice(rng, i=None):
    # resolutions and start months are covered systematically (every resolution x every start month in
    # 48 consecutive cases): the inferred period resolution depends on the lengths of the first months
    res = rng.choice([1, 3, 6, 12]) if i is None else [1, 3, 6, 12][i % 4]
    n_periods = rng.randrange(2, 6) if rng.random() < 0.9 else 1
    rows = gen.layout_regular(rng, res=res, n_periods=n_periods, n_lags=rng.randrange(1, 6),
                              shape=rng.choice(["square", "triangle", "ragged"]))
    # any start month (layout_regular aligns starts to multiples of res; shift by a few months)
    shift = rng.randrange(0, 12) if i is None else ((i // 4) % 12 + 1 - rows[0][0].month) % 12   # start month (i//4)%12+1
    rows = [(gen.add_months_int(ps, shift), gen.add_months_int(pe, shift, end=True),
             [gen.add_months_int(e, shift, end=True) for e in evs]) for ps, pe, evs in rows]
    metas, _ = rand_metas(rng, 1)
    fields = rng.sample(gen.FIELDS, rng.randrange(1, 3))
    fk = rng.choice(["int", "float"])
    cells = gen.cells_from_layout(rng, rows, metas[0], kind=rng.choice(["C", "U"]), fields=fields, vkind=fk)
    return res, fields, metas[0], cells


def month_id(d):
    return d.year * 12 + d.month - 1


def matrix_cells(rng):
    """month-aligned semi-regular cumulative triangle: periods of e months, evaluations either at
    lags k*s from the period end or on a calendar grid (year ends / half-year ends), 1-2 slices,
    complete or holey"""
    e = rng.choice([1, 3, 6, 12])
    style = rng.choice(["lag", "lag", "calendar"])
    n_p = rng.randrange(1, 5)
    y0, m0 = rng.randrange(1995, 2025), rng.choice(list(range(1, 13, e)))
    start = D(y0, m0, 1)
    rows = []
    for i in range(n_p):
        ps = gen.add_months_int(start, i * e)
        pe = gen.add_months_int(ps, e - 1, end=True)
        if style == "lag":
            s = rng.choice([1, 3, 6, 12])
            evs = [gen.add_months_int(pe, k * s, end=True) for k in range(rng.randrange(1, 5))]
        else:
            g = rng.choice([6, 12]) if e < 12 else 12
            first = month_id(pe)
            first += (-(first + 1)) % g          # next month id ≡ g-1 (mod g): a grid month end
            evs = [gen.month_end(*divmod_ym(first + k * g)) for k in range(rng.randrange(1, 4))]
        rows.append((ps, pe, evs))
    holey = rng.random() < 0.5
    metas, _ = rand_metas(rng, rng.choice([1, 1, 2]))
    fields = rng.sample(gen.FIELDS, rng.randrange(1, 3))
    cells = []
    for m in metas:
        for c in gen.cells_from_layout(rng, rows, m, kind=rng.choice(["U"]), fields=fields,
                                       vkind=rng.choice(["int", "float"])):
            if holey and rng.random() < 0.3:
                continue
            fs = [f for f in fields if rng.random() < 0.85] or fields[:1]
            cells.append(c.replace(values={f: c.values[f] for f in fs}))
    return {"e": e, "style": style, "holey": holey}, cells


def matrix_representable(t):
    """the Matrix index is a grid: period starts every `exp` months from the first, development lags
    every min(exp, dev) months from the smallest, where exp / dev are the gcd spacings of the period
    boundaries / of the evaluation months. A holey triangle whose remaining lags are not congruent
    modulo that step has no place on the grid (the form cannot hold it): outside the property."""
    import math
    bounds = sorted({month_id(c.period_start) for c in t} | {month_id(c.period_end) + 1 for c in t})
    exp = 0
    for a, b in zip(bounds, bounds[1:]):
        exp = math.gcd(exp, b - a)
    evs = sorted({month_id(c.evaluation_date) for c in t})
    dev = 0
    for a, b in zip(evs, evs[1:]):
        dev = math.gcd(dev, b - a)
    if not exp or not dev:
        return False
    step = min(exp, dev)
    lags = [month_id(c.evaluation_date) - month_id(c.period_end) for c in t]
    return all((x - min(lags)) % step == 0 for x in lags)


def divmod_ym(mid):
    y, m = divmod(mid, 12)
    return y, m + 1



# ---- rich matrix (io/rich_matrix.py) ---------------------------------------------------------------

def w_rval(x):
    from bermuda.matrix import DisaggregatedPredictedValue, DisaggregatedValue, MissingValue, PredictedValue
    if isinstance(x, MissingValue):
        return ["m", int(x.id)]
    if isinstance(x, DisaggregatedPredictedValue):
        return ["D", int(x.id), w_val(x.value)]
    if isinstance(x, DisaggregatedValue):
        return ["d", int(x.id), w_val(x.value)]
    if isinstance(x, PredictedValue):
        return ["P", w_val(x.value)]
    return ["p", w_val(x)]


def dump_rich(m):
    ix = m.index
    ents = [[int(a), int(b), int(c), int(d), w_rval(m.data[a, b, c, d])]
            for a, b, c, d in np.ndindex(*m.data.shape) if m.data[a, b, c, d] is not None]
    return {"slices": [w_meta(x) for x in ix.slices], "fields": list(ix.fields),
            "exp_origin": int(ix.exp_origin), "dev_origin": int(ix.dev_origin),
            "exp_resolution": int(ix.exp_resolution), "dev_resolution": int(ix.dev_resolution),
            "shape": [int(x) for x in m.data.shape], "incremental": bool(m.incremental), "entries": ents}


def rich_value(rng, arrays=True):
    r = rng.random()
    if r < 0.06:
        return rng.choice([0, 0.0])            # falsy numbers are values, not gaps
    if r < 0.30:
        return gen.rand_value(rng, "int")
    if r < 0.55:
        return gen.rand_value(rng, "float")
    if r < 0.65:
        return None
    if not arrays:
        return gen.rand_value(rng, "int")
    if r < 0.90:
        return gen.rand_value(rng, rng.choice(["iarr", "farr"]), rng.randrange(2, 4))
    if r < 0.96:
        return np.array([float(gen.rand_value(rng, "int"))]) if rng.random() < 0.5 else np.array(gen.rand_value(rng, "int"))
    return np.array([], dtype=np.float64)


def rich_cells(rng):
    """month-aligned triangle for the rich matrix: `grid` = periods of one length e (complete or holey),
    `mixed` = some leading periods m*e long then periods e long (disjoint), `overlap` = a long period on
    top of short ones; cumulative or incremental; values int / float / None / sample arrays / size-1
    arrays / empty arrays; fields present or absent per cell; 1-3 slices"""
    mode = rng.choice(["grid", "grid", "grid", "mixed", "mixed", "overlap"])
    e = rng.choice([1, 3, 6, 12]) if mode == "grid" else rng.choice([1, 3, 6])
    mult = rng.choice([2, 4]) if e != 6 else 2
    kind = rng.choice(["U", "U", "C", "I"])
    style = rng.choice(["lag", "lag", "calendar"]) if kind != "I" else "lag"
    s = rng.choice([1, 3, 6, 12]) if rng.random() < 0.4 else e
    y0 = rng.randrange(1995, 2025)
    m0 = rng.choice(list(range(1, 13, e * mult if mode != "grid" else e)))
    start = D(y0, m0, 1)
    rows = []
    n_coarse = 0 if mode == "grid" else rng.randrange(1, 3)
    n_fine = rng.randrange(1, 6) if mode != "grid" else rng.randrange(1, 5)
    cur = start
    spans = [e * mult] * n_coarse + [e] * n_fine
    if mode == "overlap":
        spans = [e] * n_fine
    elif mode == "mixed" and rng.random() < 0.3:
        spans = spans[::-1]                    # the long periods LAST (the array is sized by the last period's start)
    for i, span in enumerate(spans):
        ps = cur
        pe = gen.add_months_int(ps, span - 1, end=True)
        cur = gen.add_months_int(ps, span)
        if style == "lag":
            n_l = rng.randrange(1, 6)
            evs = [gen.add_months_int(pe, k * s, end=True) for k in range(n_l)]
        else:
            g = rng.choice([6, 12]) if e < 12 else 12
            first = month_id(pe)
            first += (-(first + 1)) % g
            evs = [gen.month_end(*divmod_ym(first + k * g)) for k in range(rng.randrange(1, 4))]
        rows.append((ps, pe, evs))
    if mode == "overlap":
        ps = start
        pe = gen.add_months_int(ps, e * min(mult, max(n_fine, 2)) - 1, end=True)
        rows.append((ps, pe, [gen.add_months_int(pe, k * s, end=True) for k in range(rng.randrange(1, 3))]))
    holey = rng.random() < 0.4
    metas, _ = rand_metas(rng, rng.choice([1, 1, 2, 3]))
    fields = rng.sample(gen.FIELDS, rng.randrange(1, 4))
    arrays = rng.random() < 0.6
    cells = []
    for m in metas:
        for c in gen.cells_from_layout(rng, rows, m, kind=kind, fields=fields, vkind="int"):
            if holey and rng.random() < 0.3:
                continue
            fs = [f for f in fields if rng.random() < 0.8]
            if not fs and rng.random() < 0.8:
                fs = fields[:1]
            cells.append(c.replace(values={f: rich_value(rng, arrays) for f in fs}))
    return {"mode": mode, "e": e, "kind": kind, "style": style, "holey": holey, "fields": fields}, cells


def rich_options(rng, t, fields):
    """(eval_resolution, fields) arguments; None = leave out"""
    r = rng.random()
    if r < 0.55:
        ev = None
    elif r < 0.65:
        ev = 0
    else:
        ev = rng.choice([1, 3, 6, 12])
    r = rng.random()
    pool = sorted({k for c in t.cells for k in c.values}) or list(fields)
    if r < 0.55:
        fs = None
    elif r < 0.80:
        fs = rng.sample(pool, rng.randrange(1, len(pool) + 1))
    elif r < 0.90:
        fs = rng.sample(pool, rng.randrange(1, len(pool) + 1)) + ["case_reserve"]
        rng.shuffle(fs)
    elif r < 0.95:
        fs = []
    else:
        fs = ["case_reserve"]
    return ev, fs


def rich_domain(t, ix):
    """independent description of where the rich matrix can hold the triangle: every period ONE index
    period long and starting on the index grid, lags on the development grid (step min(exp, dev));
    for incremental cells the previous evaluation date one step earlier (the period start's eve for
    the first). `mixed`: periods pairwise disjoint, all on the period grid, lags on the grid."""
    exp, dev = ix["exp_resolution"], ix["dev_resolution"]
    step = min(exp, dev)
    if exp <= 0 or step <= 0:
        return {"grid": False, "mixed": False, "prev": False}
    on_p = all((month_id(c.period_start) - ix["exp_origin"]) % exp == 0 and
               (month_id(c.period_end) + 1 - ix["exp_origin"]) % exp == 0 for c in t)
    lags = [month_id(c.evaluation_date) - month_id(c.period_end) for c in t]
    on_d = all((x - ix["dev_origin"]) % step == 0 and x >= ix["dev_origin"] for x in lags)
    single = all(month_id(c.period_end) - month_id(c.period_start) + 1 == exp for c in t)
    per = sorted({c.period for c in t})
    disjoint = all(a[1] < b[0] for a, b in zip(per, per[1:]))
    prev = True
    if t.is_incremental:
        for c, lag in zip(t, lags):
            k = (lag - ix["dev_origin"]) // step
            want = (c.period_start - datetime.timedelta(days=1) if k == 0
                    else gen.add_months_int(c.period_end, lag - step, end=True))
            prev = prev and c.prev_evaluation_date == want
    return {"grid": on_p and on_d and single, "mixed": on_p and on_d and disjoint, "prev": prev}


def rich_stream(ctx, rng, n, reqs, info):
    import warnings
    from bermuda.io.rich_matrix import rich_matrix_to_triangle, triangle_to_rich_matrix
    prev_t = None
    for i in range(n):
        desc, cells = rich_cells(rng)
        if not cells:
            continue
        t = Triangle(cells)
        wire = w_cells(t.cells)
        ev, fs = rich_options(rng, t, desc["fields"])
        kw = {}
        if ev is not None:
            kw["eval_resolution"] = ev
        if fs is not None:
            kw["fields"] = list(fs)
        ctx.count(f"rich/{desc['mode']}/{desc['kind']}")
        ctx.count("rich/options: " + (", ".join(sorted(kw)) or "defaults"))
        ctx.case(digest=json.dumps(["rich", [canon_cell(w) for w in wire], ev, fs], sort_keys=True), nontrivial=len(t) > 1,
                 sample={"stream": "rich", **{k: v for k, v in desc.items() if k != "fields"}, "cells": len(t)} if i < 2 else None)
        case = {"cells": wire, "eval_resolution": ev, "fields": fs, **{k: v for k, v in desc.items() if k != "fields"}}
        # accessors read BEFORE the call (cached on the triangle)
        pre = (list(t.fields), [w_meta(m) for m in t.metadata], list(t.periods), bool(t.is_incremental))
        with warnings.catch_warnings():
            warnings.simplefilter("ignore")
            if prev_t is not None and rng.random() < 0.3:
                # priming: the same function on a DIFFERENT triangle with other options, in this process
                call(triangle_to_rich_matrix, prev_t, eval_resolution=rng.choice([None, 1, 3]),
                     fields=rng.choice([None, list(prev_t.fields[:1])]) or None)
                ctx.count("sequence/rich primed by another triangle")
            st, m = call(triangle_to_rich_matrix, t, **kw)
            if st == "ok" and rng.random() < 0.3:
                # sequence: wipe the returned object array, convert the wiped matrix, then ask again
                snap = dump_rich(m)
                m.data[...] = None
                call(rich_matrix_to_triangle, m)
                st, m = call(triangle_to_rich_matrix, t, **kw)
                ctx.count("sequence/rich matrix asked twice")
                if st != "ok" or dump_rich(m) != snap:
                    ctx.fail("triangle_to_rich_matrix: a second call (after wiping the first result in place) differs", case)
                    continue
            if st == "ok":
                mat = {"ok": dump_rich(m)}
                back_res = call(rich_matrix_to_triangle, m)
                back = dump(back_res)
                if back_res[0] == "ok" and rng.random() < 0.3:
                    b2 = dump(call(rich_matrix_to_triangle, m))
                    ctx.count("sequence/rich matrix read twice")
                    if b2 != back:
                        ctx.fail("rich_matrix_to_triangle: a second call on the same matrix differs", case)
                if back_res[0] == "ok":
                    out_t = back_res[1]
                    acc = (sorted({k for c in out_t.cells for k in c.values}) == list(out_t.fields)
                           and len({c.metadata for c in out_t.cells}) == len(out_t.metadata)
                           and sorted({c.period for c in out_t.cells}) == list(out_t.periods))
                    if not acc:
                        ctx.fail("rich_matrix_to_triangle: accessors of the result differ from its cells", case)
                ctx.count(f"rich/exp={m.index.exp_resolution} dev={m.index.dev_resolution}")
            else:
                mat, back = {"err": m}, {"err": m}
                ctx.count(f"rich/refused {m}")
        if w_cells(t.cells) != wire or pre != (list(t.fields), [w_meta(x) for x in t.metadata], list(t.periods),
                                               bool(t.is_incremental)):
            ctx.fail("triangle_to_rich_matrix changed the triangle or its accessors", case)
        dom = rich_domain(t, mat["ok"]) if "ok" in mat else {"grid": False, "mixed": False, "prev": False}
        for k, v in dom.items():
            if v:
                ctx.count(f"rich/domain {k}")
        reqs.append({"op": "rich", "cells": wire, "eval_resolution": ev, "fields": fs,
                     "impl_matrix": mat.get("ok"), "impl_back": back.get("ok")})
        info.append(("rich", case, mat, (back, dom)))
        prev_t = t


def matrix_opt_stream(ctx, rng, n, reqs, info):
    import warnings
    for i in range(n):
        desc, cells = matrix_cells(rng)
        if not cells:
            continue
        t = Triangle(cells)
        wire = w_cells(t.cells)
        ev, fs = rich_options(rng, t, sorted({k for c in t.cells for k in c.values}))
        if ev is None and fs is None:
            ev = rng.choice([1, 3, 6, 12])
        kw = {}
        if ev is not None:
            kw["eval_resolution"] = ev
        if fs is not None:
            kw["fields"] = list(fs)
        ctx.count("matrix options/" + ", ".join(sorted(kw)))
        ctx.case(digest=json.dumps(["matrix_opt", [canon_cell(w) for w in wire], ev, fs], sort_keys=True), nontrivial=len(t) > 1)
        case = {"cells": wire, "eval_resolution": ev, "fields": fs}
        with warnings.catch_warnings():
            warnings.simplefilter("ignore")
            st, m = call(triangle_to_matrix, t, **kw)
        if st == "ok":
            ix = m.index
            ents = sorted([int(a), int(b), int(c), int(d), w_rat(float(m.data[a, b, c, d]))]
                          for a, b, c, d in zip(*np.where(~np.isnan(m.data))))
            mat = {"ok": {"slices": [w_meta(x) for x in ix.slices], "fields": list(ix.fields),
                          "exp_origin": int(ix.exp_origin), "dev_origin": int(ix.dev_origin),
                          "exp_resolution": int(ix.exp_resolution), "dev_resolution": int(ix.dev_resolution),
                          "shape": [int(x) for x in m.data.shape], "incremental": bool(m.incremental), "entries": ents}}
            back = dump(call(matrix_to_triangle, m))
        else:
            mat, back = {"err": m}, {"err": m}
        reqs.append({"op": "matrix_opt", "cells": wire, "eval_resolution": ev, "fields": fs})
        info.append(("matrix_opt", case, mat, back))


# ---- the rest of io/array.py: statics frame, right-edge frame, all arguments of the array frame ----

def spell_period(rng, d, res):
    """the period as a caller may write it: a date, or one of the documented strings"""
    r = rng.random()
    if r < 0.5:
        return d, ["d", w_date(d)]
    forms = ["%04d-%02d-%02d" % (d.year, d.month, d.day), "%04d-%02d" % (d.year, d.month)]
    if d.month == 1:
        forms.append("%04d" % d.year)
    if d.month % 3 == 1:
        forms.append("%04dQ%d" % (d.year, (d.month - 1) // 3 + 1))
    if d.month in (1, 7):
        forms.append("%04dH%d" % (d.year, 1 if d.month == 1 else 2))
    txt = rng.choice(forms)
    if rng.random() < 0.1:
        txt = " " + txt + " "
    return txt, ["s", txt]


def period_starts(rng, i, res=None):
    res = res or [1, 3, 6, 12][i % 4]
    m = (i // 4) % 12 + 1                      # every start month, deterministically
    start = D(rng.randrange(1995, 2025), m, 1)
    n = rng.randrange(2, 6) if rng.random() < 0.9 else 1
    return res, [gen.add_months_int(start, k * res) for k in range(n)]


def statics_stream(ctx, rng, n, reqs, info):
    for i in range(n):
        res, starts = period_starts(rng, i)
        fields = rng.sample(gen.FIELDS, rng.randrange(1, 4))
        style = rng.random() < 0.5
        spelled = [spell_period(rng, d, res) if style else (d, ["d", w_date(d)]) for d in starts]
        data = {"period": [x[0] for x in spelled]}
        for f in fields:
            k = rng.choice(["int", "float"])
            data[f] = [gen.rand_value(rng, k) for _ in starts]
        df = pd.DataFrame(data)
        if rng.random() < 0.2:
            df = df.rename(columns={"period": "accident_period"})
        kw = {}
        if rng.random() < 0.5:
            kw["period_resolution"] = res
        if rng.random() < 0.5:
            last_end = gen.add_months_int(starts[-1], res - 1, end=True)
            kw["evaluation_date"] = gen.add_months_int(last_end, rng.randrange(0, 25), end=True)
        md = None
        if rng.random() < 0.5:
            md = rand_metas(rng, 1)[0][0]
            kw["metadata"] = md
        ctx.count(f"statics/res={res}" + ("" if "period_resolution" in kw else " (inferred)"))
        rows = [[sp[1], [[f, w_val(data[f][j])] for f in fields]] for j, sp in enumerate(spelled)]
        ctx.case(digest=json.dumps(["statics", rows, {k: str(v) for k, v in kw.items()}], sort_keys=True), nontrivial=True,
                 sample={"stream": "statics", "res": res, "rows": len(starts), "args": sorted(kw)} if i < 1 else None)
        case = {"rows": rows, "args": {k: str(v) for k, v in kw.items()}}
        snap = df.copy()
        impl = dump(call(Triangle.from_statics_data_frame, df, **kw))
        if not snap.equals(df) or list(snap.columns) != list(df.columns):
            ctx.fail("from_statics_data_frame changed the caller's frame", case)
        if rng.random() < 0.3:
            ctx.count("sequence/statics frame read twice")
            if dump(call(Triangle.from_statics_data_frame, df, **kw)) != impl:
                ctx.fail("from_statics_data_frame: a second call on the same frame differs", case)
        spec_res = kw.get("period_resolution", month_id(starts[1]) - month_id(starts[0]) if len(starts) > 1 else None)
        if "period_resolution" not in kw and len(starts) > 1 and (starts[1] - starts[0]).days // 30 != spec_res:
            # D20 (domain note, not a C14 clause): the reader infers `days // 30` — 0 for a monthly February start, 2 for
            # quarterly periods from 1 February of a non-leap year. Compared with the model only.
            ctx.count("statics/inferred resolution: days // 30 is not the month distance (model only, no Spec)")
            spec_res = None
        reqs.append({"op": "statics", "cells": [], "rows": rows, "evaluation": w_date(kw.get("evaluation_date")),
                     "res": kw.get("period_resolution"), "md": w_meta(md or Metadata()), "impl": impl, "spec_res": spec_res})
        info.append(("statics", case, impl, None))


def is_nan(x):
    return isinstance(x, (float, np.floating)) and x != x


def right_edge_stream(ctx, rng, n, reqs, info):
    for i in range(n):
        res, fields, md, cells = regular_single_slice(rng, i)
        variant = rng.choice(["plain"] * 6 + ["two-slices", "incremental", "arrays", "ragged-fields"])
        if variant == "two-slices":
            other = rand_metas(rng, 2)[0][1]
            cells = cells + [c.replace(metadata=other) for c in cells[:2]]
        elif variant == "incremental":
            rows = gen.layout_regular(rng, res=res, n_periods=2, n_lags=2)
            cells = gen.cells_from_layout(rng, rows, md, kind="I", fields=fields, vkind="int")
        elif variant == "arrays":
            cells = [c.replace(values={f: gen.rand_value(rng, "farr", 3) for f in c.values}) for c in cells]
        elif variant == "ragged-fields":
            cells = [c.replace(values={f: v for f, v in c.values.items() if rng.random() < 0.7} or dict(c.values)) for c in cells]
        t = Triangle(cells)
        wire = w_cells(t.cells)
        ctx.count(f"right edge/{variant}")
        ctx.case(digest=json.dumps(["right_edge", [canon_cell(w) for w in wire]], sort_keys=True), nontrivial=len(t) > 1)
        case = {"cells": wire, "variant": variant}
        st, df = call(t.to_right_edge_data_frame)
        if st == "ok" and rng.random() < 0.3:
            snap = df.copy()
            df.iloc[:, 2:] = 0
            st, df = call(t.to_right_edge_data_frame)
            ctx.count("sequence/right-edge frame asked twice")
            if st != "ok" or not snap.equals(df):
                ctx.fail("to_right_edge_data_frame: a second call (after editing the first result in place) differs", case)
                continue
        req = {"op": "right_edge", "cells": wire, "md": w_meta(md), "res": res, "evaluation": None}
        impl_rows, back = None, None
        if st == "ok":
            impl_rows = []
            for _, row in df.iterrows():
                ents = [[c, w_val(row[c].item() if isinstance(row[c], np.generic) else row[c])]
                        for c in df.columns[2:] if not is_nan(row[c]) and row[c] is not None]
                impl_rows.append([w_date(row["period"]), w_date(row["evaluation_date"]), ents])
            evs = sorted(set(df["evaluation_date"]))
            whole = len(df) > 0 and not any(is_nan(x) or x is None for c in df.columns[2:] for x in df[c])
            if len(evs) == 1 and whole and variant != "arrays":
                # the frame without its evaluation column is a statics frame: read it back
                req["evaluation"] = w_date(evs[0])
                back = dump(call(Triangle.from_statics_data_frame, df.drop(columns=["evaluation_date"]),
                                 evaluation_date=evs[0], period_resolution=res, metadata=md))
                ctx.count("right edge/read back as statics frame")
                req["impl_back"] = back
            req["impl_rows"] = impl_rows
        reqs.append(req)
        info.append(("right_edge", case, {"ok": impl_rows} if st == "ok" else {"err": df}, back))


def array_frame(rng, i, field_kind=None):
    res, starts = period_starts(rng, i)
    n_cols = rng.randrange(1, 6)
    label_kind = rng.choice(["int-str", "int-str", "int", "name"])
    step = rng.choice([res, res, 1, 3, 6, 12])
    first = rng.choice([0, 0, step])
    lags = [first + k * step for k in range(n_cols)]
    labels = ([str(x) for x in lags] if label_kind == "int-str" else list(lags) if label_kind == "int"
              else [f"dev_{k + 1}" for k in range(n_cols)])
    shape = rng.choice(["square", "triangle", "holey"])
    fk = field_kind or rng.choice(["int", "float"])
    grid = []
    for r in range(len(starts)):
        row = []
        for k in range(n_cols):
            gone = (shape == "triangle" and k >= n_cols - r and k > 0) or (shape == "holey" and rng.random() < 0.25)
            row.append(float("nan") if gone else gen.rand_value(rng, fk))
        grid.append(row)
    return res, starts, labels, grid


def frame_of(rng, starts, res, labels, grid, style):
    spelled = [spell_period(rng, d, res) if style else (d, ["d", w_date(d)]) for d in starts]
    df = pd.DataFrame({"period": [x[0] for x in spelled], **{lab: [row[k] for row in grid] for k, lab in enumerate(labels)}})
    wire = {"cols": [str(x) for x in labels],
            "rows": [[sp[1], [None if is_nan(v) else w_val(v) for v in row]] for sp, row in zip(spelled, grid)]}
    return df, wire


def array_kwargs(rng, res, labels):
    kw = {}
    if rng.random() < 0.5:
        kw["period_resolution"] = res
    if rng.random() < 0.3:
        kw["eval_resolution"] = rng.choice([1, 3, 6, 12])
    if rng.random() < 0.3:
        kw["dev_lag_from_period_end"] = rng.random() < 0.3
    md = None
    if rng.random() < 0.5:
        md = rand_metas(rng, 1)[0][0]
        kw["metadata"] = md
    return kw, md


def array_full_stream(ctx, rng, n, reqs, info):
    import warnings
    from bermuda.io.array import array_triangle_builder
    for i in range(n):
        res, starts, labels, grid = array_frame(rng, i)
        kw, md = array_kwargs(rng, res, labels)
        builder = rng.random() < 0.3
        style = rng.random() < 0.4
        spec_res = kw.get("period_resolution", month_id(starts[1]) - month_id(starts[0]) if len(starts) > 1 else None)
        base = {"cells": [], "md": w_meta(md or Metadata()), "res": kw.get("period_resolution"),
                "eval_res": kw.get("eval_resolution"), "from_end": kw.get("dev_lag_from_period_end"), "spec_res": spec_res}
        with warnings.catch_warnings():
            warnings.simplefilter("ignore")
            if not builder:
                field = rng.choice(gen.FIELDS)
                df, wire = frame_of(rng, starts, res, labels, grid, style)
                ctx.count("array frame/args: " + (", ".join(sorted(k for k in kw if k != "metadata")) or "defaults"))
                ctx.count(f"array frame/labels {'integers' if not str(labels[0]).startswith('dev') else 'names'}")
                ctx.case(digest=json.dumps(["array_full", wire, field, {k: str(v) for k, v in kw.items()}], sort_keys=True),
                         nontrivial=True)
                case = {"frame": wire, "field": field, "args": {k: str(v) for k, v in kw.items()}}
                snap = df.copy()
                impl = dump(call(Triangle.from_array_data_frame, df, field, **kw))
                if not snap.equals(df) or list(snap.columns) != list(df.columns):
                    ctx.fail("from_array_data_frame changed the caller's frame", case)
                reqs.append({"op": "array_full", "frame": wire, "field": field, "impl": impl, **base})
                info.append(("array_full", case, impl, None))
            else:
                n_f = rng.randrange(1, 4)
                fields = rng.sample(gen.FIELDS, n_f)
                if n_f > 1 and rng.random() < 0.3:
                    fields[-1] = fields[0]                 # the same field twice: the later frame wins
                dfs, wires = [], []
                for _ in range(n_f):
                    g2 = [[float("nan") if (is_nan(v) and rng.random() < 0.7) or rng.random() < 0.1 else gen.rand_value(rng, "int")
                           for v in row] for row in grid]
                    df, wire = frame_of(rng, starts, res, labels, g2, style)
                    dfs.append(df)
                    wires.append(wire)
                if rng.random() < 0.1:
                    fields = fields + ["case_reserve"]     # lengths differ: ValueError
                ctx.count(f"array builder/frames={len(dfs)}")
                ctx.case(digest=json.dumps(["builder", wires, fields, {k: str(v) for k, v in kw.items()}], sort_keys=True),
                         nontrivial=True)
                case = {"frames": wires, "fields": fields, "args": {k: str(v) for k, v in kw.items()}}
                impl = dump(call(array_triangle_builder, dfs, fields, **kw))
                reqs.append({"op": "builder", "frames": wires, "fields": fields, "impl": impl, **base})
                info.append(("builder", case, impl, None))


PARSE_TEXTS = ["2020", "1999", "2020Q1", "2020Q2", "2020Q3", "2020Q4", "2021H1", "2021H2", "2020-05-01", "2020-12-31",
               "2020-02-29", "2021-07", " 2020Q1 ", "2020H1 ", "2020H3", "abc", "2021-02-30", "2020Q5", "20201"]


def parse_date_stream(ctx, rng, reqs, info):
    from bermuda.io.array import parse_date
    texts = list(PARSE_TEXTS)
    for _ in range(20):
        y, m = rng.randrange(1990, 2031), rng.randrange(1, 13)
        texts += ["%04d" % y, "%04dQ%d" % (y, (m - 1) // 3 + 1), "%04dH%d" % (y, 1 + (m > 6)), "%04d-%02d" % (y, m),
                  "%04d-%02d-%02d" % (y, m, rng.randrange(1, 29))]
    impl = []
    for s in texts:
        st, v = call(parse_date, s)
        impl.append({"ok": w_date(v)} if st == "ok" and v is not None else {"err": v if st != "ok" else "None"})
    ctx.count("parse_date/texts", len(texts))
    ctx.case(digest=json.dumps(["parse_date", texts]), nontrivial=True)
    reqs.append({"op": "parse_date", "cells": [], "texts": texts})
    info.append(("parse_date", {"texts": texts}, impl, None))


# ---- chainladder (third-party package, NOT modelled: Spec on the implementation's round trip only) ----

def chain_ladder_stream(ctx, rng, n, reqs, info):
    try:
        import chainladder  # noqa: F401
    except Exception:  # noqa: BLE001
        ctx.count("chain ladder/package not importable (skipped)")
        return
    import warnings
    from bermuda.io.chain_ladder import chain_ladder_to_triangle, triangle_to_chain_ladder
    for i in range(n):
        res = [12, 3, 1][i % 3]
        rows = gen.layout_regular(rng, res=res, n_periods=rng.randrange(2, 5), n_lags=rng.randrange(2, 5),
                                  shape=rng.choice(["square", "triangle"]))
        n_fields = 1 if rng.random() < 0.75 else 2
        fields = rng.sample(gen.FIELDS, n_fields)
        cells = gen.cells_from_layout(rng, rows, Metadata(), kind=rng.choice(["C", "U"]), fields=fields,
                                      vkind=rng.choice(["int", "float"]))
        # chainladder keeps a cumulative triangle's cells up to the latest diagonal: values must be positive
        cells = [c.replace(values={k: v + 1 for k, v in c.values.items()}) for c in cells]
        t = Triangle(cells)
        wire = w_cells(t.cells)
        ctx.count(f"chain ladder/res={res} fields={n_fields}")
        ctx.case(digest=json.dumps(["chain_ladder", [canon_cell(w) for w in wire]], sort_keys=True), nontrivial=True)
        case = {"cells": wire, "res": res}
        with warnings.catch_warnings():
            warnings.simplefilter("ignore")
            st, cl = call(triangle_to_chain_ladder, t)
            back = dump(call(chain_ladder_to_triangle, cl)) if st == "ok" else {"err": cl}
        if st == "ok" and {"Y": 12, "Q": 3, "M": 1}.get(getattr(cl, "origin_grain", None)) != res:
            # the chainladder object carries period STARTS only; the period length is what chainladder infers as
            # its origin grain (third-party behaviour, e.g. "M" for some quarterly triangles): outside the Spec
            ctx.count("chain ladder/chainladder inferred another origin grain (no Spec)")
            continue
        if "err" in back:
            if n_fields > 1 and back["err"] == "KeyError":
                # observation D22 (not a clause of C14): a one-slice chainladder triangle with several columns is
                # read through the one-column branch (`melt(id_vars="index")`) and raises KeyError
                ctx.count("chain ladder/one slice, several fields: KeyError (observation D22)")
                continue
            ctx.fail(f"chain ladder round trip raised {back['err']}", case)
            continue
        reqs.append({"op": "back_spec", "cells": wire, "impl_back": back})
        info.append(("chain_ladder", case, back, None))


# ---- CSV text -> table wire (independent reader: the csv module) -----------------------------------

DATE_COLS = {"period_start", "period_end", "evaluation_date", "prev_evaluation_date"}
STR_COLS = {"risk_basis", "country", "currency", "reinsurance_basis", "loss_definition", "field"}


def entry(col, text, numeric_details):
    if text == "":
        return None
    if col in DATE_COLS:
        d = D.fromisoformat(text[:10])
        return ["d", w_date(d)]
    if col in STR_COLS:
        return ["s", text]
    if col in numeric_details or col in ("scenario", "value", "per_occurrence_limit") or col in gen.FIELDS:
        return ["n", w_rat(float(text))]
    return ["s", text]


def read_csv_table(path, numeric_details):
    with open(path, newline="", encoding="utf-8") as f:
        rd = csv.reader(f)
        cols = next(rd)
        rows = [[[c, entry(c, x, numeric_details)] for c, x in zip(cols, r)] for r in rd]
    return {"cols": cols, "rows": rows}


def canon_row(r):
    return sorted(([c, v] for c, v in r if v is not None), key=lambda cv: cv[0])


def num_canon(v):
    """numeric content of a wire value: ints as floats, size-1 / 0-d arrays as their scalar"""
    if v is None:
        return None
    if v[0] in ("i", "f"):
        return ["f", w_rat(Fraction(v[1]))]
    data = [w_rat(Fraction(x)) for x in v[3]]
    if len(data) == 1:
        return ["f", data[0]]
    return ["a", data]


def canon_num_cells(ws, merge_loss=False):
    out = []
    for w in ws:
        d = dict(w)
        d["k"] = "U" if d["k"] == "C" else d["k"]
        d["v"] = sorted(([k, num_canon(v)] for k, v in d["v"]), key=lambda kv: kv[0])
        if merge_loss:
            m = dict(d["m"])
            m["det"] = sorted(m["det"] + m["ldet"], key=lambda kv: kv[0])
            m["ldet"] = []
            d["m"] = m
        out.append(d)
    return out


def dump(res):
    st, v = res
    if st != "ok":
        return {"err": v}
    try:
        return {"ok": w_cells(v.cells)}
    except Exception as e:  # noqa: BLE001
        # a result the wire form cannot carry (e.g. np.array([None, None], dtype=object) as a cell value, D24) is an
        # observable of the implementation, not a harness failure
        bad = next(((k, repr(x)) for c in v.cells for k, x in c.values.items()
                    if isinstance(x, np.ndarray) and x.dtype == object), None)
        return {"err": f"a result with a non-numeric cell value {bad} ({type(e).__name__})"}


def same(model, impl, merge_model=False):
    if "err" in model or "err" in impl:
        return ("err" in model) == ("err" in impl)
    return canon_num_cells(model["ok"]) == canon_num_cells(impl["ok"])


# ---- correspondence ---------------------------------------------------------------------------

def correspondence(ctx):
    rng = ctx.rng
    drv = common.Driver("drv_c14")
    n_csv = 2500 if ctx.thorough else 110
    n_arr = 1200 if ctx.thorough else 50
    n_mat = 1300 if ctx.thorough else 50
    reqs, info = [], []

    with tempfile.TemporaryDirectory(prefix="verif-c14-") as td:
        wide_p, long_p = os.path.join(td, "w.csv"), os.path.join(td, "l.csv")
        # (i) wide and long CSV
        pending_twin = None
        for i in range(n_csv):
            if pending_twin is not None:
                # sequence: the previous triangle again, its detail / loss-detail columns under OTHER names (same values):
                # two loads in one process whose files differ in column names only
                stream, how, cells = pending_twin
                pending_twin = None
                ctx.count("sequence/csv: previous triangle with renamed detail columns")
            else:
                stream, how, cells = rand_csv_cells(rng)
                if rng.random() < 0.3 and any(c.metadata.details or c.metadata.loss_details for c in cells):
                    pending_twin = (stream, how, rename_details(rng, cells))
            t = Triangle(cells)
            wire = w_cells(t.cells)
            fields = sorted({k for c in t.cells for k in c.values})
            det_keys = sorted({k for m in t.metadata for k in m.details})
            ldet_keys = sorted({k for m in t.metadata for k in m.loss_details})
            numeric = {k for m in t.metadata for d in (m.details, m.loss_details) for k, v in d.items()
                       if not isinstance(v, str)}
            desc = {"stream": stream, "slices": len(t.metadata), "cells": len(t), "differ_in": sorted(set(how))}
            ctx.count(f"csv/{stream}")
            ctx.count(f"csv/slices={len(t.metadata)}")
            for h in how:
                ctx.count(f"csv/slices differ in {h}")
            ctx.case(digest=json.dumps([canon_cell(w) for w in wire], sort_keys=True), nontrivial=True,
                     sample=desc if i < 3 else None)
            case = {"cells": wire, "stream": stream}
            # the files are written once (twice for a share of the cases: identical text), then read back by
            # several readers with explicit vs inferred column lists IN RANDOM ORDER within this process
            rng.shuffle(fields)
            st_w, r_w = call(t.to_wide_csv, wide_p)
            st_l, r_l = call(t.to_long_csv, long_p)
            if st_w != "ok":
                ctx.fail(f"to_wide_csv raised {r_w}", case)
            if st_l != "ok":
                ctx.fail(f"to_long_csv raised {r_l}", case)
            if rng.random() < 0.25 and st_w == "ok" and st_l == "ok":
                w1, l1 = open(wide_p, "rb").read(), open(long_p, "rb").read()
                call(t.to_wide_csv, wide_p)
                call(t.to_long_csv, long_p)
                ctx.count("sequence/csv written twice")
                if open(wide_p, "rb").read() != w1 or open(long_p, "rb").read() != l1:
                    ctx.fail("writing the same triangle to CSV a second time gives a different file", case)
            if w_cells(t.cells) != wire:
                ctx.fail("writing a CSV changed the triangle", case)
            wtable = read_csv_table(wide_p, numeric) if st_w == "ok" else None
            ltable = read_csv_table(long_p, numeric) if st_l == "ok" else None
            dcols = [c for c in (wtable["cols"] if wtable else []) if c in det_keys or c in ldet_keys]
            readers = []
            if wtable is not None:
                readers += [("wide", dict(field_cols=list(fields), loss_detail_cols=list(ldet_keys))),
                            ("wide[detail_cols given, fields inferred]",
                             dict(detail_cols=list(dcols), loss_detail_cols=list(ldet_keys))),
                            ("wide[both given]", dict(field_cols=list(fields), detail_cols=list(dcols),
                                                      loss_detail_cols=list(ldet_keys)))]
            if ltable is not None:
                readers += [("long", None), ("long+loss_detail_cols", None)]
            rng.shuffle(readers)
            if rng.random() < 0.2 and readers:
                readers.append(readers[0])          # the same reader once more
            # the in-memory frames (no CSV text): column types the writers produce, and the readers on them
            def date_dtypes(df):
                out = {}
                for c in ("period_start", "period_end", "evaluation_date", "prev_evaluation_date"):
                    if c in df.columns:
                        out[c] = ("datetime64" if pd.api.types.is_datetime64_any_dtype(df[c]) else
                                  "period" if isinstance(df[c].dtype, pd.PeriodDtype) else "dates")
                return out
            if rng.random() < 0.5:
                st_wf, wf = call(t.to_wide_data_frame)
                st_lf, lf = call(t.to_long_data_frame)
                if st_wf == "ok" and st_lf == "ok":
                    fdc = [c for c in wf.columns if c in det_keys or c in ldet_keys]
                    iw = dump(call(Triangle.from_wide_data_frame, wf.copy(), field_cols=sorted(fields),
                                   loss_detail_cols=list(ldet_keys)))
                    il = dump(call(Triangle.from_long_data_frame, lf.copy(), loss_detail_cols=list(ldet_keys)))
                    ctx.count("data frame (no CSV)/wide " + ("read back" if "ok" in iw else "refused " + iw["err"]))
                    ctx.count("data frame (no CSV)/long " + ("read back" if "ok" in il else "refused " + il["err"]))
                    reqs.append({"op": "frame_roundtrip", "cells": wire, "field_cols": sorted(fields), "detail_cols": fdc,
                                 "loss_detail_cols": ldet_keys, "impl_wide": iw})
                    info.append(("frame", case, (iw, il), (date_dtypes(wf), date_dtypes(lf))))
            first_wide = True
            for name, kw in readers:
                ctx.count(f"csv reader/{name}")
                if name.startswith("wide"):
                    loaded = dump(call(Triangle.from_wide_csv, wide_p, **kw))
                    req = {"op": "wide", "cells": wire, "field_cols": sorted(fields), "detail_cols": dcols,
                           "loss_detail_cols": ldet_keys, "impl_loaded": loaded.get("ok"),
                           # the lists as handed to the reader (None = left out: the model infers it like the code)
                           "fc": kw.get("field_cols"), "dc": kw.get("detail_cols")}
                    if first_wide:
                        req.update(impl_table=wtable, impl_nrows=len(wtable["rows"]))
                    reqs.append(req)
                    info.append((name, case, wtable if first_wide else None, loaded))
                    first_wide = False
                elif name == "long":
                    # from_long_csv has no loss_detail_cols: loss details come back as details
                    loaded = dump(call(Triangle.from_long_csv, long_p))
                    reqs.append({"op": "long", "cells": wire, "loss_detail_cols": [], "impl_table": ltable,
                                 "impl_loaded": loaded.get("ok"), "impl_nrows": len(ltable["rows"])})
                    info.append(("long", case, ltable, loaded))
                else:
                    def via_frame():
                        df = pd.read_csv(long_p, parse_dates=[c for c in ("period_start", "period_end", "evaluation_date",
                                                                          "prev_evaluation_date") if c in ltable["cols"]])
                        return Triangle.from_long_data_frame(df, loss_detail_cols=list(ldet_keys))
                    loaded2 = dump(call(via_frame))
                    reqs.append({"op": "long", "cells": wire, "loss_detail_cols": ldet_keys, "impl_table": ltable,
                                 "impl_loaded": loaded2.get("ok")})
                    info.append(("long+loss_detail_cols", case, None, loaded2))

        # (ii) array data frame
        for i in range(n_arr):
            res, fields, md, cells = regular_single_slice(rng, i)
            t = Triangle(cells)
            wire = w_cells(t.cells)
            field = fields[0]
            ctx.count(f"array/res={res}")
            ctx.count(f"array/periods={len(t.periods)}")
            ctx.case(digest=json.dumps(["array", [canon_cell(w) for w in wire]], sort_keys=True), nontrivial=len(t) > 1,
                     sample={"stream": "array", "res": res, "cells": len(t), "first_period": str(t.periods[0][0])} if i < 1 else None)
            case = {"cells": wire, "field": field, "res": res}
            st, df = call(t.to_array_data_frame, field)
            if st != "ok":
                ctx.fail(f"to_array_data_frame raised {df}", case)
                continue
            if rng.random() < 0.3:
                # sequence: edit the returned frame in place, read it back once, then ask again
                snap = df.copy()
                call(Triangle.from_array_data_frame, df, field, metadata=md, period_resolution=res)
                df.iloc[:, 1:] = 0
                st2, df2 = call(t.to_array_data_frame, field)
                ctx.count("sequence/array frame asked twice")
                if st2 != "ok" or not snap.equals(df2):
                    ctx.fail("to_array_data_frame: a second call (after editing the first result in place) differs", case)
                    continue
                df = df2
            frame = []
            for _, row in df.iterrows():
                ents = [[int(c), w_val(row[c] if not isinstance(row[c], np.generic) else row[c].item())]
                        for c in df.columns[1:] if not pd.isna(row[c])]
                frame.append([w_date(row["period"]), ents])
            only = t.select([field])
            want = w_cells(only.cells)
            exp = dump(call(Triangle.from_array_data_frame, df.copy(), field, period_resolution=res, metadata=md))
            inf = dump(call(Triangle.from_array_data_frame, df.copy(), field, metadata=md))
            reqs.append({"op": "array", "cells": want, "field": field, "md": w_meta(md), "res": res,
                         "impl_explicit": exp, "impl_inferred": inf if len(t.periods) > 1 else None})
            info.append(("array", case, frame, (exp, inf, len(t.periods))))

        # (iii) Matrix
        for i in range(n_mat):
            desc, cells = matrix_cells(rng)
            if not cells:
                continue
            t = Triangle(cells)
            wire = w_cells(t.cells)
            ctx.count(f"matrix/exp={desc['e']}/{desc['style']}")
            ctx.count("matrix/holey" if desc["holey"] else "matrix/complete")
            ctx.case(digest=json.dumps(["matrix", [canon_cell(w) for w in wire]], sort_keys=True), nontrivial=len(t) > 1,
                     sample={"stream": "matrix", **desc, "cells": len(t)} if i < 1 else None)
            case = {"cells": wire, **desc}
            desc["representable"] = matrix_representable(t)
            ctx.count("matrix/representable" if desc["representable"] else "matrix/lags off the index grid (no Spec)")
            st, m = call(triangle_to_matrix, t)
            if st == "ok" and rng.random() < 0.3:
                # sequence: wipe the returned data in place, convert it back once, then ask again
                snap = m.data.copy()
                m.data[...] = 0
                call(matrix_to_triangle, m)
                st, m = call(triangle_to_matrix, t)
                ctx.count("sequence/matrix asked twice")
                if st != "ok" or not np.array_equal(snap, m.data, equal_nan=True):
                    ctx.fail("triangle_to_matrix: a second call (after wiping the first result in place) differs", case)
                    continue
            if st == "ok":
                ix = m.index
                ents = sorted([int(a), int(b), int(c), int(d), w_rat(float(m.data[a, b, c, d]))]
                              for a, b, c, d in zip(*np.where(~np.isnan(m.data))))
                mat = {"ok": {"slices": [w_meta(s) for s in ix.slices], "fields": list(ix.fields),
                              "exp_origin": int(ix.exp_origin), "dev_origin": int(ix.dev_origin),
                              "exp_resolution": int(ix.exp_resolution), "dev_resolution": int(ix.dev_resolution),
                              "shape": [int(x) for x in m.data.shape], "incremental": bool(m.incremental),
                              "entries": ents}}
                back = dump(call(matrix_to_triangle, m))
                ctx.count(f"matrix/exp={ix.exp_resolution} dev={ix.dev_resolution}")
            else:
                mat, back = {"err": m}, {"err": m}
                ctx.count("matrix/refused")
            reqs.append({"op": "matrix", "cells": wire, "impl_back": back.get("ok")})
            info.append(("matrix" if desc["representable"] else "matrix-offgrid", case, mat, back))

        # (iv) rich matrix, (v) Matrix with eval_resolution / fields arguments
        rich_stream(ctx, rng, 1500 if ctx.thorough else 120, reqs, info)
        matrix_opt_stream(ctx, rng, 400 if ctx.thorough else 30, reqs, info)

        # (vi) statics frame, right-edge frame, array frame with all arguments, builder, parse_date
        statics_stream(ctx, rng, 600 if ctx.thorough else 48, reqs, info)
        right_edge_stream(ctx, rng, 400 if ctx.thorough else 30, reqs, info)
        array_full_stream(ctx, rng, 900 if ctx.thorough else 60, reqs, info)
        parse_date_stream(ctx, rng, reqs, info)
        chain_ladder_stream(ctx, rng, 150 if ctx.thorough else 12, reqs, info)

        outs = drv.run(reqs)

    for (kind, case, impl_a, impl_b), req, out in zip(info, reqs, outs):
        if kind.startswith("wide") or kind.startswith("long"):
            table, loaded = impl_a, impl_b
            what = {"long": "long CSV", "long+loss_detail_cols": "long CSV via from_long_data_frame"}.get(
                kind, kind.replace("wide", "wide CSV", 1))
            if "err" in loaded:
                ctx.fail(f"{what}: reading back the library's own file raised {loaded['err']}", case)
            else:
                spec = out["spec"]
                if not spec["slices"]:
                    ctx.fail(f"{what}: the slices of the original are not kept apart", case, {"loaded": loaded["ok"]})
                elif not spec["roundtrip"]:
                    ctx.fail(f"{what}: write then read is not the original triangle", case, {"loaded": loaded["ok"]})
            if out.get("rowspec") is False and table is not None:
                ctx.fail(f"{what}: number of rows is not one per cell and scenario" + (" and field" if kind.startswith("long") else ""),
                         case, {"rows": len(table["rows"])})
            if table is not None:
                mt = out["table"]
                if "err" in mt:
                    ctx.disagree(f"{what} rows (model refuses)", case, mt, None)
                else:
                    if sorted(mt["ok"]["cols"]) != sorted(table["cols"]):
                        ctx.disagree(f"{what} columns", case, sorted(mt["ok"]["cols"]), sorted(table["cols"]))
                    elif [canon_row(r) for r in mt["ok"]["rows"]] != [canon_row(r) for r in table["rows"]]:
                        a = [canon_row(r) for r in mt["ok"]["rows"]]
                        b = [canon_row(r) for r in table["rows"]]
                        k = next((j for j, (x, y) in enumerate(zip(a, b)) if x != y), min(len(a), len(b)))
                        ctx.disagree(f"{what} rows (csv module vs model), first difference at row {k}", case,
                                     a[k:k + 1], b[k:k + 1])
            if not same(out["back"], loaded):
                ctx.disagree(f"{what}: from(to(t))", case, out["back"], loaded)
            if out.get("impl_table_back") is not None and not same(out["impl_table_back"], loaded):
                ctx.disagree(f"{what}: reader on the implementation's own table", case, out["impl_table_back"], loaded)
        elif kind == "array":
            frame, (exp, inf, n_periods) = impl_a, impl_b
            if out["spec_explicit"] is False:
                ctx.fail("array frame round trip (period_resolution given) is not the original triangle", case, {"loaded": exp})
            if n_periods > 1 and out["spec_inferred"] is False:
                ctx.fail("array frame round trip (period_resolution inferred) is not the original triangle", case, {"loaded": inf})
            mf = out["frame"]
            if "err" in mf:
                ctx.disagree("array frame (model refuses)", case, mf, None)
            else:
                a = [[p, sorted([k, num_canon(v)] for k, v in es)] for p, es in mf["ok"]]
                b = [[p, sorted([k, num_canon(v)] for k, v in es)] for p, es in frame]
                if a != b:
                    ctx.disagree("to_array_data_frame", case, a, b)
            if not same(out["back_explicit"], exp):
                ctx.disagree("from_array_data_frame(period_resolution=res)", case, out["back_explicit"], exp)
            if not same(out["back_inferred"], inf):
                ctx.disagree("from_array_data_frame(inferred resolution)", case, out["back_inferred"], inf)
        elif kind in ("statics", "array_full", "builder"):
            impl = impl_a
            what = {"statics": "from_statics_data_frame", "array_full": "from_array_data_frame (all arguments)",
                    "builder": "array_triangle_builder"}[kind]
            if ("err" in out["back"]) != ("err" in impl) or ("err" in impl and out["back"]["err"] != impl["err"]):
                ctx.disagree(f"{what} accepts/refuses (error class)", case, out["back"], impl)
            elif "ok" in impl:
                if not same(out["back"], impl):
                    ctx.disagree(what, case, out["back"], impl)
                if out["spec"] is False:
                    ctx.fail(f"{what}: the triangle is not the one the frame stands for", case, {"loaded": impl["ok"]})
        elif kind == "right_edge":
            rows, back = impl_a, impl_b
            mf = out["frame"]
            if ("err" in mf) != ("err" in rows) or ("err" in mf and mf["err"] != rows["err"]):
                ctx.disagree("to_right_edge_data_frame accepts/refuses (error class)", case, mf, rows)
            elif "ok" in mf:
                a = [[p, e, sorted([k, num_canon(v)] for k, v in es if v is not None)] for p, e, es in mf["ok"]]
                b = [[p, e, sorted([k, num_canon(v)] for k, v in es)] for p, e, es in rows["ok"]]
                if a != b:
                    ctx.disagree("to_right_edge_data_frame rows", case, a, b)
                if out["spec"] is False:
                    ctx.fail("right-edge frame: not one row per period with the latest evaluation of that period", case,
                             {"rows": rows["ok"]})
                if back is not None:
                    if "err" in back:
                        ctx.fail(f"right-edge frame read back as statics frame raised {back['err']}", case)
                    else:
                        if not same(out["back"], back):
                            ctx.disagree("from_statics_data_frame(to_right_edge_data_frame(t) without evaluation_date)", case,
                                         out["back"], back)
                        if out["back_spec"] is False:
                            ctx.fail("right-edge frame read back as statics frame: not the latest cell of every period", case,
                                     {"loaded": back["ok"]})
        elif kind == "parse_date":
            for s_, a, b in zip(case["texts"], out["dates"], impl_a):
                if ("err" in a) != ("err" in b) or ("ok" in a and a["ok"] != b["ok"]) or \
                        ("err" in a and b["err"] != "ValueError"):
                    ctx.disagree(f"parse_date({s_!r})", {"text": s_}, a, b)
        elif kind == "frame":
            (iw, il), (dw, dl) = impl_a, impl_b
            if out["wide_dtypes"] != dw:
                ctx.disagree("to_wide_data_frame: types of the date columns", case, out["wide_dtypes"], dw)
            if out["long_dtypes"] != dl:
                ctx.disagree("to_long_data_frame: types of the date columns", case, out["long_dtypes"], dl)
            for nm, m_, i_ in (("wide", out["wide"], iw), ("long", out["long"], il)):
                if ("err" in m_) != ("err" in i_) or ("err" in m_ and m_["err"] != i_["err"]):
                    ctx.disagree(f"from_{nm}_data_frame(to_{nm}_data_frame(t)) accepts/refuses (error class)", case, m_, i_)
                elif "ok" in m_ and not same(m_, i_):
                    ctx.disagree(f"from_{nm}_data_frame(to_{nm}_data_frame(t))", case, m_, i_)
            if "ok" in iw and out["spec_wide"] is False:
                ctx.fail("wide data frame (no CSV): write then read is not the original triangle", case, {"loaded": iw["ok"]})
        elif kind == "chain_ladder":
            if out["spec"] is False:
                ctx.fail("chain ladder round trip (one slice, one field, default metadata) is not the original triangle", case,
                         {"loaded": impl_a["ok"]})
        elif kind == "rich":
            mat, (back, dom) = impl_a, impl_b
            mm = out["matrix"]
            if ("err" in mm) != ("err" in mat) or ("err" in mm and mm["err"] != mat["err"]):
                ctx.disagree("triangle_to_rich_matrix accepts/refuses (error class)", case, mm, mat)
            elif "ok" in mm:
                if mm["ok"] != mat["ok"]:
                    a, b = mm["ok"], mat["ok"]
                    ctx.disagree("triangle_to_rich_matrix (index, shape, entries)", case,
                                 {k: v for k, v in a.items() if b.get(k) != v}, {k: v for k, v in b.items() if a.get(k) != v})
                if "err" in back:
                    ctx.fail(f"rich_matrix_to_triangle raised {back['err']} on triangle_to_rich_matrix's output", case)
                else:
                    if out["back"] != back:
                        ctx.disagree("rich_matrix_to_triangle(triangle_to_rich_matrix(t))", case, out["back"], back)
                    if out["impl_matrix_back"] != back:
                        ctx.disagree("rich_matrix_to_triangle on the implementation's own matrix", case, out["impl_matrix_back"], back)
                    if dom["grid"]:
                        if out["placed"] is False:
                            ctx.fail("rich matrix: a cell is not at the position the index resolves / wrong kind of entry", case,
                                     {"matrix": mat["ok"]})
                        if out["nothing_else"] is False:
                            ctx.fail("rich matrix: entries other than the cells' values and the covered missing ones", case,
                                     {"matrix": mat["ok"]})
                        if dom["prev"] and out["spec"] is False:
                            ctx.fail("rich matrix round trip is not the original triangle (cells holding a value)", case,
                                     {"loaded": back["ok"]})
                    elif dom["mixed"] and dom["prev"] and out["mixed"] is False:
                        ctx.fail("rich matrix round trip: the one-index-period cells do not come back as they were", case,
                                 {"loaded": back["ok"]})
        elif kind == "matrix_opt":
            mat, back = impl_a, impl_b
            mm = out["matrix"]
            if ("err" in mm) != ("err" in mat) or ("err" in mm and mm["err"] != mat["err"]):
                ctx.disagree("triangle_to_matrix(eval_resolution, fields) accepts/refuses (error class)", case, mm, mat)
            elif "ok" in mm:
                a = dict(mm["ok"])
                a["entries"] = sorted({tuple(e[:4]): e[4] for e in a["entries"]}.items())
                b = dict(mat["ok"])
                b["entries"] = sorted({tuple(e[:4]): e[4] for e in b["entries"]}.items())
                if a != b:
                    ctx.disagree("triangle_to_matrix(eval_resolution, fields) (index, shape, entries)", case,
                                 {k: v for k, v in a.items() if b.get(k) != v}, {k: v for k, v in b.items() if a.get(k) != v})
                if not same(out["back"], back):
                    ctx.disagree("matrix_to_triangle(triangle_to_matrix(t, eval_resolution, fields))", case, out["back"], back)
        else:
            mat, back = impl_a, impl_b
            if "ok" in mat:
                if "err" in back:
                    ctx.fail(f"matrix_to_triangle raised {back['err']} on triangle_to_matrix's output", case)
                elif out["spec"] is False and kind == "matrix":
                    ctx.fail("Matrix round trip is not the original triangle", case, {"loaded": back["ok"]})
            mm = out["matrix"]
            if ("err" in mm) != ("err" in mat):
                ctx.disagree("triangle_to_matrix accepts/refuses", case, mm, mat)
            elif "ok" in mm:
                a = dict(mm["ok"])
                a["entries"] = sorted({tuple(e[:4]): e[4] for e in a["entries"]}.items())
                b = dict(mat["ok"])
                b["entries"] = sorted({tuple(e[:4]): e[4] for e in b["entries"]}.items())
                if a != b:
                    ctx.disagree("triangle_to_matrix (index, shape, entries)", case,
                                 {k: v for k, v in a.items() if b.get(k) != v}, {k: v for k, v in b.items() if a.get(k) != v})
                if not same(out["back"], back):
                    ctx.disagree("matrix_to_triangle(triangle_to_matrix(t))", case, out["back"], back)


if __name__ == "__main__":
    import translate_c14
    common.run_check(
        "C14", module="Bermuda.Properties.C14", driver_targets=["drv_c14"],
        correspondence=correspondence, level="proof", extra_translate=translate_c14.regenerate,
        rule="CSV: random triangles, 1-4 slices each differing from the first in exactly one of the eight metadata "
             "attributes (string or numeric detail / loss-detail values, added or removed keys); cumulative all-scalar "
             "(int/float, differing field sets, occasional size-1 array), cumulative all-sample (2-4 samples, int64/float64, ragged field "
             "sets in 60 % of the triangles), detail / limit values incl. 0 and 0.0, a share of triangles followed by their twin with "
             "renamed detail columns, "
             "incremental scalar; regular, ragged, day-level. Array frame: regular single-slice triangles, resolutions "
             "1/3/6/12, every start month, square/triangular/ragged. Matrix: month-aligned semi-regular 1-2 slice "
             "triangles, period length 1/3/6/12, evaluations at lag multiples of 1/3/6/12 or on a half-year / year-end "
             "grid (quarterly periods evaluated annually), complete and holey; a share with eval_resolution / fields arguments. "
             "Rich matrix: month-aligned triangles, cumulative (Cell / CumulativeCell) and incremental, 1-3 slices, complete and "
             "holey, periods of one length (grid) or long periods before / on top of short ones (disaggregation), values int / "
             "float / 0 / None / sample arrays / size-1 and empty arrays, fields absent per cell, arguments eval_resolution "
             "(None, 0, 1, 3, 6, 12) and fields (None, subsets in any order, unknown names, []). Statics frame / array frame "
             "with all arguments / array_triangle_builder: resolutions 1/3/6/12, every start month, periods spelled as dates or "
             "'YYYY' / 'YYYYQn' / 'YYYYHn' / 'YYYY-MM' / ISO strings, integer and non-integer column labels, explicit and "
             "inferred resolutions, dev_lag_from_period_end. Right-edge frame: regular single-slice triangles (+ two slices, "
             "incremental, sample arrays, ragged field sets) and its reading back as a statics frame. In-memory wide / long "
             "data frames (no CSV) for half of the CSV triangles. chainladder: one-slice triangles, Spec only. "
             "distinct = distinct canonical input dump",
        assumptions=["pandas CSV layer (text <-> table: dtype inference, NaN for empty, date parsing, float repr) is opaque / trusted",
                     "CSV-safe metadata: risk_basis not None, no empty strings, string detail values that do not parse as numbers/NaN, "
                     "detail and loss-detail keys disjoint from each other, from the attribute / coordinate / field names and 'scenario'",
                     "cumulative cells all-scalar or all-sample (equal sample counts; cells may carry different field sets, sampled ones too: D24); "
                     "incremental cells scalar; no None values; non-empty triangle",
                     "from_long_csv has no loss_detail_cols argument: loss details come back as details (stated in longSpec); "
                     "from_long_data_frame(loss_detail_cols=...) keeps them apart",
                     "numbers come back as floats; size-1 / 0-d arrays are compared as their scalar",
                     "Matrix: cumulative triangles; development lags congruent modulo min(period, evaluation) resolution",
                     "Rich matrix Spec (placement, nothing else, round trip): every period ONE index period long and on the index "
                     "grid, lags on the development grid, incremental cells with the previous evaluation date one step earlier; "
                     "with periods of different lengths (disjoint) only the one-index-period cells are required to come back; "
                     "overlapping long/short periods and off-grid lags: model = implementation only",
                     "D20 (domain note, not a clause of C14): the statics reader infers period_resolution as days // 30 — 0 for "
                     "monthly periods from February (refused), 2 for quarterly periods from 1 February of a non-leap year; such "
                     "inputs are generated and compared with the model, without Spec",
                     "D21 (domain note): to_long_data_frame types evaluation_date as period[D] and from_long_data_frame refuses it "
                     "(always); to_wide_data_frame does the same to prev_evaluation_date (incremental); modelled "
                     "(Model/FrameDF.lean), compared with the model, not reported",
                     "D22/D23 (domain notes): chainladder round trip raises KeyError for one slice with several fields; the period "
                     "length is whatever chainladder infers as origin grain. chainladder is third-party and NOT modelled",
                     "statics / array frames: no NaN in a statics row; parse_date only on the documented spellings "
                     "(pandas accepts more; '' gives NaT)"],
        trusted=["pandas read_csv / to_csv / DataFrame construction / groupby(sort, dropna=False) semantics",
                 "harness/translate_c14.py (group-by key lists observed on probe frames through a recording wrapper "
                 "around DataFrame.groupby, regenerated under the build lock each run)",
                 "numpy float formatting", "numpy object arrays (rich matrix), pandas DataFrame.iterrows / rename / to_dict",
                 "chainladder 0.8.x (opaque third-party; Spec on the round trip only)"],
    )
