"""C14 — CSV, array-frame and Matrix forms round-trip coordinates, slices and numbers (PARTIAL:
pandas' text layer — dtype inference, NaN handling, date parsing, float formatting — is trusted /
opaque; the model and the theorems are about the row algebra).

Correspondence with the Lean model (lean/Bermuda/Model/Frame.lean, driver drv_c14); the group-by
key lists of the data-frame readers are regenerated from VERIF_REPO into
lean/Bermuda/Generated/Frame.lean on every run and the model groups by THAT table.

Observables per generated triangle:
  * the wide / long CSV text, read with Python's `csv` module (independent reader) = model rows
    (row by row, as dicts; column order is a Python set order and not compared); Spec row count
  * from_wide_csv(to_wide_csv(t), field_cols, loss_detail_cols), from_long_csv(to_long_csv(t)),
    from_long_data_frame(read_csv, loss_detail_cols) = model = original (Spec `wideSpec/longSpec`:
    coordinates incl. prev, class, slice metadata, field set, numbers as floats with size-1 / 0-d
    arrays as their scalar, sample order); Spec `slicesSpec`: every slice stays separate
  * array frame (regular single slice, resolutions 1/3/6/12): frame = model, round trip with
    explicit and with inferred period_resolution = model = original
  * Matrix (month-aligned semi-regular, complete and holey, incl. quarterly periods evaluated
    annually): index, shape, entries = model; matrix_to_triangle(triangle_to_matrix(t)) = original
  * SEQUENCE (state carried between calls in one process): every CSV pair is read by five readers in
    random order — from_wide_csv with field_cols only / detail_cols only (fields inferred) / both,
    from_long_csv, from_long_data_frame(loss_detail_cols) — each checked against model and Spec, so an
    earlier read with explicit detail columns precedes later reads that infer them; a share of the
    files is written twice (identical bytes), a reader repeated; array frame and matrix are asked twice
    after the first result was edited in place; the written triangle must be unchanged.
"""
import csv
import dataclasses
import datetime
import json
import os
import tempfile
from fractions import Fraction

import numpy as np
import pandas as pd

import common
from common import call, w_cells, w_cell, w_meta, w_date, w_rat, w_val, canon_cell
import gen
import bermuda
from bermuda import Cell, CumulativeCell, IncrementalCell, Metadata, Triangle
from bermuda.io.matrix import matrix_to_triangle, triangle_to_matrix

D = datetime.date

# ---- generators (CSV-safe metadata: no '' strings — an empty CSV field reads back as NaN) --------

STR_POOL = {
    "risk_basis": ["Accident", "Policy", "Report"],
    "country": [None, "US", "DE", "ES"],
    "currency": [None, "USD", "EUR", "GBP"],
    "reinsurance_basis": [None, "Gross", "Net"],
    "loss_definition": [None, "Loss", "Loss+DCC", "Loss+LAE"],
}
LIMITS = [None, 250000, 500000.0, 1e6, 2.5]
DETAIL_KEYS = ["coverage", "state", "product"]
LOSS_DETAIL_KEYS = ["peril", "cause"]
STR_VALUES = ["BI", "PD", "CA", "NY", "a b", "x,y", "Üb"]
NUM_VALUES = [1, 2, 3, 0.5, 1.5, 10.0]
ATTRS = list(STR_POOL) + ["per_occurrence_limit", "details", "loss_details"]


def detail_value(rng, kind):
    return rng.choice(STR_VALUES if kind == "str" else NUM_VALUES)


def rand_detail_dict(rng, keys, typed):
    out = {}
    for k in rng.sample(keys, rng.randrange(0, len(keys) + 1)):
        kind = typed.setdefault(k, rng.choice(["str", "num"]))
        out[k] = detail_value(rng, kind)
    return out


def rand_metas(rng, n):
    """n distinct Metadata; each differs from the first in exactly ONE of the eight attributes"""
    typed = {}
    base = dict(
        risk_basis=rng.choice(STR_POOL["risk_basis"]), country=rng.choice(STR_POOL["country"]),
        currency=rng.choice(STR_POOL["currency"]), reinsurance_basis=rng.choice(STR_POOL["reinsurance_basis"]),
        loss_definition=rng.choice(STR_POOL["loss_definition"]), per_occurrence_limit=rng.choice(LIMITS),
        details=rand_detail_dict(rng, DETAIL_KEYS, typed), loss_details=rand_detail_dict(rng, LOSS_DETAIL_KEYS, typed))
    metas, how = [Metadata(**base)], []
    tries = 0
    while len(metas) < n and tries < 200:
        tries += 1
        attr = rng.choice(ATTRS)
        kw = dict(base)
        if attr in STR_POOL:
            kw[attr] = rng.choice(STR_POOL[attr])
        elif attr == "per_occurrence_limit":
            kw[attr] = rng.choice(LIMITS)
        else:
            keys = DETAIL_KEYS if attr == "details" else LOSS_DETAIL_KEYS
            d = dict(base[attr])
            k = rng.choice(keys)
            if k in d and rng.random() < 0.25:
                del d[k]
            else:
                d[k] = detail_value(rng, typed.setdefault(k, rng.choice(["str", "num"])))
            kw[attr] = d
        m = Metadata(**kw)
        if all(m != o for o in metas):
            metas.append(m)
            how.append(attr)
    return metas, how


def rand_csv_cells(rng):
    stream = rng.choice(["cum-scalar", "cum-scalar", "cum-sample", "inc-scalar"])
    n_slices = rng.choice([1, 2, 2, 3, 4])
    metas, how = rand_metas(rng, n_slices)
    layout = rng.choice(["regular", "ragged", "daily"])
    fields = rng.sample(gen.FIELDS, rng.randrange(1, 4))
    kind = "I" if stream == "inc-scalar" else rng.choice(["C", "U"])
    n_samples = rng.randrange(2, 5)
    fkind = {f: rng.choice(["int", "float"]) for f in fields}
    cells, rows = [], None
    # "subset" mode: slices share the periods but observe different subsets of the evaluation dates
    # (incremental cells of different slices then share coordinates but not prev_evaluation_date)
    subset = n_slices > 1 and rng.random() < 0.4
    for m in metas:
        if rows is None or (not subset and rng.random() < 0.5):
            rows = gen.layout_daily(rng) if layout == "daily" else gen.layout_regular(
                rng, shape="ragged" if layout == "ragged" else None)
        use = rows
        if subset:
            use = [(ps, pe, sorted(rng.sample(evs, rng.randrange(1, len(evs) + 1)))) for ps, pe, evs in rows]
        for c in gen.cells_from_layout(rng, use, m, kind=kind, fields=fields, vkind="int"):
            if stream == "cum-sample":
                vals = {f: gen.rand_value(rng, "iarr" if fkind[f] == "int" else "farr", n_samples) for f in fields}
            else:
                fs = [f for f in fields if rng.random() < 0.8] or fields[:1]
                vals = {f: gen.rand_value(rng, fkind[f]) for f in fs}
                if rng.random() < 0.05:
                    f0 = next(iter(vals))
                    vals[f0] = np.array([float(gen.rand_value(rng, "int"))])      # size-1 array
            cells.append(c.replace(values=vals))
    if len(cells) > 24:
        cells = rng.sample(cells, 24)
    rng.shuffle(cells)
    return stream, how, cells


def regular_single_slice(rng, i=None):
    # resolutions and start months are covered systematically (every resolution x every start month in
    # 48 consecutive cases): the inferred period resolution depends on the lengths of the first months
    res = rng.choice([1, 3, 6, 12]) if i is None else [1, 3, 6, 12][i % 4]
    n_periods = rng.randrange(2, 6) if rng.random() < 0.9 else 1
    rows = gen.layout_regular(rng, res=res, n_periods=n_periods, n_lags=rng.randrange(1, 6),
                              shape=rng.choice(["square", "triangle", "ragged"]))
    # any start month (layout_regular aligns starts to multiples of res; shift by a few months)
    shift = rng.randrange(0, 12) if i is None else ((i // 4) % 12 + 1 - rows[0][0].month) % 12   # start month (i//4)%12+1
    rows = [(gen.add_months_int(ps, shift), gen.add_months_int(pe, shift, end=True),
             [gen.add_months_int(e, shift, end=True) for e in evs]) for ps, pe, evs in rows]
    metas, _ = rand_metas(rng, 1)
    fields = rng.sample(gen.FIELDS, rng.randrange(1, 3))
    fk = rng.choice(["int", "float"])
    cells = gen.cells_from_layout(rng, rows, metas[0], kind=rng.choice(["C", "U"]), fields=fields, vkind=fk)
    return res, fields, metas[0], cells


def month_id(d):
    return d.year * 12 + d.month - 1


def matrix_cells(rng):
    """month-aligned semi-regular cumulative triangle: periods of e months, evaluations either at
    lags k*s from the period end or on a calendar grid (year ends / half-year ends), 1-2 slices,
    complete or holey"""
    e = rng.choice([1, 3, 6, 12])
    style = rng.choice(["lag", "lag", "calendar"])
    n_p = rng.randrange(1, 5)
    y0, m0 = rng.randrange(1995, 2025), rng.choice(list(range(1, 13, e)))
    start = D(y0, m0, 1)
    rows = []
    for i in range(n_p):
        ps = gen.add_months_int(start, i * e)
        pe = gen.add_months_int(ps, e - 1, end=True)
        if style == "lag":
            s = rng.choice([1, 3, 6, 12])
            evs = [gen.add_months_int(pe, k * s, end=True) for k in range(rng.randrange(1, 5))]
        else:
            g = rng.choice([6, 12]) if e < 12 else 12
            first = month_id(pe)
            first += (-(first + 1)) % g          # next month id ≡ g-1 (mod g): a grid month end
            evs = [gen.month_end(*divmod_ym(first + k * g)) for k in range(rng.randrange(1, 4))]
        rows.append((ps, pe, evs))
    holey = rng.random() < 0.5
    metas, _ = rand_metas(rng, rng.choice([1, 1, 2]))
    fields = rng.sample(gen.FIELDS, rng.randrange(1, 3))
    cells = []
    for m in metas:
        for c in gen.cells_from_layout(rng, rows, m, kind=rng.choice(["U"]), fields=fields,
                                       vkind=rng.choice(["int", "float"])):
            if holey and rng.random() < 0.3:
                continue
            fs = [f for f in fields if rng.random() < 0.85] or fields[:1]
            cells.append(c.replace(values={f: c.values[f] for f in fs}))
    return {"e": e, "style": style, "holey": holey}, cells


def matrix_representable(t):
    """the Matrix index is a grid: period starts every `exp` months from the first, development lags
    every min(exp, dev) months from the smallest, where exp / dev are the gcd spacings of the period
    boundaries / of the evaluation months. A holey triangle whose remaining lags are not congruent
    modulo that step has no place on the grid (the form cannot hold it): outside the property."""
    import math
    bounds = sorted({month_id(c.period_start) for c in t} | {month_id(c.period_end) + 1 for c in t})
    exp = 0
    for a, b in zip(bounds, bounds[1:]):
        exp = math.gcd(exp, b - a)
    evs = sorted({month_id(c.evaluation_date) for c in t})
    dev = 0
    for a, b in zip(evs, evs[1:]):
        dev = math.gcd(dev, b - a)
    if not exp or not dev:
        return False
    step = min(exp, dev)
    lags = [month_id(c.evaluation_date) - month_id(c.period_end) for c in t]
    return all((x - min(lags)) % step == 0 for x in lags)


def divmod_ym(mid):
    y, m = divmod(mid, 12)
    return y, m + 1


# ---- CSV text -> table wire (independent reader: the csv module) -----------------------------------

DATE_COLS = {"period_start", "period_end", "evaluation_date", "prev_evaluation_date"}
STR_COLS = {"risk_basis", "country", "currency", "reinsurance_basis", "loss_definition", "field"}


def entry(col, text, numeric_details):
    if text == "":
        return None
    if col in DATE_COLS:
        d = D.fromisoformat(text[:10])
        return ["d", w_date(d)]
    if col in STR_COLS:
        return ["s", text]
    if col in numeric_details or col in ("scenario", "value", "per_occurrence_limit") or col in gen.FIELDS:
        return ["n", w_rat(float(text))]
    return ["s", text]


def read_csv_table(path, numeric_details):
    with open(path, newline="", encoding="utf-8") as f:
        rd = csv.reader(f)
        cols = next(rd)
        rows = [[[c, entry(c, x, numeric_details)] for c, x in zip(cols, r)] for r in rd]
    return {"cols": cols, "rows": rows}


def canon_row(r):
    return sorted(([c, v] for c, v in r if v is not None), key=lambda cv: cv[0])


def num_canon(v):
    """numeric content of a wire value: ints as floats, size-1 / 0-d arrays as their scalar"""
    if v is None:
        return None
    if v[0] in ("i", "f"):
        return ["f", w_rat(Fraction(v[1]))]
    data = [w_rat(Fraction(x)) for x in v[3]]
    if len(data) == 1:
        return ["f", data[0]]
    return ["a", data]


def canon_num_cells(ws, merge_loss=False):
    out = []
    for w in ws:
        d = dict(w)
        d["k"] = "U" if d["k"] == "C" else d["k"]
        d["v"] = sorted(([k, num_canon(v)] for k, v in d["v"]), key=lambda kv: kv[0])
        if merge_loss:
            m = dict(d["m"])
            m["det"] = sorted(m["det"] + m["ldet"], key=lambda kv: kv[0])
            m["ldet"] = []
            d["m"] = m
        out.append(d)
    return out


def dump(res):
    st, v = res
    return {"ok": w_cells(v.cells)} if st == "ok" else {"err": v}


def same(model, impl, merge_model=False):
    if "err" in model or "err" in impl:
        return ("err" in model) == ("err" in impl)
    return canon_num_cells(model["ok"]) == canon_num_cells(impl["ok"])


# ---- correspondence ---------------------------------------------------------------------------

def correspondence(ctx):
    rng = ctx.rng
    drv = common.Driver("drv_c14")
    n_csv = 2500 if ctx.thorough else 110
    n_arr = 1200 if ctx.thorough else 50
    n_mat = 1300 if ctx.thorough else 50
    reqs, info = [], []

    with tempfile.TemporaryDirectory(prefix="verif-c14-") as td:
        wide_p, long_p = os.path.join(td, "w.csv"), os.path.join(td, "l.csv")
        # (i) wide and long CSV
        for i in range(n_csv):
            stream, how, cells = rand_csv_cells(rng)
            t = Triangle(cells)
            wire = w_cells(t.cells)
            fields = sorted({k for c in t.cells for k in c.values})
            det_keys = sorted({k for m in t.metadata for k in m.details})
            ldet_keys = sorted({k for m in t.metadata for k in m.loss_details})
            numeric = {k for m in t.metadata for d in (m.details, m.loss_details) for k, v in d.items()
                       if not isinstance(v, str)}
            desc = {"stream": stream, "slices": len(t.metadata), "cells": len(t), "differ_in": sorted(set(how))}
            ctx.count(f"csv/{stream}")
            ctx.count(f"csv/slices={len(t.metadata)}")
            for h in how:
                ctx.count(f"csv/slices differ in {h}")
            ctx.case(digest=json.dumps([canon_cell(w) for w in wire], sort_keys=True), nontrivial=True,
                     sample=desc if i < 3 else None)
            case = {"cells": wire, "stream": stream}
            # the files are written once (twice for a share of the cases: identical text), then read back by
            # several readers with explicit vs inferred column lists IN RANDOM ORDER within this process
            rng.shuffle(fields)
            st_w, r_w = call(t.to_wide_csv, wide_p)
            st_l, r_l = call(t.to_long_csv, long_p)
            if st_w != "ok":
                ctx.fail(f"to_wide_csv raised {r_w}", case)
            if st_l != "ok":
                ctx.fail(f"to_long_csv raised {r_l}", case)
            if rng.random() < 0.25 and st_w == "ok" and st_l == "ok":
                w1, l1 = open(wide_p, "rb").read(), open(long_p, "rb").read()
                call(t.to_wide_csv, wide_p)
                call(t.to_long_csv, long_p)
                ctx.count("sequence/csv written twice")
                if open(wide_p, "rb").read() != w1 or open(long_p, "rb").read() != l1:
                    ctx.fail("writing the same triangle to CSV a second time gives a different file", case)
            if w_cells(t.cells) != wire:
                ctx.fail("writing a CSV changed the triangle", case)
            wtable = read_csv_table(wide_p, numeric) if st_w == "ok" else None
            ltable = read_csv_table(long_p, numeric) if st_l == "ok" else None
            dcols = [c for c in (wtable["cols"] if wtable else []) if c in det_keys or c in ldet_keys]
            readers = []
            if wtable is not None:
                readers += [("wide", dict(field_cols=list(fields), loss_detail_cols=list(ldet_keys))),
                            ("wide[detail_cols given, fields inferred]",
                             dict(detail_cols=list(dcols), loss_detail_cols=list(ldet_keys))),
                            ("wide[both given]", dict(field_cols=list(fields), detail_cols=list(dcols),
                                                      loss_detail_cols=list(ldet_keys)))]
            if ltable is not None:
                readers += [("long", None), ("long+loss_detail_cols", None)]
            rng.shuffle(readers)
            if rng.random() < 0.2 and readers:
                readers.append(readers[0])          # the same reader once more
            first_wide = True
            for name, kw in readers:
                ctx.count(f"csv reader/{name}")
                if name.startswith("wide"):
                    loaded = dump(call(Triangle.from_wide_csv, wide_p, **kw))
                    req = {"op": "wide", "cells": wire, "field_cols": sorted(fields), "detail_cols": dcols,
                           "loss_detail_cols": ldet_keys, "impl_loaded": loaded.get("ok")}
                    if first_wide:
                        req.update(impl_table=wtable, impl_nrows=len(wtable["rows"]))
                    reqs.append(req)
                    info.append((name, case, wtable if first_wide else None, loaded))
                    first_wide = False
                elif name == "long":
                    # from_long_csv has no loss_detail_cols: loss details come back as details
                    loaded = dump(call(Triangle.from_long_csv, long_p))
                    reqs.append({"op": "long", "cells": wire, "loss_detail_cols": [], "impl_table": ltable,
                                 "impl_loaded": loaded.get("ok"), "impl_nrows": len(ltable["rows"])})
                    info.append(("long", case, ltable, loaded))
                else:
                    def via_frame():
                        df = pd.read_csv(long_p, parse_dates=[c for c in ("period_start", "period_end", "evaluation_date",
                                                                          "prev_evaluation_date") if c in ltable["cols"]])
                        return Triangle.from_long_data_frame(df, loss_detail_cols=list(ldet_keys))
                    loaded2 = dump(call(via_frame))
                    reqs.append({"op": "long", "cells": wire, "loss_detail_cols": ldet_keys, "impl_table": ltable,
                                 "impl_loaded": loaded2.get("ok")})
                    info.append(("long+loss_detail_cols", case, None, loaded2))

        # (ii) array data frame
        for i in range(n_arr):
            res, fields, md, cells = regular_single_slice(rng, i)
            t = Triangle(cells)
            wire = w_cells(t.cells)
            field = fields[0]
            ctx.count(f"array/res={res}")
            ctx.count(f"array/periods={len(t.periods)}")
            ctx.case(digest=json.dumps(["array", [canon_cell(w) for w in wire]], sort_keys=True), nontrivial=len(t) > 1,
                     sample={"stream": "array", "res": res, "cells": len(t), "first_period": str(t.periods[0][0])} if i < 1 else None)
            case = {"cells": wire, "field": field, "res": res}
            st, df = call(t.to_array_data_frame, field)
            if st != "ok":
                ctx.fail(f"to_array_data_frame raised {df}", case)
                continue
            if rng.random() < 0.3:
                # sequence: edit the returned frame in place, read it back once, then ask again
                snap = df.copy()
                call(Triangle.from_array_data_frame, df, field, metadata=md, period_resolution=res)
                df.iloc[:, 1:] = 0
                st2, df2 = call(t.to_array_data_frame, field)
                ctx.count("sequence/array frame asked twice")
                if st2 != "ok" or not snap.equals(df2):
                    ctx.fail("to_array_data_frame: a second call (after editing the first result in place) differs", case)
                    continue
                df = df2
            frame = []
            for _, row in df.iterrows():
                ents = [[int(c), w_val(row[c] if not isinstance(row[c], np.generic) else row[c].item())]
                        for c in df.columns[1:] if not pd.isna(row[c])]
                frame.append([w_date(row["period"]), ents])
            only = t.select([field])
            want = w_cells(only.cells)
            exp = dump(call(Triangle.from_array_data_frame, df.copy(), field, period_resolution=res, metadata=md))
            inf = dump(call(Triangle.from_array_data_frame, df.copy(), field, metadata=md))
            reqs.append({"op": "array", "cells": want, "field": field, "md": w_meta(md), "res": res,
                         "impl_explicit": exp, "impl_inferred": inf if len(t.periods) > 1 else None})
            info.append(("array", case, frame, (exp, inf, len(t.periods))))

        # (iii) Matrix
        for i in range(n_mat):
            desc, cells = matrix_cells(rng)
            if not cells:
                continue
            t = Triangle(cells)
            wire = w_cells(t.cells)
            ctx.count(f"matrix/exp={desc['e']}/{desc['style']}")
            ctx.count("matrix/holey" if desc["holey"] else "matrix/complete")
            ctx.case(digest=json.dumps(["matrix", [canon_cell(w) for w in wire]], sort_keys=True), nontrivial=len(t) > 1,
                     sample={"stream": "matrix", **desc, "cells": len(t)} if i < 1 else None)
            case = {"cells": wire, **desc}
            desc["representable"] = matrix_representable(t)
            ctx.count("matrix/representable" if desc["representable"] else "matrix/lags off the index grid (no Spec)")
            st, m = call(triangle_to_matrix, t)
            if st == "ok" and rng.random() < 0.3:
                # sequence: wipe the returned data in place, convert it back once, then ask again
                snap = m.data.copy()
                m.data[...] = 0
                call(matrix_to_triangle, m)
                st, m = call(triangle_to_matrix, t)
                ctx.count("sequence/matrix asked twice")
                if st != "ok" or not np.array_equal(snap, m.data, equal_nan=True):
                    ctx.fail("triangle_to_matrix: a second call (after wiping the first result in place) differs", case)
                    continue
            if st == "ok":
                ix = m.index
                ents = sorted([int(a), int(b), int(c), int(d), w_rat(float(m.data[a, b, c, d]))]
                              for a, b, c, d in zip(*np.where(~np.isnan(m.data))))
                mat = {"ok": {"slices": [w_meta(s) for s in ix.slices], "fields": list(ix.fields),
                              "exp_origin": int(ix.exp_origin), "dev_origin": int(ix.dev_origin),
                              "exp_resolution": int(ix.exp_resolution), "dev_resolution": int(ix.dev_resolution),
                              "shape": [int(x) for x in m.data.shape], "incremental": bool(m.incremental),
                              "entries": ents}}
                back = dump(call(matrix_to_triangle, m))
                ctx.count(f"matrix/exp={ix.exp_resolution} dev={ix.dev_resolution}")
            else:
                mat, back = {"err": m}, {"err": m}
                ctx.count("matrix/refused")
            reqs.append({"op": "matrix", "cells": wire, "impl_back": back.get("ok")})
            info.append(("matrix" if desc["representable"] else "matrix-offgrid", case, mat, back))

        outs = drv.run(reqs)

    for (kind, case, impl_a, impl_b), req, out in zip(info, reqs, outs):
        if kind.startswith("wide") or kind.startswith("long"):
            table, loaded = impl_a, impl_b
            what = {"long": "long CSV", "long+loss_detail_cols": "long CSV via from_long_data_frame"}.get(
                kind, kind.replace("wide", "wide CSV", 1))
            if "err" in loaded:
                ctx.fail(f"{what}: reading back the library's own file raised {loaded['err']}", case)
            else:
                spec = out["spec"]
                if not spec["slices"]:
                    ctx.fail(f"{what}: the slices of the original are not kept apart", case, {"loaded": loaded["ok"]})
                elif not spec["roundtrip"]:
                    ctx.fail(f"{what}: write then read is not the original triangle", case, {"loaded": loaded["ok"]})
            if out.get("rowspec") is False and table is not None:
                ctx.fail(f"{what}: number of rows is not one per cell and scenario" + (" and field" if kind.startswith("long") else ""),
                         case, {"rows": len(table["rows"])})
            if table is not None:
                mt = out["table"]
                if "err" in mt:
                    ctx.disagree(f"{what} rows (model refuses)", case, mt, None)
                else:
                    if sorted(mt["ok"]["cols"]) != sorted(table["cols"]):
                        ctx.disagree(f"{what} columns", case, sorted(mt["ok"]["cols"]), sorted(table["cols"]))
                    elif [canon_row(r) for r in mt["ok"]["rows"]] != [canon_row(r) for r in table["rows"]]:
                        a = [canon_row(r) for r in mt["ok"]["rows"]]
                        b = [canon_row(r) for r in table["rows"]]
                        k = next((j for j, (x, y) in enumerate(zip(a, b)) if x != y), min(len(a), len(b)))
                        ctx.disagree(f"{what} rows (csv module vs model), first difference at row {k}", case,
                                     a[k:k + 1], b[k:k + 1])
            if not same(out["back"], loaded):
                ctx.disagree(f"{what}: from(to(t))", case, out["back"], loaded)
            if out.get("impl_table_back") is not None and not same(out["impl_table_back"], loaded):
                ctx.disagree(f"{what}: reader on the implementation's own table", case, out["impl_table_back"], loaded)
        elif kind == "array":
            frame, (exp, inf, n_periods) = impl_a, impl_b
            if out["spec_explicit"] is False:
                ctx.fail("array frame round trip (period_resolution given) is not the original triangle", case, {"loaded": exp})
            if n_periods > 1 and out["spec_inferred"] is False:
                ctx.fail("array frame round trip (period_resolution inferred) is not the original triangle", case, {"loaded": inf})
            mf = out["frame"]
            if "err" in mf:
                ctx.disagree("array frame (model refuses)", case, mf, None)
            else:
                a = [[p, sorted([k, num_canon(v)] for k, v in es)] for p, es in mf["ok"]]
                b = [[p, sorted([k, num_canon(v)] for k, v in es)] for p, es in frame]
                if a != b:
                    ctx.disagree("to_array_data_frame", case, a, b)
            if not same(out["back_explicit"], exp):
                ctx.disagree("from_array_data_frame(period_resolution=res)", case, out["back_explicit"], exp)
            if not same(out["back_inferred"], inf):
                ctx.disagree("from_array_data_frame(inferred resolution)", case, out["back_inferred"], inf)
        else:
            mat, back = impl_a, impl_b
            if "ok" in mat:
                if "err" in back:
                    ctx.fail(f"matrix_to_triangle raised {back['err']} on triangle_to_matrix's output", case)
                elif out["spec"] is False and kind == "matrix":
                    ctx.fail("Matrix round trip is not the original triangle", case, {"loaded": back["ok"]})
            mm = out["matrix"]
            if ("err" in mm) != ("err" in mat):
                ctx.disagree("triangle_to_matrix accepts/refuses", case, mm, mat)
            elif "ok" in mm:
                a = dict(mm["ok"])
                a["entries"] = sorted({tuple(e[:4]): e[4] for e in a["entries"]}.items())
                b = dict(mat["ok"])
                b["entries"] = sorted({tuple(e[:4]): e[4] for e in b["entries"]}.items())
                if a != b:
                    ctx.disagree("triangle_to_matrix (index, shape, entries)", case,
                                 {k: v for k, v in a.items() if b.get(k) != v}, {k: v for k, v in b.items() if a.get(k) != v})
                if not same(out["back"], back):
                    ctx.disagree("matrix_to_triangle(triangle_to_matrix(t))", case, out["back"], back)


if __name__ == "__main__":
    import translate_c14
    common.run_check(
        "C14", module="Bermuda.Properties.C14", driver_targets=["drv_c14"],
        correspondence=correspondence, level="translation_validation", extra_translate=translate_c14.regenerate,
        rule="CSV: random triangles, 1-4 slices each differing from the first in exactly one of the eight metadata "
             "attributes (string or numeric detail / loss-detail values, added or removed keys); cumulative all-scalar "
             "(int/float, differing field sets, occasional size-1 array), cumulative all-sample (2-4 samples, int64/float64), "
             "incremental scalar; regular, ragged, day-level. Array frame: regular single-slice triangles, resolutions "
             "1/3/6/12, every start month, square/triangular/ragged. Matrix: month-aligned semi-regular 1-2 slice "
             "triangles, period length 1/3/6/12, evaluations at lag multiples of 1/3/6/12 or on a half-year / year-end "
             "grid (quarterly periods evaluated annually), complete and holey. distinct = distinct canonical input dump",
        assumptions=["pandas CSV layer (text <-> table: dtype inference, NaN for empty, date parsing, float repr) is opaque / trusted",
                     "CSV-safe metadata: risk_basis not None, no empty strings, string detail values that do not parse as numbers/NaN, "
                     "detail and loss-detail keys disjoint from each other, from the attribute / coordinate / field names and 'scenario'",
                     "cumulative cells all-scalar or all-sample (equal sample counts, every cell all fields when sampled); "
                     "incremental cells scalar; no None values; non-empty triangle",
                     "from_long_csv has no loss_detail_cols argument: loss details come back as details (stated in longSpec); "
                     "from_long_data_frame(loss_detail_cols=...) keeps them apart",
                     "numbers come back as floats; size-1 / 0-d arrays are compared as their scalar",
                     "Matrix: cumulative triangles; development lags congruent modulo min(period, evaluation) resolution"],
        trusted=["pandas read_csv / to_csv / DataFrame construction / groupby(sort, dropna=False) semantics",
                 "harness/translate_c14.py (group-by key lists observed on probe frames through a recording wrapper "
                 "around DataFrame.groupby, regenerated under the build lock each run)",
                 "numpy float formatting"],
    )
