"""C15 — extension operators only add well-placed cells, never touch observed data.

Correspondence between bermuda's `make_right_triangle`, `make_right_diagonal`, `fill_forward_gaps`,
`backfill` and the Lean model (drv_c15); the Lean Spec predicates (`Spec/C15.lean`) are evaluated on
the IMPLEMENTATION's outputs."""
import datetime
import json
import warnings

import common
from common import w_cells, w_date, w_rat, canon_cell, call
import gen
from gen import add_months_int, month_end
from bermuda import Triangle, Cell, CumulativeCell, IncrementalCell
from bermuda.utils.extend import make_right_triangle, make_right_diagonal
from bermuda.utils.fill import fill_forward_gaps
from bermuda.utils.backfill import backfill

warnings.simplefilter("ignore")
D = datetime.date
SHAPES = ["complete", "upper_left", "ragged", "ragged", "single_period", "single_lag"]


# ---- generators -----------------------------------------------------------------------------

def month_index(d):
    return d.year * 12 + d.month - 1


def make_rows(rng, g, start, n_periods, shape, step, n_lags, first_k, skip_period=False, mult=1):
    """month-aligned rows [(ps, pe, [evals])]: periods of g*mult months (starting every g*mult months),
    lags (first_k + j)*step months"""
    g = g * mult
    if shape == "single_period":
        n_periods = 1
    if shape == "single_lag":
        n_lags = 1
    idxs = list(range(n_periods))
    if skip_period and n_periods >= 3:
        del idxs[rng.randrange(1, n_periods - 1)]
    rows = []
    last_i = idxs[-1]
    for i in idxs:
        ps = add_months_int(start, i * g)
        pe = add_months_int(ps, g - 1, end=True)
        ks = list(range(first_k, first_k + n_lags))
        if shape == "upper_left":
            cutoff = last_i * g + first_k * step
            ks = [k for k in ks if i * g + k * step <= cutoff] or ks[:1]
        elif shape == "ragged":
            ks = sorted(rng.sample(ks, rng.randrange(1, len(ks) + 1)))
        rows.append((ps, pe, [add_months_int(pe, k * step, end=True) for k in ks]))
    return rows


def rand_triangle(rng, kinds=("U", "U", "I", "C"), want_gaps=False, late_start=False, break_chain=False,
                  fields_pool=None):
    """returns (cells, info)"""
    g = rng.choice([1, 3, 3, 6, 12])
    step = rng.choice([s for s in (1, 3, 6, 12) if s % g == 0 or g % s == 0])
    start = D(rng.randrange(1996, 2024), rng.choice([1] if g == 12 else list(range(1, 13, g))), 1)
    n_slices = rng.choice([1, 1, 2, 2, 3])
    kind = rng.choice(kinds)
    vkind = rng.choice(["int", "int", "float", "farr", "iarr"])
    metas = gen.rand_metas(rng, n_slices, single_attr=rng.random() < 0.7)
    same_layout = rng.random() < 0.4
    shape0 = rng.choice(SHAPES if not want_gaps else ["ragged", "ragged", "ragged", "upper_left", "complete"])
    n_periods0 = rng.randrange(1, 6)
    n_lags0 = rng.randrange(1, 6)
    first_k0 = rng.choice([0, 0, 0, 1, 2]) if not late_start else rng.choice([0, 1, 2, 3, 4])
    skip = rng.random() < 0.1
    rows0 = make_rows(rng, g, start, n_periods0, shape0, step, n_lags0, first_k0, skip)
    cells, shapes = [], []
    fields_pool = fields_pool or [["paid_loss", "reported_loss", "earned_premium"], ["paid_loss", "earned_premium"],
                                  ["reported_loss", "paid_loss"], ["earned_premium"]]
    for m in metas:
        if same_layout:
            rows, shape = rows0, shape0
        else:
            shape = rng.choice(SHAPES if not want_gaps else ["ragged", "ragged", "upper_left", "complete"])
            first_k = first_k0 if rng.random() < 0.5 else rng.choice([0, 1, 2, 3])
            rows = make_rows(rng, g, start, rng.randrange(1, 6), shape, step, rng.randrange(1, 6), first_k,
                             rng.random() < 0.1, mult=2 if (g <= 6 and rng.random() < 0.15) else 1)
        shapes.append(shape)
        fields = rng.choice(fields_pool)
        cells += gen.cells_from_layout(rng, rows, m, kind=kind, fields=fields, vkind=vkind, n_samples=3)
    broken = False
    if break_chain and kind == "I":
        # remove a cell that is not the last of its row: the chain of that row no longer links
        cand = [c for c in cells if any(o.prev_evaluation_date == c.evaluation_date and o.period == c.period
                                        and o.metadata == c.metadata for o in cells)]
        if cand:
            cells.remove(rng.choice(cand))
            broken = True
    rng.shuffle(cells)
    info = {"g": g, "step": step, "slices": n_slices, "kind": kind, "vkind": vkind,
            "shape": "+".join(sorted(set(shapes))), "broken": broken}
    return cells, info


def eval_span(cells):
    evs = sorted({c.evaluation_date for c in cells})
    return evs[0], evs[-1]


def rand_lags(rng, cells, info, unit):
    """(python argument, wire form)"""
    if unit.lower().startswith("day") or "day" in unit.lower():
        if rng.random() < 0.5:
            return None, None
        own = sorted({c.dev_lag("day") for c in cells})
        lags = sorted(set(rng.sample(own, min(len(own), rng.randrange(1, 4))) +
                          [own[-1] + rng.choice([1, 30, 31, 90, 365]) for _ in range(rng.randrange(0, 3))]))
        return lags, [w_rat(x) for x in lags]
    r = rng.random()
    if r < 0.4:
        return None, None
    step = info["step"]
    own = sorted({c.dev_lag() for c in cells})
    top = int(own[-1])
    if r < 0.6:
        lo = rng.choice([0, step, int(own[0])])
        lags = list(range(lo, top + step * rng.randrange(1, 4) + 1, step))
    elif r < 0.75:
        s2 = rng.choice([1, 3, 6, 12])
        lags = list(range(rng.choice([0, s2]), top + s2 * rng.randrange(0, 3) + 1, s2))
    elif r < 0.85:
        lags = [rng.randrange(-2, top + 8) for _ in range(rng.randrange(0, 6))]      # unsorted, may be empty
    elif r < 0.9:
        lags = [float(x) for x in range(0, top + 2 * step + 1, step)]
    elif r < 0.95:
        lags = [top + rng.choice([0.5, 1.5, 2.25, 3.0]) for _ in range(rng.randrange(1, 3))] + [top + step]
    else:
        base = list(range(0, top + step + 1, step))
        lags = base + [rng.choice(base)]                                            # a duplicate
    return lags, [w_rat(x) for x in lags]


def rand_dates(rng, cells, info, hist=False):
    lo, hi = eval_span(cells)
    step = info["step"]
    r = rng.random()
    ds = []
    n_after = rng.randrange(0, 4)
    for j in range(1, n_after + 1):
        ds.append(add_months_int(hi, j * step, end=True))
    if r < 0.5:
        # some observed / historic dates too
        evs = sorted({c.evaluation_date for c in cells})
        ds += rng.sample(evs, min(len(evs), rng.randrange(0, 3)))
    if r < 0.15:
        ds.append(hi + datetime.timedelta(days=rng.randrange(1, 50)))               # not a month end
    if rng.random() < 0.1:
        ds.append(min(c.period_start for c in cells) - datetime.timedelta(days=rng.randrange(1, 400)))
    if rng.random() < (0.6 if hist else 0.05):
        ds.append(rng.choice([c.period_start for c in cells]))                      # matters with include_historic
    if rng.random() < 0.05 and ds:
        ds.append(rng.choice(ds))
    rng.shuffle(ds)
    return ds


def compatible_resolutions(cells):
    """positive resolutions dividing every within-row lag difference"""
    rows = {}
    for c in cells:
        rows.setdefault((c.metadata, c.period), []).append(int(c.dev_lag()))
    out = []
    for r in (1, 2, 3, 4, 6, 12):
        if all((l - min(ls)) % r == 0 for ls in rows.values() for l in ls):
            out.append(r)
    return out


# ---- running --------------------------------------------------------------------------------

def impl_dump(res):
    st, v = res
    return {"ok": w_cells(v.cells)} if st == "ok" else {"err": v}


def canon(cells_wire):
    return [canon_cell(c) for c in cells_wire]


WITH_EP = [["paid_loss", "reported_loss", "earned_premium"], ["paid_loss", "earned_premium"], ["earned_premium"]]
NO_EP = [["reported_loss", "paid_loss"], ["paid_loss"], ["open_claims", "reported_claims"]]


def gen_case(rng, op, defaults=False, prime=False, given=None):
    """one generated call: dict(tri, cells, info, fn, args, kwargs, req, in_domain, labels).
    `req` always carries the NOMINAL parameter values (the library's defaults where an option is omitted);
    with `defaults` options are omitted from the actual call with high probability; `prime` favours inputs
    that disturb shared state (triangles lacking the static field, calls that raise); `given` = (triangle,
    cells, info) of an already built (DERIVED) triangle to be used as the input instead of a fresh one."""
    p_omit = 0.85 if given is not None else 0.7
    omit = (lambda: rng.random() < p_omit) if (defaults or prime) else (lambda: False)
    labels = []
    if op == "rightTri":
        if given is not None:
            tri, cells, info = given
        else:
            cells, info = rand_triangle(rng, break_chain=rng.random() < 0.04)
            tri = Triangle(cells)
        kwargs = {}
        unit, lags, wl = "month", None, None
        if not omit():
            unit = rng.choice(["month"] * 10 + ["months", "Month", "day", "days", "timedelta", "weeks"])
            kwargs["dev_lag_unit"] = unit
        if unit in ("timedelta", "weeks"):
            if unit == "weeks" and rng.random() < 0.3:
                lags, wl = [], []
                kwargs["dev_lags"] = lags
        elif not omit():
            lags, wl = rand_lags(rng, cells, info, unit)
            kwargs["dev_lags"] = lags
        req = {"op": op, "lags": wl, "unit": unit}
        in_domain = not info["broken"] and unit not in ("timedelta", "weeks")
        labels += [f"rightTri/unit={unit}", "rightTri/lags=" + ("own" if lags is None else "list")]
        fn, args = make_right_triangle, ()
    elif op == "rightDiag":
        if given is not None:
            tri, cells, info = given
        else:
            cells, info = rand_triangle(rng, break_chain=rng.random() < 0.04)
            tri = Triangle(cells)
        kwargs = {}
        hist = False
        if not omit():
            hist = rng.random() < 0.15
            kwargs["include_historic"] = hist
        dates = rand_dates(rng, cells, info, hist)
        req = {"op": op, "dates": [w_date(d) for d in dates], "hist": hist}
        in_domain = not info["broken"] and not hist
        labels += [f"rightDiag/hist={hist}"]
        fn, args = make_right_diagonal, (dates,)
    elif op == "fill":
        if given is not None:
            tri, cells, info = given
        else:
            cells, info = rand_triangle(rng, want_gaps=True)
            tri = Triangle(cells)
        comp = compatible_resolutions(cells)
        n_evals = len({c.evaluation_date for c in cells})
        kwargs = {}
        resn, none = None, False
        if not (omit() and (n_evals > 1 or prime)):
            r = rng.random()
            if r < 0.45 and n_evals > 1:
                resn = None
            elif r < 0.9 or n_evals == 1:
                resn = rng.choice(comp)
            else:
                resn = rng.choice([1, 2, 3, 4, 5, 6, 12])                        # possibly incompatible
            if n_evals == 1 and rng.random() < 0.1:
                resn = None                                                     # domain edge: TypeError
            kwargs["eval_resolution"] = resn
        if not omit():
            none = rng.random() < 0.5
            kwargs["fill_with_none"] = none
        req = {"op": op, "res": resn, "none": none}
        in_domain = not (resn is None and n_evals == 1)
        labels += ["fill/res=" + ("inferred" if resn is None else "compatible" if resn in comp else "incompatible"),
                   f"fill/none={none}"]
        fn, args = fill_forward_gaps, ()
    else:
        pool = None
        if prime and rng.random() < 0.6:
            pool = NO_EP                                   # the default static field is absent: KeyError in /repo
        elif defaults:
            pool = WITH_EP
        if given is not None:
            tri, cells, info = given
            n_evals = len({c.evaluation_date for c in cells})
        else:
            for _ in range(20):
                cells, info = rand_triangle(rng, late_start=True, fields_pool=pool)
                n_evals = len({c.evaluation_date for c in cells})
                if not defaults or n_evals > 1:
                    break
            tri = Triangle(cells)
        fields = sorted({k for c in cells for k in c.values})
        common_fields = [f for f in fields if all(f in c.values for c in cells)]
        kwargs = {}
        statics, resn, min_lag = ["earned_premium"], None, 0
        if not omit():
            r = rng.random()
            if r < 0.5 and "earned_premium" in common_fields:
                statics = ["earned_premium"]
            elif r < 0.7:
                statics = []
            elif r < 0.95:
                statics = rng.sample(common_fields, rng.randrange(0, len(common_fields) + 1))
            else:
                statics = ["no_such_field"]
            kwargs["static_fields"] = list(statics)
        if not (omit() and (n_evals > 1 or prime)):
            resn = None if (rng.random() < 0.4 and n_evals > 1) else rng.choice([1, 1, 2, 3, 3, 6, 12])
            if n_evals == 1 and rng.random() < 0.1:
                resn = None
            kwargs["eval_resolution"] = resn
        if not omit():
            min_lag = rng.choice([0, 0, 0, 1, 2, 3, 6, -1, -2, -3, -5, -11, -12])
            kwargs["min_dev_lag"] = min_lag
        req = {"op": op, "statics": list(statics), "res": resn, "minLag": min_lag}
        in_domain = not (resn is None and n_evals == 1) and all(f in common_fields for f in statics)
        labels += ["backfill/res=" + ("inferred" if resn is None else "explicit"),
                   "backfill/minLag=" + ("neg" if min_lag < 0 else "zero" if min_lag == 0 else "pos"),
                   "backfill/statics=" + ("default-arg" if "static_fields" not in kwargs else "explicit")]
        fn, args = backfill, ()
    labels.append(f"{op}/omitted-options={len(req) - 1 - len(kwargs) - (1 if op == 'rightDiag' else 0)}")
    return {"tri": tri, "cells": cells, "info": info, "fn": fn, "args": args, "kwargs": kwargs, "req": req,
            "in_domain": in_domain, "labels": labels}


def own_resolutions(cells):
    """(eval_date_resolution, period_resolution) recomputed from the cells alone (no cache involved)"""
    from math import gcd
    from functools import reduce

    def res(ids):
        diffs = [b - a for a, b in zip(ids[:-1], ids[1:])]
        return reduce(gcd, diffs) if diffs else None
    evs = sorted(month_index(d) for d in {c.evaluation_date for c in cells})
    pers = {c.period for c in cells}
    starts = sorted({month_index(a) for a, _ in pers} | {month_index(b) + 1 for _, b in pers})
    return res(evs), res(starts)


def read_cached(rng, tri):
    """read (and thereby cache) the derived accessors of a triangle; returns how many were read"""
    names = ["eval_date_resolution", "period_resolution", "periods", "evaluation_dates", "evaluation_date",
             "slices", "metadata", "common_metadata", "metadata_differences", "fields", "num_samples",
             "is_disjoint", "is_slicewise_disjoint", "is_incremental", "is_multi_slice", "is_empty",
             "experience_gaps", "field_cell_counts", "field_slice_counts", "has_consistent_currency",
             "has_consistent_risk_basis", "has_consistent_values_shapes", "right_edge", "period_rows",
             "slice_period_rows"]
    meths = ["dev_lags", "is_regular", "is_semi_regular"]
    r = rng.random()
    if r < 0.08:
        names, meths = [], []                                  # control: nothing cached before deriving
    elif r < 0.25:
        names = ["eval_date_resolution", "period_resolution"] + rng.sample(names[2:], rng.randrange(0, 6))
        meths = rng.sample(meths, rng.randrange(0, 3))
    n = 0
    for nm in names:
        if call(lambda t, nm=nm: getattr(t, nm), tri)[0] == "ok":
            n += 1
    for nm in meths:
        if call(lambda t, nm=nm: getattr(t, nm)(), tri)[0] == "ok":
            n += 1
    return n


def fine_parent(rng, op):
    """a parent triangle on a FINE evaluation grid (lag step 1 or 3 months, many lags) from which coarser
    subsets are derived: (cells, info, step)"""
    g = rng.choice([1, 3, 3, 6])
    step = rng.choice([1, 1, 1, 3] if g != 6 else [1, 3])
    start = D(rng.randrange(1996, 2024), rng.choice(list(range(1, 13, g))), 1)
    n_slices = rng.choice([1, 2, 2, 3])
    # IncrementalCell only for fill: a backfilled copy of a LATER incremental cell keeps its previous date and is
    # refused by the constructor (loop breaks; outside the domain `BackfillOk`), and the right-hand operators need
    # an unbroken chain
    kind = rng.choice(["U", "U", "C", "I"] if op == "fill" else ["U", "U", "C"])
    vkind = rng.choice(["int", "int", "float", "farr", "iarr"])
    metas = gen.rand_metas(rng, n_slices, single_attr=rng.random() < 0.7)
    shape = rng.choice(["complete", "upper_left", "upper_left", "ragged"])
    n_periods = rng.randrange(2, 6)
    n_lags = rng.randrange(5, 14)
    first_k = rng.choice([0, 0, 0, 1])
    rows = make_rows(rng, g, start, n_periods, shape, step, n_lags, first_k)
    fields = rng.choice(WITH_EP)
    cells = []
    for m in metas:
        cells += gen.cells_from_layout(rng, rows, m, kind=kind, fields=fields, vkind=vkind, n_samples=3)
    rng.shuffle(cells)
    info = {"g": g, "step": step, "slices": n_slices, "kind": kind, "vkind": vkind, "shape": "derived:" + shape,
            "broken": kind == "I"}
    return cells, info


def derive(rng, parent, info):
    """(label, derived triangle) — a sub-triangle of `parent` obtained through the library's own deriving
    methods, preferably on a COARSER lag grid with gaps / late-starting periods"""
    step = info["step"]
    cells = parent.cells
    lag_of = lambda c: int(round(c.dev_lag()))
    how = rng.choice(["filter-grid", "filter-grid", "filter-grid", "filter-set", "filter-meta", "clip", "getitem",
                      "getitem-int", "select", "derive_metadata", "chain"])

    def grid_filter(t):
        k = step * rng.choice([2, 3, 3, 3, 6, 12])
        r = rng.choice([0, 0, 0, step])
        # late-starting periods / gaps: per period a minimum lag and a few dropped lags
        lo = {p: rng.choice([0, 0, k, 2 * k]) for p in {c.period for c in t.cells}}
        drop = {(p, l) for p in lo for l in range(0, 40 * step, k) if rng.random() < 0.2}
        return t.filter(lambda c: lag_of(c) % k == r % k and lag_of(c) >= lo[c.period]
                        and (c.period, lag_of(c) - r % k) not in drop)

    if how == "filter-grid":
        sub = grid_filter(parent)
    elif how == "filter-set":
        keep = {id(c) for c in cells if rng.random() < 0.6}
        sub = parent.filter(lambda c: id(c) in keep)
    elif how == "filter-meta":
        m = rng.choice(parent.metadata)
        sub = grid_filter(parent.filter(lambda c: c.metadata == m)) if rng.random() < 0.6 else \
            parent.filter(lambda c: c.metadata == m)
    elif how == "clip":
        evs = sorted({c.evaluation_date for c in cells})
        pss = sorted({c.period_start for c in cells})
        kw = {}
        if rng.random() < 0.6:
            kw["max_eval"] = rng.choice(evs)
        if rng.random() < 0.4:
            kw["min_eval"] = rng.choice(evs[:max(1, len(evs) // 2)])
        if rng.random() < 0.3:
            kw["min_period"] = rng.choice(pss)
        if rng.random() < 0.3:
            kw["max_period"] = rng.choice([c.period_end for c in cells])
        sub = parent.clip(**kw)
    elif how == "getitem":
        evs = sorted({c.evaluation_date for c in cells})
        pss = sorted({c.period_start for c in cells})
        a, b = sorted(rng.sample(range(len(pss)), 2)) if len(pss) > 1 else (0, 0)
        e1, e2 = sorted(rng.sample(range(len(evs)), 2)) if len(evs) > 1 else (0, 0)
        md = rng.choice(parent.metadata) if rng.random() < 0.4 else slice(None, None, None)
        sub = parent[pss[a]:pss[b], (evs[e1] if rng.random() < 0.5 else None):evs[e2], md]
        if rng.random() < 0.5:
            sub = grid_filter(sub)
    elif how == "getitem-int":
        i = rng.randrange(0, max(1, len(cells) // 2))
        sub = parent[i:rng.randrange(i + 1, len(cells) + 1)]
    elif how == "select":
        flds = list(parent.fields)
        keep = [f for f in flds if f == "earned_premium" or rng.random() < 0.6] or flds
        sub = parent.select(keep)
        if rng.random() < 0.6:
            sub = grid_filter(sub)
    elif how == "derive_metadata":
        sub = parent.derive_metadata(currency=rng.choice(["USD", "EUR"]))
        if rng.random() < 0.6:
            sub = grid_filter(sub)
    else:
        evs = sorted({c.evaluation_date for c in cells})
        mid = grid_filter(parent)
        read_cached(rng, mid)
        sub = mid.clip(max_eval=rng.choice(evs[len(evs) // 2:])) if rng.random() < 0.5 else grid_filter(mid)
    return how, sub


def accessors(tri):
    """derived / cached accessors of a triangle, in wire form"""
    return {"periods": [[w_date(a), w_date(b)] for a, b in tri.periods],
            "evaluation_dates": [w_date(d) for d in tri.evaluation_dates],
            "fields": list(tri.fields),
            "metadata": [common.w_meta(m) for m in tri.metadata],
            "n_slices": len(tri.slices),
            "len": len(tri)}


def recomputed(tri):
    cs = tri.cells
    return {"periods": [[w_date(a), w_date(b)] for a, b in sorted({c.period for c in cs})],
            "evaluation_dates": [w_date(d) for d in sorted({c.evaluation_date for c in cs})],
            "fields": sorted({k for c in cs for k in c.values}),
            "metadata": [common.w_meta(m) for m in sorted({c.metadata for c in cs})],
            "n_slices": len({c.metadata for c in cs}),
            "len": len(cs)}


def mutate_result(op, case, res):
    """damage the first call's result in place (the second call must not be affected): reverse the cell
    list; edit the values dicts of cells that are not the input's own objects (fill_forward_gaps copies by
    sharing the source cell's dict, so its added cells are left alone)."""
    own = {id(c) for c in case["tri"].cells}
    for c in res.cells:
        if id(c) not in own and op != "fill":
            for k in list(c.values):
                c.values[k] = -12345
            c.values["__scratch__"] = 1
    res.cells.reverse()


def correspondence(ctx):
    rng = ctx.rng
    total = 15000 if ctx.thorough else 400
    plan = [("rightTri", 0.35), ("rightDiag", 0.2), ("fill", 0.25), ("backfill", 0.2)]
    n_seq = int(total * 0.3)
    reqs, cases = [], []

    def run_case(op, case, stream):
        tri = case["tri"]
        snap = w_cells(tri.cells)                    # by value, BEFORE the call
        acc_before = accessors(tri) if stream != "main" else None
        res = call(case["fn"], tri, *case["args"], **case["kwargs"])
        d = impl_dump(res)
        req = {**case["req"], "cells": snap, "impl": d.get("ok")}
        bare = {k: v for k, v in req.items() if k != "impl"}
        # the observed data is judged against the snapshot taken before the call: the operator must
        # not modify the input triangle's own cell objects either (shared values dicts!)
        after = w_cells(tri.cells)
        if after != snap:
            changed = [{"before": b, "after": a} for b, a in zip(snap, after) if a != b][:3]
            ctx.fail(f"{op}: the input triangle's cells were modified in place by the call", bare,
                     {"changed": changed})
        if stream != "main":
            if res[0] == "ok":
                out = res[1]
                if accessors(out) != recomputed(out):
                    ctx.fail(f"{op}: accessors of the result disagree with its cells", bare,
                             {"accessors": accessors(out), "recomputed": recomputed(out)})
                mutate_result(op, case, out)
                if w_cells(tri.cells) != snap:
                    ctx.fail(f"{op}: editing the RESULT in place changed the input triangle (aliasing)", bare)
            if accessors(tri) != acc_before:
                ctx.fail(f"{op}: cached accessors of the input changed", bare)
            res2 = call(case["fn"], tri, *case["args"], **case["kwargs"])
            d2 = impl_dump(res2)
            if d2 != d:
                ctx.fail(f"{op}: a second identical call on the same triangle gives a different result", bare,
                         {"first": d, "second": d2})
        info = case["info"]
        for lab in case["labels"]:
            ctx.count(("seq:" if stream == "seq" else "") + lab)
        for k in ("slices", "kind", "shape"):
            ctx.count(f"{op}/{k}={info[k]}")
        ctx.count(f"{op}/impl=" + ("ok" if "ok" in d else "err"))
        ctx.case(digest=json.dumps({**bare, "cells": canon(bare["cells"]), "stream": stream}, sort_keys=True),
                 nontrivial=len(case["cells"]) > 1,
                 sample={"op": op, "stream": stream, **info, "n_cells": len(case["cells"]),
                         **{k: v for k, v in bare.items() if k not in ("cells", "op")}})
        reqs.append(req)
        cases.append((bare, d, case["in_domain"]))

    # (i) independent cases, every option passed explicitly
    for op, share in plan:
        for _ in range(int(total * share)):
            run_case(op, gen_case(rng, op), "main")

    # (ii) SEQUENCES in one process: priming calls of the same and of related operators on other triangles /
    # other options (incl. triangles lacking the default static field and calls that raise), then the call
    # under test with DEFAULT arguments where possible, executed twice with the first result damaged in between
    ops = [o for o, _ in plan]
    for i in range(n_seq):
        op = ops[i % 4]
        for _ in range(rng.randrange(1, 3)):
            pop = op if rng.random() < 0.7 else rng.choice(ops)
            pc = gen_case(rng, pop, prime=True)
            pres = call(pc["fn"], pc["tri"], *pc["args"], **pc["kwargs"])
            ctx.count(f"seq:prime/{pop}=" + pres[0])
        run_case(op, gen_case(rng, op, defaults=True), "seq")

    # (iii) DERIVED inputs: a parent on a fine evaluation grid whose cached accessors (eval_date_resolution,
    # period_resolution, periods, evaluation_dates, dev_lags(), slices, metadata, is_regular() ...) have been READ,
    # a sub-triangle derived from it through the library (filter / clip / [...] / select / derive_metadata, chains),
    # usually on a coarser lag grid with gaps and late-starting periods, then the operator with DEFAULT arguments.
    # The model runs on the derived triangle's CELLS (it knows nothing about caches).
    n_der = int(total * 0.25)
    for i in range(n_der):
        op = ["fill", "backfill", "fill", "backfill", "rightTri", "rightDiag"][i % 6]
        for _ in range(30):
            pcells, info = fine_parent(rng, op)
            parent = Triangle(pcells)
            n_read = read_cached(rng, parent)
            if rng.random() < 0.3:                             # the cache may also be warmed by an operator call
                call(fill_forward_gaps if rng.random() < 0.5 else backfill, parent)
            st, v = call(derive, rng, parent, info)
            if st != "ok":
                ctx.count("derived:derive-raises")
                continue
            how, sub = v
            if len(sub) == 0 or (op in ("fill", "backfill") and len(sub.evaluation_dates) < 2 and rng.random() < 0.9):
                continue
            coords = [(c.metadata, c.period, c.evaluation_date) for c in sub.cells]
            if len(set(coords)) != len(coords):
                # e.g. derive_metadata(currency=...) merged two slices: a coordinate occupied twice is outside
                # the property's domain (rows are dicts keyed by lag)
                ctx.count("derived:skipped-duplicate-coordinates")
                continue
            break
        else:
            continue
        sub_cells = list(sub.cells)
        ctx.count(f"derived:how={how}")
        ctx.count("derived:parent-accessors-read=" + ("0" if n_read == 0 else "some" if n_read < 20 else "all"))
        own = own_resolutions(sub_cells)
        ctx.count("derived:coarser-than-parent=" + str(own[0] != own_resolutions(pcells)[0]))
        # the derived triangle's own accessors must describe ITS cells
        if accessors(sub) != recomputed(sub):
            ctx.fail(f"{op}: accessors of a derived triangle ({how}) disagree with its cells",
                     {"op": op, "how": how, "cells": w_cells(sub_cells), "parent": w_cells(parent.cells)},
                     {"accessors": accessors(sub), "recomputed": recomputed(sub)})
        got = (call(lambda t: t.eval_date_resolution, sub), call(lambda t: t.period_resolution, sub))
        if got[0][0] == "ok" and got[1][0] == "ok" and (got[0][1], got[1][1]) != own:
            ctx.fail(f"{op}: eval_date_resolution / period_resolution of a derived triangle ({how}) are not those of "
                     f"its cells (fill_forward_gaps / backfill default to them)",
                     {"op": op, "how": how, "cells": w_cells(sub_cells), "parent": w_cells(parent.cells)},
                     {"accessors": [got[0][1], got[1][1]], "recomputed": list(own)})
            # build a fresh object for the resolution-independent part? no: the operator is run on the SAME derived
            # object below, so a wrong cached resolution also shows up as off-grid cells in the Spec clauses
        sub2 = sub if rng.random() < 0.8 else call(lambda: derive(rng, parent, info)[1])[1]
        if not isinstance(sub2, Triangle) or len(sub2) == 0 or \
                len({(c.metadata, c.period, c.evaluation_date) for c in sub2.cells}) != len(sub2.cells):
            sub2 = sub
        case = gen_case(rng, op, defaults=True, given=(sub2, list(sub2.cells), info))
        case["labels"] = ["derived:" + lab for lab in case["labels"]]
        run_case(op, case, "derived")

    outs = common.Driver("drv_c15").run(reqs)

    for (bare, d, in_domain), out in zip(cases, outs):
        model, spec = out["model"], out["spec"]
        op = bare["op"]
        if "ok" in d:
            n_added = len(d["ok"]) - (len(bare["cells"]) if op in ("fill", "backfill") else 0)
            ctx.count(f"{op}/added=" + ("0" if n_added == 0 else "1-3" if n_added <= 3 else "4+"))
        failed = [k for k, v in (spec or {}).items() if not v]
        if failed:
            ctx.fail(f"{op}: clause(s) {failed} false on the implementation's output", bare, {"impl": d})
            continue
        if "err" in d:
            if "ok" in model:
                if in_domain:
                    ctx.fail(f"{op}: raises {d['err']} on an input of the property's domain "
                             f"(the operator must return the added cells / the extended triangle)", bare,
                             {"impl": d, "model_cells": len(model["ok"])})
                else:
                    ctx.disagree(f"{op}: error behaviour outside the domain", bare, model, d)
            elif model["err"] != d["err"]:
                ctx.count(f"{op}/error-class-differs")
            continue
        if "err" in model:
            ctx.disagree(f"{op}: implementation returns, model refuses", bare, model, d)
            continue
        if canon(model["ok"]) != canon(d["ok"]):
            ctx.disagree(f"{op}: returned cells", bare, {"n": len(model["ok"]), "cells": model["ok"][:40]},
                         {"n": len(d["ok"]), "cells": d["ok"][:40]})


if __name__ == "__main__":
    common.run_check(
        "C15", module="Bermuda.Properties.C15", driver_targets=["drv_c15"],
        correspondence=correspondence, level="proof",
        rule="random month-aligned triangles (period length 1/3/6/12 months, lag step 1/3/6/12; shapes complete, "
             "upper-left, ragged, single period, single lag, skipped period; 1-3 slices with equal or independent "
             "layouts; CumulativeCell / Cell / IncrementalCell incl. a broken-chain stream; scalar and array values) "
             "x {make_right_triangle (own lags / lag lists: ranges, other steps, unsorted, float, fractional, duplicate, "
             "empty; units month(s)/day(s)/timedelta/invalid), make_right_diagonal (dates after / inside / before the "
             "data, non-month-end, duplicates; include_historic), fill_forward_gaps (inferred / compatible / "
             "incompatible resolution; fill_with_none), backfill (static field lists incl. a missing field; inferred / "
             "explicit resolution; minimum lags -12..6)}; plus a SEQUENCE stream (30 %): 1-2 priming calls of the same / a "
             "related operator on other triangles (incl. ones lacking earned_premium, calls that raise), then the call "
             "under test with default arguments, run twice on the same triangle with the first result damaged in place "
             "in between (identical dumps required), accessors of input and output re-read; plus a DERIVED stream (25 %): a "
             "parent on a fine evaluation grid whose cached accessors (eval_date_resolution, period_resolution, periods, "
             "evaluation_dates, dev_lags(), slices, metadata, is_regular() ...) were read, a sub-triangle derived through "
             "filter / clip / [...] / select / derive_metadata (mostly a coarser lag grid with gaps and late-starting "
             "periods), then the operator with default arguments; the model runs on the derived triangle's cells. distinct = distinct canonical (cells, parameters) dump; "
             "non-trivial = more than one observed cell",
        assumptions=["month-aligned triangles from 1996 on (add_months is exact there; D8 concerns dates before 1970)",
                     "fill_forward_gaps / backfill on a single evaluation date need an explicit eval_resolution",
                     "fill placement clauses need eval_resolution > 0 dividing every within-row lag difference",
                     "backfill iterates period_rows: only the first slice of a period is backfilled (no per-slice "
                     "completeness clause in C15; observation D17 in notes/agents/c15.md)",
                     "eval_resolution >= 1 for backfill (0 or negative loops forever)",
                     "bridge theorems extensionSpec_model_fill / _backfill: canonical input triangle with canonical "
                     "metadata and no coordinate occupied twice (SpecDomain); backfill: every cell the loop would create "
                     "passes the Cell constructor and lies in a month from 1970 on (BackfillOk)",
                     "NaN-free numeric values; one field set per row for incremental input"],
        trusted=["date arithmetic add_months / dev_lag_months as modelled in Model/DateUtils.lean (property C12)",
                 "to_cumulative / to_incremental as modelled in Model/Basis.lean (property C04)"],
    )
