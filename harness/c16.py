"""C16 — blending is a per-cell convex combination or mixture of the inputs.

Correspondence between `bermuda.utils.blend` / `Triangle.blend` and the Lean model (drv_c16), with
the Lean Spec predicates (structure, linear value, convexity, agreement, mixture membership,
degenerate weights) evaluated on the IMPLEMENTATION's output.

numpy's legacy RNG is outside the model: `np.random.choice` is wrapped in this process, every
vector it returns is recorded with its (size, p), and the model is run on the recorded vectors.
"""
import datetime
import json
import os
from fractions import Fraction

import numpy as np

import common
from common import w_cells, w_rat, canon_cell, call
import gen
from bermuda import Cell, CumulativeCell, IncrementalCell, Triangle, blend

TOL = Fraction(1, 2 ** 40)


# ---- recording numpy's draws ----------------------------------------------------------------

class ChoiceRecorder:
    """wraps `np.random.choice` (the only RNG call of `_mixture_blend`)"""

    def __enter__(self):
        self.calls = []
        self.orig = np.random.choice

        def wrapped(a, size=None, replace=True, p=None):
            r = self.orig(a, size, replace, p)
            self.calls.append((int(size), [float(x) for x in p], [int(x) for x in np.atleast_1d(r)]))
            return r

        np.random.choice = wrapped
        return self

    def __exit__(self, *exc):
        np.random.choice = self.orig
        return False

    def table(self):
        """distinct (S, p) -> idx ; second component: True if one key saw two different vectors"""
        tab, clash = {}, False
        for S, p, idx in self.calls:
            k = (S, tuple(p))
            if k in tab and tab[k] != idx:
                clash = True
            tab.setdefault(k, idx)
        return [[S, [w_rat(x) for x in p], idx] for (S, p), idx in tab.items()], clash


# ---- generators -------------------------------------------------------------------------------

def skeleton(rng, kind=None):
    """canonical list of cells with pairwise distinct coordinates (values are replaced later)"""
    kind = kind or rng.choice(["C", "U", "I"])
    cells = gen.rand_cells(rng, n_slices=rng.choice([1, 1, 2, 3]),
                           layout=rng.choice(["regular", "regular", "ragged", "daily"]),
                           kind=kind, vkind="int", max_cells=rng.choice([1, 2, 4, 7, 10]))
    seen, out = set(), []
    for c in Triangle(cells).cells:
        k = (c.metadata, c.period, c.evaluation_date, getattr(c, "prev_evaluation_date", None))
        if k not in seen:
            seen.add(k)
            out.append(c)
    return kind, out


def rand_val(rng, kind, S):
    if kind == "int":
        return rng.randrange(0, 4096)
    if kind == "float":
        return float(gen.dyadic(rng))
    if kind == "farr":
        return np.array([gen.dyadic(rng) for _ in range(S)], dtype=np.float64)
    if kind == "iarr":
        return np.array([rng.randrange(0, 4096) for _ in range(S)], dtype=np.int64)
    if kind == "arr1":
        return np.array([gen.dyadic(rng)], dtype=np.float64)
    raise ValueError(kind)


def make_values(rng, skel, M, method, agree=False, S=None, kinds=None, n_fields=None):
    """values[j][i] = dict for triangle j, cell i. Mixture: scalar fields equal across triangles,
    sample fields arrays of one length. Linear: scalars, samples and length-1 arrays mixed freely."""
    fields = rng.sample(gen.FIELDS, rng.randrange(1, 4))
    S0 = rng.choice([1, 2, 3, 5, 8])
    S = S or S0
    if n_fields:
        fields = rng.sample(gen.FIELDS, n_fields)
    plan = {}
    for f in fields:
        if method == "mixture":
            plan[f] = rng.choice(["int", "float", "farr", "farr", "iarr"])
        else:
            plan[f] = rng.choice(["int", "float", "farr", "iarr", "mixed", "mixed"])
        if kinds:
            plan[f] = rng.choice(kinds)
    vals = [[{} for _ in skel] for _ in range(M)]
    for i in range(len(skel)):
        for f in fields:
            k = plan[f]
            if method == "mixture" and k in ("int", "float"):
                v = rand_val(rng, k, S)
                for j in range(M):
                    vals[j][i][f] = v
            elif agree:
                v = rand_val(rng, "farr" if k == "mixed" else k, S)
                for j in range(M):
                    vals[j][i][f] = v.copy() if isinstance(v, np.ndarray) else v
            else:
                for j in range(M):
                    kk = rng.choice(["int", "float", "farr", "iarr", "arr1"]) if k == "mixed" else k
                    vals[j][i][f] = rand_val(rng, kk, S)
    order = list(fields)
    for j in range(M):          # dict order of the fields differs between triangles
        rng.shuffle(order)
        for i in range(len(skel)):
            vals[j][i] = {f: vals[j][i][f] for f in order}
    return vals, S


def dyadic_convex(rng, M):
    k = rng.choice([1, 2, 3, 4])
    tot = 1 << k
    cuts = sorted(rng.randrange(0, tot + 1) for _ in range(M - 1))
    parts = [b - a for a, b in zip([0] + cuts, cuts + [tot])]
    return [p / tot for p in parts]


def dyadic_any(rng, M):
    return [rng.randrange(-16, 33) / 8 for _ in range(M)]


KEY_POOL = ["paid_model", "incurred_model", "bf", "cl", "zeta", "alpha", "t2", "t1", "t10", "m", "a", "Z", "b",
            "tri2", "tri1", "prior", "blend", "x", "Ünder", "_"]


def dict_keys(rng, M):
    """M distinct dict keys in RANDOM insertion order (mostly not alphabetical): the rows of the weight
    matrix follow INSERTION order, never key order"""
    ks = rng.sample(KEY_POOL, M)
    if M > 1 and rng.random() < 0.5:
        ks = sorted(ks, reverse=True)
    return ks


def make_weights(rng, M, n_cells, method, convex):
    """(python weights object, per-cell convex flag)"""
    form = rng.choice(["none", "list", "list", "dict1", "dict1", "dictn", "dictn", "dictmat"])
    vec = (lambda: dyadic_convex(rng, M)) if convex else (lambda: dyadic_any(rng, M))
    if form == "none":
        return None, "none"
    if form == "list":
        w = vec()
        if rng.random() < 0.3:
            w = [int(x) if float(x).is_integer() else x for x in w]
        return w, "list"
    if form == "dict1":
        w = vec()
        style = rng.choice(["list", "scalar", "2d", "np"])
        d, ks = {}, dict_keys(rng, M)
        for j, x in enumerate(w):
            d[ks[j]] = {"list": [x], "scalar": x, "2d": np.array([[x]]), "np": np.array([x])}[style]
        return d, "dict-global"
    cols = [vec() for _ in range(n_cells)]           # cols[i][j] = weight of triangle j at cell i
    if form == "dictn":
        style = rng.choice(["list", "np", "2d"])
        d, ks = {}, dict_keys(rng, M)
        for j in range(M):
            row = [cols[i][j] for i in range(n_cells)]
            d[ks[j]] = {"list": row, "np": np.array(row), "2d": np.array([row])}[style]
        return d, "dict-percell"
    mat = np.array([[cols[i][j] for i in range(n_cells)] for j in range(M)], dtype=float)
    if M >= 2 and rng.random() < 0.5:
        ka, kb = dict_keys(rng, 2)
        return {ka: mat[:1], kb: mat[1:]}, "dict-matrix"
    return {"all": mat}, "dict-matrix"


def w_weights(w):
    if w is None:
        return None
    if isinstance(w, list):
        return ["l", [w_rat(x) for x in w]]
    if isinstance(w, dict):
        out = []
        for v in w.values():
            a = np.asarray(v, dtype=float)
            if a.ndim == 0:
                out.append(["s", w_rat(float(a))])
            elif a.ndim == 1:
                out.append(["v", [w_rat(x) for x in a.tolist()]])
            else:
                out.append(["m", [[w_rat(x) for x in r] for r in a.tolist()]])
        return ["d", out]
    return ["o"]


def build(kind, skel, vals):
    cls = {"C": Cell, "U": CumulativeCell, "I": IncrementalCell}[kind]
    cells = []
    for c, v in zip(skel, vals):
        if kind == "I":
            prev = getattr(c, "prev_evaluation_date", None) or (c.period_start - datetime.timedelta(days=1))
            cells.append(cls(c.period_start, c.period_end, prev, c.evaluation_date, v, c.metadata))
        else:
            cells.append(cls(c.period_start, c.period_end, c.evaluation_date, v, c.metadata))
    return cells


REFUSALS = ["len", "kind", "coord-date", "coord-meta", "coord-prev", "coord-prev", "fields", "scalar-unequal", "type-mixed",
            "type-intfloat", "wlen", "dictcols", "dictragged", "dictempty", "sum", "neg",
            "single-half", "tuple", "method", "none-value", "arrlen", "notlist"]
# refusals the property itself names: the call must raise
NAMED = {"len", "kind", "coord-date", "coord-meta", "coord-prev", "scalar-unequal"}


def one_case(rng, stream, force=None):
    """returns dict(tris=[list of cells], weights, method, seed, flags...). `force` (lesson streams): M, refusal,
    late=True (the deviating triangle is the LAST one), method"""
    force = force or {}
    refusal = rng.choice(REFUSALS) if stream == "refusal" else None
    refusal = force.get("refusal", refusal)
    if refusal is not None:
        stream = "refusal"
    # coord-prev: INCREMENTAL triangles that differ only in one cell's prev_evaluation_date
    kind, skel = skeleton(rng, "I" if refusal == "coord-prev" else force.get("kind"))
    M = force.get("M") or rng.choice([1, 2, 2, 3, 4])
    method = force.get("method") or rng.choice(["linear", "mixture"])

    def pick(lo):
        """index of the triangle that deviates"""
        return M - 1 if force.get("late") else rng.randrange(lo, M)
    if stream == "single-dict":                       # D17 (fixed): one triangle, dict weights
        M = 1
    if stream == "refusal":
        if refusal in ("scalar-unequal", "type-mixed", "type-intfloat", "sum", "neg"):
            method = "mixture"
        if refusal in ("len", "kind", "coord-date", "coord-meta", "coord-prev", "fields", "scalar-unequal", "type-mixed",
                       "type-intfloat", "arrlen", "wlen"):
            M = max(M, 2)
        if refusal == "single-half":
            M = 1
    agree = stream == "agree"
    if agree:
        method = "linear"
    convex = method == "mixture" or agree or rng.random() < 0.6
    vals, S = make_values(rng, skel, M, method, agree=agree)
    n = len(skel)
    weights, wform = make_weights(rng, M, n, method, convex)
    if stream == "single-dict":
        weights = rng.choice([{"x": [1.0]}, {"x": 1.0}, {"x": np.array([[1.0]])},
                              {"x": [1.0] * n}, {"x": np.ones((1, n))}])
        wform = "dict-single"
    degenerate = None
    if stream == "degenerate":
        method = "mixture"
        vals, S = make_values(rng, skel, M, method)
        degenerate = rng.randrange(M)
        e = [1.0 if j == degenerate else 0.0 for j in range(M)]
        ks = dict_keys(rng, M)
        weights = rng.choice([e, {ks[j]: [x] for j, x in enumerate(e)},
                              {ks[j]: [x] * n for j, x in enumerate(e)}])
        wform = "degenerate"
    seed = rng.choice([None, 0, 1, 1234, rng.randrange(1 << 31)]) if method == "mixture" else rng.choice([None, 7])
    tris = [build(kind, skel, vals[j]) for j in range(M)]
    as_list = True
    meth_arg = method
    if rng.random() < 0.15:
        meth_arg = rng.choice([method.upper(), method.capitalize()])

    # ---- one deliberate cause of refusal ----
    if refusal == "len":
        j = pick(0)
        if force.get("longer"):
            # one MORE cell than the others (a further evaluation date of its last cell)
            c = tris[j][-1]
            later = c.evaluation_date + datetime.timedelta(days=365)
            tris[j] = tris[j] + [IncrementalCell(c.period_start, c.period_end, c.evaluation_date, later, c.values, c.metadata)
                                 if kind == "I" else c.replace(evaluation_date=later)]
        else:
            tris[j] = tris[j][:-1] if rng.random() < 0.5 else tris[j][1:]
    elif refusal == "kind":
        other = rng.choice([k for k in "CUI" if k != kind])
        j = pick(1)
        tris[j] = build(other, skel, vals[j])
    elif refusal in ("coord-date", "coord-meta"):
        j, i = pick(1), rng.randrange(n)
        c = tris[j][i]
        if refusal == "coord-date":
            tris[j][i] = c.replace(evaluation_date=c.evaluation_date + datetime.timedelta(days=rng.choice([1, 31, 400])))
        else:
            tris[j][i] = c.derive_metadata(zz_blend="other")
    elif refusal == "coord-prev":
        # same length, same slices, periods and evaluation dates; one increment starts earlier
        j, i = pick(1), rng.randrange(n)
        if rng.random() < 0.3 and not force.get("late"):
            j = 0                                      # the odd one may also be the FIRST triangle
        c = tris[j][i]
        newprev = c.prev_evaluation_date - datetime.timedelta(days=rng.choice([1, 30, 183, 365]))
        tris[j][i] = IncrementalCell(c.period_start, c.period_end, newprev, c.evaluation_date, c.values, c.metadata)
    elif refusal == "fields":
        j, i = pick(0), rng.randrange(n)
        c = tris[j][i]
        if len(c.values) > 1 and rng.random() < 0.5:
            keep = list(c.values)[:-1]
            tris[j][i] = c.replace(values={k: c.values[k] for k in keep})
        else:
            tris[j][i] = c.replace(values={**c.values, "extra_field": 1})
    elif refusal in ("scalar-unequal", "type-mixed", "type-intfloat", "none-value", "arrlen"):
        j, i = pick(0), rng.randrange(n)
        f = rng.choice(sorted(tris[0][i].values))
        if refusal == "scalar-unequal":
            for jj in range(M):
                tris[jj][i] = tris[jj][i].replace(values={**tris[jj][i].values, f: 10 + (1 if jj == j else 0)})
        elif refusal == "type-mixed":
            for jj in range(M):
                tris[jj][i] = tris[jj][i].replace(values={**tris[jj][i].values,
                                                          f: np.array([1.0, 2.0]) if jj == j else 5})
        elif refusal == "type-intfloat":
            for jj in range(M):
                tris[jj][i] = tris[jj][i].replace(values={**tris[jj][i].values, f: 5.0 if jj == j else 5})
        elif refusal == "none-value":
            for jj in range(M):
                tris[jj][i] = tris[jj][i].replace(values={**tris[jj][i].values, f: None})
        else:
            for jj in range(M):
                L = 2 if jj == j else 3
                tris[jj][i] = tris[jj][i].replace(values={**tris[jj][i].values, f: np.arange(L) * 1.0})
            if M == 1:
                refusal = None
    elif refusal == "wlen":
        weights = dyadic_convex(rng, M + rng.choice([-1, 1, 2])) if M > 1 else [1.0, 0.0]
        if not weights:
            weights = [1.0, 0.0]
    elif refusal == "dictcols":
        bad = n + rng.choice([1, 2]) if n != 2 or rng.random() < 0.5 else 2
        if bad == n or bad == 1:
            bad = n + 1
        weights = {f"t{j}": [1.0 / 4] * bad for j in range(M)}
    elif refusal == "dictragged":
        weights = {"a": [0.5, 0.5], "b": [0.5]} if M != 1 else {"a": [1.0, 1.0], "b": [1.0]}
    elif refusal == "dictempty":
        weights = {}
    elif refusal == "sum":
        w = dyadic_convex(rng, M)
        w[0] += rng.choice([0.5, -0.25, 1 / 1024])
        weights = w if M > 1 else {"x": [w[0]]}
    elif refusal == "neg":
        weights = ([1.5, -0.5] + [0.0] * (M - 2)) if M > 1 else {"x": [1.5], "y": [-0.5]}
    elif refusal == "single-half":
        weights = [rng.choice([0.5, 0.0, 2.0])]
    elif refusal == "tuple":
        weights = tuple(dyadic_convex(rng, M))
    elif refusal == "method":
        meth_arg = rng.choice(["foo", "", "linea", "mix"])
    elif refusal == "notlist":
        as_list = False
    for j in range(M):                                 # input order must not matter
        if rng.random() < 0.5:
            tris[j] = rng.sample(tris[j], len(tris[j]))
    return dict(tris=tris, weights=weights, method=meth_arg, base_method=method, seed=seed, M=M,
                refusal=refusal, convex=convex and refusal is None, agree=agree, degenerate=degenerate,
                as_list=as_list, wform=wform, kind=kind, S=S, n=n)


# ---------------------------------------------------------------------------------------------------------
# Generator lessons of seeded batch 4 (BUILD_GUIDE, round 6): a fixed quota of each input kind per run
# ---------------------------------------------------------------------------------------------------------

def skel_from_rows(rng, rows_per_meta, kind):
    cells = []
    for m, rows in rows_per_meta:
        cells += gen.cells_from_layout(rng, rows, m, kind=kind, fields=["paid_loss"], vkind="int")
    return list(Triangle(cells).cells)


def regular_skel(rng, kind, n_slices=1, n_periods=2, n_lags=2, res=3):
    metas = sorted(gen.rand_metas(rng, n_slices))
    y = rng.randrange(2001, 2026)
    rows = []
    for i in range(n_periods):
        ps = gen.add_months_int(datetime.date(y, 1, 1), i * res)
        pe = gen.add_months_int(ps, res - 1, end=True)
        rows.append((ps, pe, [gen.add_months_int(pe, k * res, end=True) for k in range(n_lags)]))
    return skel_from_rows(rng, [(m, rows) for m in metas], kind)


def assemble(rng, kind, skel, M, method, vals, S, weights, wform, seed, tags, convex=True, degenerate=None, **extra):
    tris = [build(kind, skel, vals[j]) for j in range(M)]
    for j in range(M):
        if rng.random() < 0.5:
            tris[j] = rng.sample(tris[j], len(tris[j]))
    c = dict(tris=tris, weights=weights, method=method, base_method=method, seed=seed, M=M, refusal=None,
             convex=convex, agree=False, degenerate=degenerate, as_list=True, wform=wform, kind=kind, S=S,
             n=len(skel), tags=list(tags))
    c.update(extra)
    return c


def zero_vector(rng, M, where):
    """convex dyadic weights with EXACT zeros (leading / middle / trailing / several) and >= 2 positive entries"""
    zeros = {"leading": {0}, "trailing": {M - 1}, "middle": {rng.randrange(1, M - 1)},
             "several": {0, rng.randrange(1, M - 1)} if M >= 4 else {0},
             "ends": {0, M - 1} if M >= 4 else {M - 1}}[where]
    live = [j for j in range(M) if j not in zeros]
    tot = 16
    cuts = sorted(rng.sample(range(1, tot), len(live) - 1))
    parts = [b - a for a, b in zip([0] + cuts, cuts + [tot])]
    w = [0.0] * M
    for j, p_ in zip(live, parts):
        w[j] = p_ / tot
    return w


def weights_from_cols(rng, cols, form, M, n):
    """cols[i][j] = weight of triangle j at cell i"""
    if form == "list":
        w = list(cols[0])
        if rng.random() < 0.5:
            w = [int(x) if float(x).is_integer() else x for x in w]      # int 0 next to floats
        return w, "list"
    ks = dict_keys(rng, M)
    if form == "dict-global":
        style = rng.choice(["list", "scalar", "2d", "np"])
        return {ks[j]: {"list": [x], "scalar": x, "2d": np.array([[x]]), "np": np.array([x])}[style]
                for j, x in enumerate(cols[0])}, "dict-global"
    style = rng.choice(["list", "np", "2d"])
    d = {}
    for j in range(M):
        row = [cols[i][j] for i in range(n)]
        d[ks[j]] = {"list": row, "np": np.array(row), "2d": np.array([row])}[style]
    return d, "dict-percell"


def seed_for(rng, method):
    return rng.choice([0, 1, 1234, rng.randrange(1 << 31)]) if method == "mixture" else rng.choice([None, 7])


def large_cases(rng):
    """lesson 1 — sample counts 40 / 256 / 1000 (and 80, 255, 257), >= 256 cells with per-cell weights"""
    out = []
    for S in (40, 256, 1000, rng.choice([80, 255, 257, 4096])):
        for method in ("linear", "mixture"):
            kind = rng.choice(["C", "U", "I"])
            skel = regular_skel(rng, kind, n_slices=rng.choice([1, 2]), n_periods=rng.choice([1, 2]), n_lags=rng.choice([1, 2]))
            M = rng.choice([2, 3, 3, 4])
            vals, S_ = make_values(rng, skel, M, method, S=S, kinds=["farr", "iarr", "farr", "mixed" if method == "linear" else "int"],
                                   n_fields=rng.choice([1, 2]))
            form = rng.choice(["list", "dict-global", "dict-percell", "none"])
            # linear: also weights that do not sum to 1 (always for 256, never for 1000)
            convex = method == "mixture" or S == 1000 or (S != 256 and rng.random() < 0.5)
            if not convex and form == "none":
                form = "list"
            if form == "none":
                weights, wform, convex = None, "none", True
            else:
                cols = [dyadic_convex(rng, M) if convex else dyadic_any(rng, M) for _ in skel]
                weights, wform = weights_from_cols(rng, cols, form, M, len(skel))
            out.append(assemble(rng, kind, skel, M, method, vals, S, weights, wform, seed_for(rng, method),
                                ["large", f"S={S if S in (40, 256, 1000) else 'other'}"] + ([] if convex else ["large-nonconvex"]),
                                convex=convex))
    # many cells: 26 x 10 (260) or 32 x 9 cells, per-cell weights (one column per cell)
    for method in ("linear", "mixture"):
        kind = rng.choice(["C", "U", "I"])
        skel = regular_skel(rng, kind, n_slices=1, n_periods=rng.choice([26, 32]), n_lags=rng.choice([10, 9]), res=1)
        M = rng.choice([2, 3])
        vals, S = make_values(rng, skel, M, method, S=2, kinds=["farr", "iarr"], n_fields=1)
        cols = [dyadic_convex(rng, M) for _ in skel]
        weights, wform = weights_from_cols(rng, cols, "dict-percell", M, len(skel))
        out.append(assemble(rng, kind, skel, M, method, vals, S, weights, wform, seed_for(rng, method), ["large", "cells>=256"]))
    return out


def overlap_cases(rng):
    """lesson 2 — non-disjoint periods: cells of one slice that share period_start (or period_end) and the
    evaluation date and differ only in the other period bound; per-cell weights tell them apart"""
    out = []
    for variant in ("same-start", "same-start", "same-end", "same-start"):
        for method in ("linear", "mixture"):
            kind = rng.choice(["C", "U", "I"])
            y = rng.randrange(2001, 2026)
            last = gen.month_end(y, 12)
            evs = [gen.add_months_int(last, 6 * k, end=True) for k in range(rng.choice([1, 2]))]
            spans = [(1, 3), (1, 6), (1, 12)] if variant == "same-start" else [(10, 12), (7, 12), (1, 12)]
            if rng.random() < 0.5:
                spans.append((4, 6))
            rows = [(datetime.date(y, a, 1), gen.month_end(y, b), evs) for a, b in spans]
            skel = skel_from_rows(rng, [(m, rows) for m in sorted(gen.rand_metas(rng, rng.choice([1, 2])))], kind)
            M = rng.choice([2, 3])
            vals, S = make_values(rng, skel, M, method, kinds=["farr", "iarr", "farr", "float" if method == "linear" else "farr"])
            cols = [dyadic_convex(rng, M) for _ in skel]
            weights, wform = weights_from_cols(rng, cols, rng.choice(["dict-percell", "dict-percell", "list"]), M, len(skel))
            out.append(assemble(rng, kind, skel, M, method, vals, S, weights, wform, seed_for(rng, method), ["overlap", variant]))
    return out


def midmonth_cases(rng):
    """lesson 3 — dates off the month grid: half-month periods (1st–15th, 16th–month end) evaluated on the 15th and at
    the end of the same months: cells that agree in every month id"""
    out = []
    for method in ("linear", "mixture", rng.choice(["linear", "mixture"])):
        kind = rng.choice(["C", "U", "I"])
        y, m = rng.randrange(2001, 2026), rng.randrange(1, 13)
        pts = []
        for k in range(8):
            yy, mm = divmod(y * 12 + m - 1 + k // 2, 12)
            pts.append(datetime.date(yy, mm + 1, 15) if k % 2 == 0 else gen.month_end(yy, mm + 1))
        rows = []
        for i in range(rng.choice([2, 3, 4])):
            pe = pts[i]
            ps = pe.replace(day=1) if pe.day == 15 else pe.replace(day=16)
            rows.append((ps, pe, [pts[i + k] for k in range(rng.choice([2, 3]))]))
        skel = skel_from_rows(rng, [(mm_, rows) for mm_ in sorted(gen.rand_metas(rng, rng.choice([1, 2])))], kind)
        M = rng.choice([2, 3])
        vals, S = make_values(rng, skel, M, method, kinds=["farr", "iarr"])
        cols = [dyadic_convex(rng, M) for _ in skel]
        weights, wform = weights_from_cols(rng, cols, "dict-percell", M, len(skel))
        out.append(assemble(rng, kind, skel, M, method, vals, S, weights, wform, seed_for(rng, method), ["mid-month"]))
    return out


def late_cases(rng):
    """lesson 4 — >= 3 triangles: exact-zero weights in leading / middle / trailing positions with >= 2 positive ones
    (both methods; list, global dict, per-cell dict whose zero moves from cell to cell); values in which only the LAST
    of 4–5 triangles differs; named refusals whose cause sits in the LAST of 4–5 triangles"""
    out = []
    for where in ("leading", "middle", "trailing", "several", "ends"):
        for method in ("linear", "mixture"):
            kind = rng.choice(["C", "U", "I"])
            skel = regular_skel(rng, kind, n_slices=rng.choice([1, 2]), n_periods=rng.choice([1, 2, 3]), n_lags=rng.choice([1, 2]))
            M = rng.choice([3, 4, 5]) if where in ("leading", "middle", "trailing") else rng.choice([4, 5])
            vals, S = make_values(rng, skel, M, method, S=rng.choice([8, 16, 40]),
                                  kinds=["farr", "iarr"] + (["mixed", "mixed"] if method == "linear" else []))
            form = rng.choice(["list", "dict-global", "dict-percell"])
            if form == "dict-percell":
                order = ["leading", "middle", "trailing"]
                cols = [zero_vector(rng, M, where if i == 0 else rng.choice(order)) for i in range(len(skel))]
            else:
                cols = [zero_vector(rng, M, where)] * len(skel)
            weights, wform = weights_from_cols(rng, cols, form, M, len(skel))
            out.append(assemble(rng, kind, skel, M, method, vals, S, weights, wform, seed_for(rng, method),
                                ["zero-weights", "zero-" + where, f"zero-{method}"]))
    # only the last triangle differs in its values (the others are copies of the first)
    for method in ("linear", "mixture"):
        kind = rng.choice(["C", "U", "I"])
        skel = regular_skel(rng, kind, n_slices=1, n_periods=2, n_lags=rng.choice([1, 2]))
        M = rng.choice([4, 5])
        vals, S = make_values(rng, skel, 2, method, S=rng.choice([5, 8]), kinds=["farr", "iarr"])
        vals = [[{f: (v.copy() if isinstance(v, np.ndarray) else v) for f, v in cv.items()} for cv in vals[0]]
                for _ in range(M - 1)] + [vals[1]]
        w = [1 / 8] * (M - 1) + [1 - (M - 1) / 8]
        weights, wform = weights_from_cols(rng, [w] * len(skel), rng.choice(["list", "dict-global"]), M, len(skel))
        out.append(assemble(rng, kind, skel, M, method, vals, S, weights, wform, seed_for(rng, method), ["late-values"]))
    # named refusals caused by the LAST of 4–5 triangles; scalar pattern a,a,b,b
    for refusal, more in (("len", {}), ("len", {"longer": True}), ("kind", {"kind": "C"}), ("kind", {"kind": "I"}),
                          ("kind", {"kind": "U"}), ("coord-date", {}), ("coord-meta", {}), ("coord-prev", {}),
                          ("coord-prev", {}), ("scalar-unequal", {}), ("fields", {})):
        for _ in range(20):
            c = one_case(rng, "refusal", force={"refusal": refusal, "M": rng.choice([4, 5]), "late": True, **more})
            if c["n"] >= 1 and c["refusal"] == refusal:
                c["tags"] = ["late-refusal", "late-" + refusal + ("-longer" if more.get("longer") else "")]
                out.append(c)
                break
    kind = rng.choice(["C", "U"])
    skel = regular_skel(rng, kind)
    vals = [[{"paid_loss": np.arange(3) * 1.0 + j, "reported_claims": 5 if j < 2 else 6} for _ in skel] for j in range(4)]
    c = assemble(rng, kind, skel, 4, "mixture", vals, 3, [0.25] * 4, "list", 3, ["late-refusal", "late-scalar-aabb"], convex=False)
    c["refusal"] = "scalar-unequal"
    out.append(c)
    return out


def options_cases(rng):
    """lesson 5 — every optional argument given (weights + method + seed) and none of them"""
    out = []
    for variant, method in (("all", "linear"), ("all", "mixture"), ("all", "mixture"), ("none", "mixture"), ("none", "mixture")):
        kind = rng.choice(["C", "U", "I"])
        skel = regular_skel(rng, kind, n_slices=rng.choice([1, 2]), n_periods=rng.choice([1, 2, 3]), n_lags=rng.choice([1, 2]))
        M = rng.choice([1, 2, 3, 4])
        vals, S = make_values(rng, skel, M, method, S=rng.choice([3, 8]))
        if variant == "all":
            cols = [dyadic_convex(rng, M) for _ in skel]
            weights, wform = weights_from_cols(rng, cols, rng.choice(["list", "dict-global", "dict-percell"]), M, len(skel))
            seed = rng.choice([0, 5, rng.randrange(1 << 31)])
        else:
            weights, wform, seed = None, "none", None
        out.append(assemble(rng, kind, skel, M, method, vals, S, weights, wform, seed, ["options", "options-" + variant],
                            omit_defaults=variant == "none"))
    return out


def revalue(rng, vals, method):
    """other values of the same kinds and sizes (mixture: scalars stay equal across the triangles)"""
    M, n = len(vals), len(vals[0])
    out = [[{} for _ in range(n)] for _ in range(M)]
    for i in range(n):
        for f in vals[0][i]:
            shared = None
            for j in range(M):
                v = vals[j][i][f]
                if isinstance(v, np.ndarray):
                    nv = np.array([rng.randrange(0, 4096) for _ in range(v.size)], dtype=v.dtype)
                elif method == "mixture":
                    if shared is None:
                        shared = type(v)(rng.randrange(0, 4096))
                    nv = shared
                else:
                    nv = type(v)(rng.randrange(0, 4096))
                out[j][i][f] = nv
    return out


def twin_cases(rng):
    """lesson 6 — blend of A-triangles, then of B-triangles with the SAME coordinates, field kinds, sizes, weights,
    method and seed but other values (consecutive cases of one process)"""
    out = []
    for method in ("linear", "mixture", "mixture"):
        kind = rng.choice(["C", "U", "I"])
        skel = regular_skel(rng, kind, n_slices=rng.choice([1, 2]), n_periods=rng.choice([1, 2, 3]), n_lags=rng.choice([1, 2]))
        M = rng.choice([2, 3])
        vals, S = make_values(rng, skel, M, method, S=rng.choice([3, 8, 40]))
        cols = [dyadic_convex(rng, M) for _ in skel]
        weights, wform = weights_from_cols(rng, cols, rng.choice(["list", "dict-global", "dict-percell"]), M, len(skel))
        seed = seed_for(rng, method)
        out.append(assemble(rng, kind, skel, M, method, vals, S, weights, wform, seed, ["twin", "twin-first"]))
        out.append(assemble(rng, kind, skel, M, method, revalue(rng, vals, method), S, weights, wform, seed,
                            ["twin", "twin-second"]))
    return out


def derived_cases(rng):
    """lesson 7 — the inputs are DERIVED (select / filter / clip / slicing / derive_fields) from parent triangles whose
    cached accessors were all read and which were blended once; the derived ones are blended with default arguments"""
    import c09_seq as SEQ
    out = []
    for how in ("select", "filter-slice", "clip-eval", "slice-int", "derive-fields", "select"):
        method = rng.choice(["linear", "mixture"])
        kind = rng.choice(["C", "U", "I"])
        skel = regular_skel(rng, kind, n_slices=2, n_periods=rng.choice([2, 3]), n_lags=rng.choice([2, 3]))
        M = rng.choice([2, 3])
        vals, S = make_values(rng, skel, M, method, S=rng.choice([3, 8]), kinds=["farr", "iarr"], n_fields=rng.choice([2, 3]))
        parents = [Triangle(build(kind, skel, vals[j])) for j in range(M)]
        for p_ in parents:
            SEQ.read_accessors(p_)
            accessors(p_)
        call(blend, parents, method=method, seed=3)
        keep_meta = skel[-1].metadata
        cut_e = sorted({c.evaluation_date for c in skel})[len({c.evaluation_date for c in skel}) // 2]
        first_field = sorted(vals[0][0])[0]
        f = {"select": lambda t: t.select([first_field]),
             "filter-slice": lambda t: t.filter(lambda c: c.metadata == keep_meta),
             "clip-eval": lambda t: t.clip(max_eval=cut_e),
             "slice-int": lambda t: t[1:],
             "derive-fields": lambda t: t.derive_fields(**{first_field: lambda c: c[first_field] * 2})}[how]
        derived = [f(p_) for p_ in parents]
        n = len(derived[0])
        if n == 0:
            continue
        variant = rng.choice(["defaults", "defaults", "weights"])
        if variant == "defaults":
            method, weights, wform, seed = "mixture" if method == "mixture" else "linear", None, "none", None
        else:
            cols = [dyadic_convex(rng, M) for _ in range(n)]
            weights, wform = weights_from_cols(rng, cols, rng.choice(["list", "dict-percell"]), M, n)
            seed = seed_for(rng, method)
        out.append(dict(tris=[list(t.cells) for t in derived], inner=derived, weights=weights, method=method,
                        base_method=method, seed=seed, M=M, refusal=None, convex=True, agree=False, degenerate=None,
                        as_list=True, wform=wform, kind=kind, S=S, n=n, omit_defaults=True,
                        tags=["derived", "derived-" + how, "derived-" + variant]))
    return out


def falsy_cases(rng):
    """lesson 8 — falsy weights and values everywhere: scalar 0 / 0.0 and all-zero arrays in every cell of every
    triangle, int 0 / float 0.0 weights, seed 0, limit 0 and falsy details in every slice"""
    from bermuda import Metadata
    out = []
    for variant in ("scalar-0", "scalar-0.0", "zero-arrays", "weights-int-0", "meta-falsy", "single-weight-1"):
        for method in ("linear", "mixture"):
            kind = rng.choice(["C", "U", "I"])
            if variant == "meta-falsy":
                metas = sorted([Metadata(per_occurrence_limit=0, details={"flag": False, "n": 0, "s": ""}, country="",
                                         loss_details={"x": 0.0}), Metadata(per_occurrence_limit=0.0, currency="")])
                y = rng.randrange(2001, 2026)
                rows = [(datetime.date(y, 1, 1), gen.month_end(y, 12), [gen.month_end(y, 12), gen.month_end(y + 1, 12)])]
                skel = skel_from_rows(rng, [(m, rows) for m in metas], kind)
            else:
                skel = regular_skel(rng, kind, n_slices=rng.choice([1, 2]), n_periods=rng.choice([1, 2]), n_lags=rng.choice([1, 2]))
            M = 1 if variant == "single-weight-1" else rng.choice([2, 3])
            S = rng.choice([3, 5])
            zero = {"scalar-0": 0, "scalar-0.0": 0.0}.get(variant)
            vals = [[{"paid_loss": (np.zeros(S) if variant == "zero-arrays" else
                                    np.array([gen.dyadic(rng) for _ in range(S)])),
                      "reported_claims": (zero if zero is not None else
                                          np.zeros(S, dtype=np.int64) if variant == "zero-arrays" else 0)}
                     for _ in skel] for _ in range(M)]
            if M == 1:
                weights, wform = rng.choice([[1], [1.0], {"x": 1}, {"x": [1.0]}]), "single"
            elif variant == "weights-int-0":
                w = [0] * M
                w[rng.randrange(M)] = 1
                weights, wform = rng.choice([w, {k: x for k, x in zip(dict_keys(rng, M), w)}]), "int-onehot"
            else:
                cols = [zero_vector(rng, M, "leading") if M >= 3 else rng.choice([[0.0, 1.0], [1.0, 0.0], [0.5, 0.5]])
                        for _ in skel]
                weights, wform = weights_from_cols(rng, cols, rng.choice(["list", "dict-global"]), M, len(skel))
                if wform != "dict-percell":
                    cols = [cols[0]] * len(skel)
            deg = None
            if method == "mixture" and M > 1 and isinstance(weights, list) and sorted(weights) == [0] * (M - 1) + [1]:
                deg = weights.index(1)
            out.append(assemble(rng, kind, skel, M, method, vals, S, weights, wform, 0 if method == "mixture" else None,
                                ["falsy", "falsy-" + variant], degenerate=deg))
    # unequal scalars one of which is 0 / 0.0 (named refusal): a, 0, a — a, a, 0 — 0, a, a
    for pattern in ((7, 0, 7), (7, 7, 0), (0, 7, 7), (2.5, 0.0, 2.5)):
        kind = rng.choice(["C", "U", "I"])
        skel = regular_skel(rng, kind, n_periods=rng.choice([1, 2]), n_lags=1)
        vals = [[{"paid_loss": np.array([gen.dyadic(rng) for _ in range(3)]), "open_claims": pattern[j]} for _ in skel]
                for j in range(3)]
        c = assemble(rng, kind, skel, 3, "mixture", vals, 3, rng.choice([None, [0.25, 0.25, 0.5]]), "list", 0,
                     ["falsy", "falsy-scalar-unequal-zero"], convex=False)
        c["refusal"] = "scalar-unequal"
        out.append(c)
    return out


def lesson_cases(rng, reps):
    out = []
    for _ in range(reps):
        for g in (large_cases, overlap_cases, midmonth_cases, late_cases, options_cases, twin_cases, derived_cases,
                  falsy_cases):
            out += g(rng)
    return out


def recomputed(cells):
    sizes = {int(v.size) for c in cells for v in c.values.values() if isinstance(v, np.ndarray) and v.size > 1}
    return {"num_samples": 1 if not sizes else (sizes.pop() if len(sizes) == 1 else "ValueError"),
            "fields": sorted({k for c in cells for k in c.values}),
            "slices": len({c.metadata for c in cells}),
            "periods": len({c.period for c in cells}),
            "len": len(cells)}


def accessors(tri):
    st, ns = call(lambda: tri.num_samples)
    return {"num_samples": int(ns) if st == "ok" else ns, "fields": list(tri.fields), "slices": len(tri.slices),
            "periods": len(tri.periods), "len": len(tri)}


def run_impl(case, via_method, tris=None):
    """`tris`: re-use the SAME Triangle objects (second call of a sequence). Arguments that have their default
    value are left out when the case says so."""
    tris = tris if tris is not None else [Triangle(t) for t in case["tris"]]
    arg = tris if case["as_list"] else tuple(tris)
    kw = {"weights": case["weights"], "method": case["method"], "seed": case["seed"]}
    if case.get("omit_defaults"):
        kw = {k: v for k, v in kw.items() if not (v is None or (k == "method" and v == "mixture"))}
    acc = [accessors(t) for t in tris]                  # cached accessors of the inputs are read beforehand
    with ChoiceRecorder() as rec:
        if via_method and case["as_list"] and len(tris) >= 1:
            res = call(lambda: tris[0].blend(tris[1:], **kw))
        else:
            res = call(blend, arg, **kw)
    rec.inputs_untouched = acc == [accessors(t) for t in tris]
    return tris, res, rec


def sequence_case(rng):
    """blend of blended results: two inner blends of the same inputs (different dyadic convex weights), then the
    case under test blends the two RESULTS"""
    for _ in range(20):
        base = one_case(rng, "plain")
        if base["M"] < 2:
            continue
        inner = []
        for _ in range(2):
            kw = {"weights": dyadic_convex(rng, base["M"]), "method": base["base_method"]}
            if base["base_method"] == "mixture":
                kw["seed"] = rng.randrange(1 << 31)
            st, r = call(blend, [Triangle(t) for t in base["tris"]], **kw)
            if st != "ok":
                break
            inner.append(r)
        if len(inner) < 2:
            continue
        method = rng.choice(["linear", "mixture"])
        convex = method == "mixture" or rng.random() < 0.6
        weights, wform = make_weights(rng, 2, base["n"], method, convex)
        return dict(base, tris=[list(inner[0].cells), list(inner[1].cells)], inner=inner, M=2, weights=weights,
                    wform=wform, method=method, base_method=method, refusal=None, convex=convex, agree=False,
                    degenerate=None, as_list=True,
                    seed=rng.choice([None, 0, 7, rng.randrange(1 << 31)]) if method == "mixture" else None)
    return one_case(rng, "plain")


def dump(res):
    st, v = res
    return {"ok": w_cells(v.cells)} if st == "ok" else {"err": v}


def canon(cells_wire):
    return [canon_cell(c) for c in cells_wire]


def close_cells(a, b, tol):
    """same structure, numeric data within relative tolerance (only used where 1/3 occurs)"""
    if len(a) != len(b):
        return False
    for x, y in zip(canon(a), canon(b)):
        if {k: v for k, v in x.items() if k != "v"} != {k: v for k, v in y.items() if k != "v"}:
            return False
        if [k for k, _ in x["v"]] != [k for k, _ in y["v"]]:
            return False
        for (_, u), (_, v) in zip(x["v"], y["v"]):
            if (u is None) != (v is None):
                return False
            if u is None:
                continue
            if u[0] != v[0] or (u[0] == "a" and (u[1] != v[1] or u[2] != v[2])):
                return False
            du = [Fraction(s) for s in (u[3] if u[0] == "a" else [u[1]])]
            dv = [Fraction(s) for s in (v[3] if v[0] == "a" else [v[1]])]
            if len(du) != len(dv) or any(abs(p - q) > tol * (1 + abs(q)) for p, q in zip(du, dv)):
                return False
    return True


def expected_ps(weights, M):
    """the weight vectors `np.random.choice` may legitimately be called with: 1/M, the list, or a column of the
    stacked dict values (None if the weights argument is not of a blendable form)"""
    if weights is None:
        return [[Fraction(1, M)] * M]
    if isinstance(weights, list):
        return [[Fraction(x) for x in weights]]
    if isinstance(weights, dict):
        rows = []
        for v in weights.values():
            rows += np.atleast_2d(np.asarray(v, dtype=float)).tolist()
        if not rows or len({len(r) for r in rows}) != 1:
            return None
        return [[Fraction(r[i]) for r in rows] for i in range(len(rows[0]))]
    return None


def run_one(ctx, rng, stream, case, ci, reqs, infos):
    case.setdefault("omit_defaults", rng.random() < 0.3)
    via = rng.random() < 0.3
    tris, res, rec = run_impl(case, via, tris=case.get("inner"))
    d = dump(res)
    draws, clash = rec.table()
    inexact = case["base_method"] == "linear" and case["weights"] is None and case["M"] & (case["M"] - 1) != 0
    wire_ts = [w_cells(t.cells) for t in tris]
    req = {"op": "blend", "ts": wire_ts, "w": w_weights(case["weights"]), "method": case["method"],
           "draws": draws, "tol": w_rat(TOL) if inexact else "0", "impl": d.get("ok"),
           "convex": bool(case["convex"] and case["refusal"] is None),
           "agree": bool(case["agree"]), "degenerate": case["degenerate"]}
    digest = json.dumps({k: v for k, v in req.items() if k not in ("impl", "draws")}, sort_keys=True)
    ctx.case(digest=digest, nontrivial=case["n"] >= 1,
             sample={"stream": stream, "M": case["M"], "cells": case["n"], "method": case["method"],
                     "weights": case["wform"], "kind": case["kind"], "S": case["S"]} if ci < 3 else None)
    ctx.count(f"stream/{stream}")
    for tag in case.get("tags", ()):
        ctx.count(f"lesson/{tag}")
    if case["S"] >= 40:
        ctx.count("samples>=40")
    if case["weights"] is not None and case["seed"] is not None and not case["omit_defaults"]:
        ctx.count("options/all-given")
    if case["weights"] is None and case["seed"] is None and case["method"] == "mixture" and case["omit_defaults"]:
        ctx.count("options/none-given")
    ctx.count(f"method/{case['base_method']}")
    ctx.count(f"M/{case['M']}")
    ctx.count(f"weights/{case['wform']}")
    ctx.count(f"kind/{case['kind']}")
    ctx.count(f"slices/{len({json.dumps(c['m'], sort_keys=True) for c in wire_ts[0]})}")
    ctx.count("result/" + ("ok" if "ok" in d else d["err"]))
    if case["refusal"]:
        ctx.count(f"refusal/{case['refusal']}")
    shown = {"ts": wire_ts, "weights": req["w"], "method": case["method"], "seed": case["seed"],
             "via_Triangle.blend": via, "as_list": case["as_list"]}

    # refusals named by the property must raise (whatever the class)
    if case["refusal"] in NAMED and "ok" in d:
        ctx.fail(f"refusal clause: inputs with {case['refusal']} mismatch were blended", shown, {"impl": d})
    if case["refusal"] == "fields" and "ok" in d:
        ctx.fail("same-field-set clause: cells with different field sets were blended", shown, {"impl": d})
    if stream == "single-dict" and "err" in d and case["refusal"] is None:
        ctx.fail("a single triangle with dict weights is refused (D17 recurrence)", shown, {"impl": d})

    if res[0] == "ok" and case["base_method"] == "mixture" and rec.calls:
        # "the choice follows the weights" at the RNG interface: every index vector is drawn with p = the weight
        # vector of a cell (1/M without weights). Which cell is settled by the model comparison of seeded cases.
        exp = expected_ps(case["weights"], case["M"])
        if exp is not None:
            same = lambda p_, e: len(e) == len(p_) and all(abs(Fraction(a) - b) <= TOL for a, b in zip(p_, e))  # noqa: E731
            # POSITIONAL: blend walks the cells of the first triangle in order and draws once per non-scalar field of
            # the cell, so the k-th recorded call belongs to a known cell and must carry THAT cell's weight vector
            cells0 = tris[0].cells
            want = []
            for i, c in enumerate(cells0):
                e = exp[i] if len(exp) == len(cells0) and len(exp) > 1 else exp[0]
                want += [(i, e)] * sum(1 for v in c.values.values() if not np.isscalar(v))
            if len(want) == len(rec.calls):
                for (i, e), (S_, p_, _) in zip(want, rec.calls):
                    if not same(p_, e):
                        ctx.fail("mixture: np.random.choice was called with probabilities that are not the weights of "
                                 "the cell being blended", shown, {"cell": i, "p": p_, "weights_of_cell": [str(x) for x in e],
                                                                   "size": S_})
                        break
                ctx.count("checked/choice-p-is-weights-of-the-cell")
            else:
                # another number of draws than one per non-scalar field: fall back to "weights of some cell"
                ctx.count("checked/choice-p-count-differs")
                for S_, p_, _ in rec.calls:
                    if not any(same(p_, e) for e in exp):
                        ctx.fail("mixture: np.random.choice was called with probabilities that are not the weights of "
                                 "any cell", shown, {"p": p_, "size": S_})
                        break
    if not rec.inputs_untouched:
        ctx.fail("blend changed the derived accessors (num_samples / fields / slices / periods) of an INPUT", shown)
    if res[0] == "ok":
        a, r = accessors(res[1]), recomputed(res[1].cells)
        ctx.count("sequence/accessors-checked")
        if a != r:
            ctx.fail("num_samples / fields / slices / periods of the blend disagree with its own cells", shown,
                     {"accessors": a, "recomputed_from_cells": r})
    # SEQUENCE: ruin the first result in place, call again on the SAME objects: same dump (mixture: same seed)
    if "ok" in d and not (case["base_method"] == "mixture" and case["seed"] is None):
        for c in res[1].cells:
            for v in c.values.values():
                if isinstance(v, np.ndarray) and v.flags.writeable:
                    v *= 0
        _, res2, rec2 = run_impl(case, via, tris=tris)
        if dump(res2) != d:
            ctx.fail("second call on the same inputs (same seed) differs from the first", shown,
                     {"first": d, "second": dump(res2)})
        ctx.count("checked/called-twice")
    if clash and case["seed"] is not None:
        ctx.disagree("np.random.choice: same seed, size and p gave two different vectors", shown)

    if not case["as_list"]:
        # `triangles` must be a list: Python-only clause (the model has no tuple of triangles)
        if d != {"err": "TypeError"}:
            ctx.disagree("blend(tuple of triangles) should raise TypeError", shown, "TypeError", d)
        return
    reqs.append(req)
    infos.append((case, d, shown, inexact))



def correspondence(ctx):
    rng = ctx.rng
    n_cases = 6000 if ctx.thorough else 420
    streams = ["plain"] * 9 + ["refusal"] * 5 + ["degenerate"] * 2 + ["agree"] * 2 + ["single-dict"] + ["sequence"] * 3
    reqs, infos = [], []
    for ci in range(n_cases):
        stream = rng.choice(streams)
        case = sequence_case(rng) if stream == "sequence" else one_case(rng, stream)
        run_one(ctx, rng, stream, case, ci, reqs, infos)
    # the eight generator lessons of seeded batch 4: a fixed quota of each input kind in EVERY run
    reps = 0 if os.environ.get("VERIF_SKIP_LESSONS") else 6 if ctx.thorough else 1     # (knob for mutation experiments)
    for k, case in enumerate(lesson_cases(rng, reps)):
        run_one(ctx, rng, case["tags"][0], case, n_cases + k, reqs, infos)

    outs = common.Driver("drv_c16").run(reqs)
    for (case, d, shown, inexact), req, out in zip(infos, reqs, outs):
        model, errs, spec = out["model"], out["errs"], out["spec"]
        if spec is not None:
            bad = [k for k, v in spec.items() if v is False]
            for k in bad:
                ctx.fail(f"Spec.C16.{k} is false on the implementation's output", shown, {"impl": d, "spec": spec})
            for k, v in spec.items():
                if v is not None:
                    ctx.count(f"spec/{k}")
        if "err" in d:
            if "ok" in model:
                ctx.disagree("blend raises where the model returns", shown, model, d)
            elif d["err"] not in errs:
                ctx.disagree("blend: error class", shown, errs, d)
            continue
        if "err" in model:
            ctx.disagree("blend returns where the model refuses", shown, model, d)
            continue
        if case["base_method"] == "mixture" and case["seed"] is None and case["degenerate"] is None:
            # unseeded: every call draws afresh, the recorded table cannot be aligned -> Spec only
            if not close_cells([{**c, "v": []} for c in model["ok"]], [{**c, "v": []} for c in d["ok"]], 0):
                ctx.disagree("blend (unseeded): coordinates", shown, model, d)
            continue
        same = close_cells(model["ok"], d["ok"], TOL) if inexact else canon(model["ok"]) == canon(d["ok"])
        if not same:
            ctx.disagree("blend result", shown, model, d)


if __name__ == "__main__":
    common.run_check(
        "C16", module="Bermuda.Properties.C16", driver_targets=["drv_c16"],
        correspondence=correspondence, level="proof",
        rule="1-4 coordinate-identical triangles on a random skeleton (1-3 slices, regular/ragged/day-level, Cell/"
             "CumulativeCell/IncrementalCell, shuffled input order); fields scalar int/float, int/float sample arrays "
             "(length 1-8), mixed per triangle (linear); weights None / list / dict of scalars, lists, 1-D, 2-D arrays, "
             "global or per-cell, one matrix; convex dyadic (and arbitrary dyadic for linear); both methods, method "
             "spelling; seeds incl. None; streams: plain, degenerate e_j weights, agreeing inputs, single triangle + "
             "dict (D17), SEQUENCE (blend of two blended results; every successful call repeated on the same objects "
             "after zeroing the first result's arrays; accessors num_samples/fields/slices/periods read on inputs "
             "beforehand and compared on the output with values recomputed from its cells; default arguments left "
             "out in 30 % of the calls), 21 refusal causes one at a time (incl. incremental triangles differing only in one "
             "prev_evaluation_date). LESSON streams (fixed quota in every run, 78 cases): large (sample counts 40 / 256 / 1000 "
             "and 80/255/257/4096 for both methods, linear also with weights that do not sum to 1; 234-320 cells with "
             "per-cell weights); overlap (cells of one slice sharing period_start or period_end and the evaluation date); "
             "mid-month (half-month periods evaluated on the 15th and at month ends: equal month ids); zero-weights (3-5 "
             "triangles, exact zeros in leading / middle / trailing / several positions with >= 2 positive weights, both "
             "methods, list / global dict / per-cell dict whose zero moves from cell to cell, linear also on mixed scalar-"
             "sample fields); late (only the LAST of 4-5 triangles differs in values; named refusals caused by the LAST of "
             "4-5 triangles incl. a LONGER last triangle, another cell class after C / U / I, prev_evaluation_date, scalars "
             "a,a,b,b); options (weights + method + seed all given; none given); twin (A-triangles then B-triangles with the "
             "same coordinates, kinds, sizes, weights, method and seed but other values); derived (parents' cached accessors "
             "read and parents blended, inputs = select / filter / clip / slice / derive_fields of them, default arguments); "
             "falsy (scalar 0 / 0.0 and all-zero arrays in every cell of every triangle, int 0/1 weights, [1] for a single "
             "triangle, seed 0, limit 0 and falsy details in every slice, unequal scalars one of which is 0). distinct = "
             "distinct canonical request; non-trivial = at least one cell",
        assumptions=[
            "OUTSIDE THE MODEL: numpy's legacy RNG (np.random.seed/choice). The drawn index vectors are recorded "
            "in-process and handed to the model as a parameter; 'the choice follows the weights' is statistical and "
            "is NOT checked except for degenerate weights e_j (output must be input j exactly) and at the RNG "
            "interface: the k-th recorded np.random.choice call of a successful mixture blend (one per non-scalar field, "
            "cells of the first triangle in order) must carry p = the weight vector of THE cell being blended (1/M "
            "without weights), within 2^-40",
            "seed reproducibility is observed by calling twice, not proved",
            "values are None, Python int/float or 1-D arrays; integers below 2^12 and dyadic rationals with 3 "
            "fractional bits, dyadic weights with <= 4 bits: float64 arithmetic of the matrix product is exact and is "
            "compared exactly; only weights=None with 3 or 5 inputs (1/3, 1/5) is compared with relative tolerance 2^-40",
            "mixture weights are generated with sum exactly 1 or off by >= 2^-10 (numpy accepts |sum-1| <= 2^-26)",
            "field order of the output dict follows Python's set order and is not compared",
            "blend(non-list) -> TypeError is checked in Python only",
            "weights dict keys are drawn from a pool in random / reverse-sorted INSERTION order (rows follow insertion "
            "order, never key order)",
        ],
        trusted=["numpy matmul / boolean-mask assignment semantics as modelled (Model/Blend.lean)",
                 "np.atleast_2d / np.concatenate / transpose on weight dict values as modelled (weightList)"],
    )
