"""C17 — resampling keeps triangle structure: bootstrap, thin, moment_match.

Correspondence between bermuda.utils.{bootstrap, thin, moment_match} (+ maximum_entropy_ensemble,
_sort_x_on_y_rank) and the Lean model (drv_c17); the Lean Spec predicates run on the
IMPLEMENTATION's outputs. numpy's RNG is outside the model: `np.random.default_rng` (Generator
.choice/.uniform) and `np.random.normal/lognormal/gamma` are wrapped in this process, what they
return is recorded and handed to the model as a parameter.
"""
import dataclasses
import datetime
import json
from fractions import Fraction

import numpy as np

import common
from common import w_cells, w_rat, canon_cell, call
import gen
from bermuda import Cell, CumulativeCell, Triangle, bootstrap, moment_match
from bermuda.utils.bootstrap import maximum_entropy_ensemble
from bermuda.utils.method_moments import _sort_x_on_y_rank
from bermuda.utils.thin import thin

D = datetime.date


# ---- recording numpy's draws ----------------------------------------------------------------

class RngRecorder:
    """every `np.random.default_rng(...)` returns a proxy that logs choice()/uniform() results;
    the legacy samplers used by moment_match are logged as well"""

    LEGACY = ("normal", "lognormal", "gamma")

    def __enter__(self):
        self.gens, self.legacy = [], []
        self.orig = np.random.default_rng
        self.orig_legacy = {k: getattr(np.random, k) for k in self.LEGACY}
        rec = self

        class Proxy:
            def __init__(s, g):
                s._g, s.log = g, []

            def choice(s, *a, **k):
                r = s._g.choice(*a, **k)
                s.log.append(("choice", np.atleast_1d(r).tolist()))
                return r

            def uniform(s, *a, **k):
                r = s._g.uniform(*a, **k)
                s.log.append(("uniform", np.atleast_1d(r).tolist()))
                return r

            def __getattr__(s, name):
                return getattr(s._g, name)

        def wrapped(seed=None):
            p = Proxy(rec.orig(seed))
            rec.gens.append(p)
            return p

        def mk(name):
            def f(*a, **k):
                r = rec.orig_legacy[name](*a, **k)
                rec.legacy.append((name, np.atleast_1d(r).tolist()))
                return r
            return f

        np.random.default_rng = wrapped
        for k in self.LEGACY:
            setattr(np.random, k, mk(k))
        return self

    def __exit__(self, *exc):
        np.random.default_rng = self.orig
        for k, v in self.orig_legacy.items():
            setattr(np.random, k, v)
        return False


def canon(cells_wire):
    return [canon_cell(c) for c in cells_wire]


def rats(xs):
    return [w_rat(x) for x in xs]


# ---- generators -------------------------------------------------------------------------------

FACT_F = [1.0, 1.5, 2.0, 1.25, 3.0, 0.5, 0.75]
FACT_I = [1, 2, 3]


def layout(rng):
    """(rows, shape): month-aligned periods of `res` months, lags spaced by `res`"""
    res = rng.choice([1, 3, 6, 12])
    shape = rng.choice(["square", "square", "triangle", "triangle", "row", "column", "diagonal", "single"])
    P, L = rng.randrange(2, 7), rng.randrange(2, 7)
    if shape == "row":
        P = 1
    if shape == "column":
        L = 1
    if shape == "single":
        P = L = 1
    y0, m0 = rng.randrange(1995, 2030), rng.choice([1] if res == 12 else list(range(1, 13, res)))
    start = D(y0, m0, 1)
    first_lag = rng.choice([0, 0, 1])
    rows = []
    for p in range(P):
        ps = gen.add_months_int(start, p * res)
        pe = gen.add_months_int(ps, res - 1, end=True)
        if shape in ("square", "row", "column", "single"):
            lags = list(range(L))
        elif shape == "triangle":
            lags = list(range(max(1, min(L, P - p))))
        else:
            lags = [P - 1 - p]
        rows.append((ps, pe, [gen.add_months_int(pe, (k + first_lag) * res, end=True) for k in lags]))
    return rows, shape


def boot_triangle(rng):
    n_slices = rng.choice([1, 1, 2, 3])
    metas = gen.rand_metas(rng, n_slices, single_attr=rng.random() < 0.7)
    kind = rng.choice(["C", "U"])
    cls = Cell if kind == "C" else CumulativeCell
    fields = rng.sample(gen.FIELDS, rng.randrange(1, 4))
    fkind = {f: rng.choice(["float", "float", "int", "zero" if len(fields) > 1 else "float"]) for f in fields}
    same = rng.random() < 0.5
    rows, shape = layout(rng)
    cells, shapes = [], []
    for m in metas:
        if not same:
            rows, shape = layout(rng)
        shapes.append(shape)
        for ps, pe, evals in rows:
            v = {}
            for f in fields:
                if fkind[f] == "zero":
                    v[f] = 0
                elif fkind[f] == "int":
                    v[f] = (1 << rng.randrange(0, 6)) * rng.choice([1, 3, 5, 7])
                else:
                    v[f] = float((1 << rng.randrange(0, 8)) * rng.choice([1, 3, 5, 7, 9, 11])) / 4
            for ev in evals:
                cells.append(cls(ps, pe, ev, dict(v), m))
                v = {f: (x * rng.choice(FACT_I) if fkind[f] == "int" else x * rng.choice(FACT_F) if fkind[f] == "float" else x)
                     for f, x in v.items()}
    rng.shuffle(cells)
    return Triangle(cells), fields, shapes, kind


def tag(md, i):
    return dataclasses.replace(md, details={**md.details, "bootstrap": i})


def safe_div(x, y):
    sx = 1 if x is None or not x else x
    sy = 1 if y is None or not y else y
    return sx / sy


def slice_params(sl, fields, gen_log, n, reps):
    """the draws of one slice as model parameters: per replicate {'F':..} or {'qs':..}"""
    kinds = {k for k, _ in gen_log}
    out = []
    if kinds == {"choice"}:
        lags = sorted({c.dev_lag() for c in sl})
        periods = sorted({c.period for c in sl})
        by = {(c.period, c.dev_lag()): c for c in sl}
        ratios = {}
        for lag, prev in zip(lags[1:], lags[:-1]):
            ratios[lag] = {f: [safe_div(by[(p, lag)].values.get(f), by[(p, prev)].values.get(f))
                               for p in periods if (p, lag) in by and (p, prev) in by] for f in fields}
        it = iter(gen_log)
        for i in range(n):
            F = []
            for lag in lags[1:]:
                tbl = []
                for f in fields:
                    _, idx = next(it)
                    tbl.append([f, rats([ratios[lag][f][j] for j in idx])])
                F.append([w_rat(lag), tbl])
            out.append({"F": F})
        return out, "atas"
    for i in range(n):
        qs = []
        if reps is not None and i < len(reps):
            md = tag(sl.cells[0].metadata, i)
            rc = [c for c in reps[i] if c.metadata == md]
            for f in fields:
                vals = [c.values.get(f) for c in rc]
                if all(isinstance(v, (int, float, np.integer, np.floating)) and not isinstance(v, bool) for v in vals):
                    qs.append([f, rats(sorted(float(v) for v in vals))])
        out.append({"qs": qs})
    return out, "maximum_entropy"


def distinct_arr(rng, N, kind):
    vals = rng.sample(range(1, 4096), N)
    if kind == "iarr":
        return np.array(vals, dtype=np.int64)
    return np.array([v / 8 for v in vals], dtype=np.float64)


def sample_triangle(rng, N, with_arrays=True, arr1=True):
    """triangle for thin / moment_match: some fields hold arrays of N pairwise distinct samples"""
    cells = gen.rand_cells(rng, n_slices=rng.choice([1, 1, 2, 3]), layout=rng.choice(["regular", "ragged", "daily"]),
                           vkind="int", max_cells=rng.choice([1, 2, 5, 9]))
    fields = rng.sample(gen.FIELDS, rng.randrange(1, 5))
    fk = {f: rng.choice(["farr", "farr", "iarr", "int", "float", "arr1" if arr1 else "int", "mixed"]) for f in fields}
    if with_arrays and not any(k in ("farr", "iarr") for k in fk.values()):
        fk[fields[0]] = "farr"
    if not with_arrays:
        fk = {f: rng.choice(["int", "float", "arr1"]) for f in fields}
    out = []
    for c in cells:
        v = {}
        for f in fields:
            k = fk[f]
            if k == "mixed":
                k = rng.choice(["farr", "int", "float"])
            if k in ("farr", "iarr"):
                v[f] = distinct_arr(rng, N, k)
            elif k == "arr1":
                v[f] = np.array([gen.dyadic(rng)])
            elif k == "int":
                v[f] = rng.randrange(0, 4096)
            else:
                v[f] = float(gen.dyadic(rng))
        out.append(c.replace(values=v))
    return Triangle(out), fields, fk


# ---- derived accessors: what the object says vs what its cells say ---------------------------------

def recomputed(cells):
    sizes = {int(v.size) for c in cells for v in c.values.values() if isinstance(v, np.ndarray) and v.size > 1}
    return {"num_samples": 1 if not sizes else (sizes.pop() if len(sizes) == 1 else "ValueError"),
            "fields": sorted({k for c in cells for k in c.values}),
            "slices": len({c.metadata for c in cells}),
            "periods": len({c.period for c in cells}),
            "evaluation_dates": len({c.evaluation_date for c in cells}),
            "len": len(cells)}


def accessors(tri):
    st, ns = call(lambda: tri.num_samples)
    return {"num_samples": int(ns) if st == "ok" else ns, "fields": list(tri.fields), "slices": len(tri.slices),
            "periods": len(tri.periods), "evaluation_dates": len(tri.evaluation_dates), "len": len(tri)}


def check_accessors(ctx, tri, what, shown):
    """cached / derived accessors of an OUTPUT must describe the output's own cells"""
    a, r = accessors(tri), recomputed(tri.cells)
    ctx.count("sequence/accessors-checked")
    if a != r:
        ctx.fail(f"{what}: num_samples / fields / slices / periods of the result disagree with its own cells",
                 shown, {"accessors": a, "recomputed_from_cells": r})


def zero_new_arrays(src_cells, out_cells, only_fields=None):
    """mutate the RESULT in place (arrays the operation created: source array had more than one sample, or the
    field was selected) — a later call on the same input must not be affected"""
    for c, o in zip(src_cells, out_cells):
        for f, v in o.values.items():
            sv = c.values.get(f)
            if isinstance(v, np.ndarray) and v is not sv and isinstance(sv, np.ndarray) and sv.size > 1 \
                    and (only_fields is None or f in only_fields) and v.flags.writeable:
                v *= 0


# ---- the check ----------------------------------------------------------------------------------

def me_guards(ctx, rng, n):
    """the guards of maximum_entropy_ensemble (bootstrap.py:250-258) against `meEnsembleRaw`: a single value and a
    constant series come back unchanged (also [None], [None, None], [2, 2.0]); a non-constant series containing
    None is refused with ValueError; a None-free non-constant series gives the quantiles in the source's rank order.
    (The U guard `0 > u > 1` can never fire; U is always drawn from [0, 1) here.)"""
    from common import w_val
    reqs, post = [], []
    for ci in range(n):
        shape = rng.choice(["single", "constant", "constant-none", "none-mixed", "none-mixed", "numbers"])
        k = rng.randrange(2, 7)
        if shape == "single":
            xs = [rng.choice([None, 3, 2.5, 0, rng.randrange(1, 99) / 4])]
        elif shape == "constant":
            v = rng.choice([2, 0.5, 0, 7.25])
            xs = [rng.choice([v, float(v), int(v)]) if float(v) == int(v) else v for _ in range(k)]
        elif shape == "constant-none":
            xs = [None] * k
        elif shape == "none-mixed":
            xs = [rng.choice([None, rng.randrange(1, 40) / 4, rng.randrange(1, 9)]) for _ in range(k)]
            xs[rng.randrange(k)] = None
            if all(v is None for v in xs):
                xs[rng.randrange(k)] = 1.5
            if rng.random() < 0.3:                    # None first / None only after equal leading values
                xs = [None] + [v for v in xs if v is not None][:k - 1] + [2.0]
        else:
            xs = [rng.choice([rng.randrange(1, 4096) / 4, rng.randrange(1, 50)]) for _ in range(k)]
        U = [rng.random() for _ in xs]
        L = rng.choice([None, (0, 5000)]) if len(xs) >= 3 else (0, 5000)
        st, r = call(maximum_entropy_ensemble, list(xs), U, L)
        ctx.count(f"me-guards/{shape}")
        ctx.case(digest=json.dumps(["me-guards", [None if v is None else float(v) for v in xs],
                                    [type(v).__name__ for v in xs]]), nontrivial=len(xs) > 1,
                 sample={"op": "maximum_entropy_ensemble", "x": xs} if ci < 1 else None)
        if st == "ok":
            impl = {"ok": [w_val(v) for v in r]}
            numeric = all(v is not None for v in r)
            qs = sorted(float(v) for v in r) if numeric else []
        else:
            impl, qs = {"err": r}, []
        reqs.append({"op": "meRaw", "xs": [w_val(v) for v in xs], "qs": rats(qs)})
        post.append((xs, U, L, impl))
    outs = common.Driver("drv_c17").run(reqs)
    for (xs, U, L, impl), out in zip(post, outs):
        model = out["model"]
        case = {"x": xs, "U": U, "L": L}
        const = all(xs[0] == v for v in xs[1:])
        if len(xs) == 1 or const:
            if impl != {"ok": [w_val(v) for v in xs]}:
                ctx.fail("maximum_entropy_ensemble: a constant / single series must come back unchanged", case, impl)
        elif any(v is None for v in xs):
            if impl != {"err": "ValueError"}:
                ctx.fail("maximum_entropy_ensemble: a (non-constant) series with a missing value must be refused "
                         "with ValueError", case, impl)
        if ("err" in model) != ("err" in impl) or model.get("err", impl.get("err")) != impl.get("err", model.get("err")):
            ctx.disagree("maximum_entropy_ensemble guards (meEnsembleRaw): outcome", case, model, impl)
        elif "ok" in model:
            a = [None if v is None else Fraction(v[1]) for v in model["ok"]]
            b = [None if v is None else Fraction(v[1]) for v in impl["ok"]]
            kinds_m = [None if v is None else v[0] for v in model["ok"]]
            kinds_i = [None if v is None else v[0] for v in impl["ok"]]
            if a != b or ((len(xs) == 1 or const) and kinds_m != kinds_i):
                ctx.disagree("maximum_entropy_ensemble guards (meEnsembleRaw): value", case, model, impl)


def correspondence(ctx):
    rng = ctx.rng
    reqs, post = [], []

    # (i) the common core: re-imposing a rank order ------------------------------------------------
    n_rank = 3000 if ctx.thorough else 250
    for ci in range(n_rank):
        n = rng.randrange(1, 9)
        ties = rng.random() < 0.35
        xs = [rng.randrange(0, 6 if ties else 4096) / 4 for _ in range(n)]
        which = rng.choice(["me", "me-L", "sort_x_on_y"])
        ctx.count(f"rank/{which}")
        if which == "sort_x_on_y":
            if len(set(xs)) < len(xs):
                # numpy's default argsort is not stable (observed on 6 doubles): with tied source samples
                # only the tie-agnostic clauses (order, permutation) are decidable
                which = "sort_x_on_y-ties"
            qs = [rng.randrange(-4096, 4096) / 8 for _ in range(n)]
            st, r = call(_sort_x_on_y_rank, np.array(qs), np.array(xs))
            impl = None if st == "err" else [float(v) for v in r]
        else:
            U = [rng.random() for _ in range(n)]
            L = None if which == "me" else (0, max(xs))
            if which == "me" and n < 3 and len(set(xs)) > 1:
                L = (0, max(xs))                       # scipy trim_mean of a 1-element diff is fine; keep simple
            st, r = call(maximum_entropy_ensemble, list(xs), U, L)
            impl = None if st == "err" else [float(v) for v in r]
            qs = sorted(impl) if impl is not None else []
            if impl is not None and (n == 1 or len(set(xs)) == 1):
                if impl != xs:
                    ctx.fail("maximum_entropy_ensemble: a constant / single series must come back unchanged",
                             {"x": xs, "U": U}, {"impl": impl})
                ctx.case(digest=json.dumps(["rank", xs, which]), nontrivial=False)
                continue
            if impl is not None:
                # with tied source values the quantiles tie as well; then only the weak clause
                # xs[i] < xs[j] -> r[i] <= r[j] (Spec.rankOrderOk / rankFixed) is meaningful
                if len(set(xs)) == len(xs) and \
                        list(np.argsort(impl, kind="stable")) != list(np.argsort(xs, kind="stable")):
                    ctx.fail("maximum_entropy_ensemble: argsort of the replicate differs from the source's",
                             {"x": xs, "U": U, "L": L}, {"impl": impl})
                lo, hi = (L if L else (None, None))
                if L and (min(impl) < lo or max(impl) > hi):
                    ctx.count("numeric-only/me-outside-L")   # Vinod's mean-preserving shift may leave [L0, L1]
        ctx.case(digest=json.dumps(["rank", xs, qs, which]), nontrivial=n > 1)
        if impl is None:
            ctx.disagree(f"{which} raised", {"xs": xs, "qs": qs}, None, st)
            continue
        reqs.append({"op": "reimpose", "xs": rats(xs), "qs": rats(qs), "impl": rats(impl)})
        post.append(("rank", {"which": which, "xs": xs, "qs": qs}, impl))

    me_guards(ctx, rng, 400 if ctx.thorough else 80)

    # (ii) bootstrap ----------------------------------------------------------------------------------
    n_boot = 2500 if ctx.thorough else 170
    for ci in range(n_boot):
        t, fields, shapes, kind = boot_triangle(rng)
        n = rng.choice([1, 2, 3])
        seed = rng.randrange(1 << 31)
        sel_kind = rng.choice(["none", "none", "str", "subset", "all"])
        all_fields = sorted(fields)
        if sel_kind == "none":
            field, sel = None, all_fields
        elif sel_kind == "str":
            f = rng.choice(all_fields)
            field, sel = f, [f]
        elif sel_kind == "subset":
            k = rng.randrange(1, len(all_fields) + 1)
            sel = rng.sample(all_fields, k)
            field = list(sel)
        else:
            sel = list(all_fields)
            rng.shuffle(sel)
            field = list(sel)
        if rng.random() < 0.04:
            n = rng.choice([0, -1])
        seq = "plain"
        if rng.random() < 0.3:
            # SEQUENCE: bootstrap a triangle that is itself the result of thin (a scalar triangle has one
            # "sample"; k = 0 gives a fresh copy) after its accessors were read
            accessors(t)
            st0, t0 = call(thin, t, 0, 3)
            if st0 == "ok" and t0 is not t and w_cells(t0.cells) == w_cells(t.cells):
                check_accessors(ctx, t0, "thin(k=0) of a scalar triangle", {"t": w_cells(t.cells)})
                t, seq = t0, "bootstrap-of-thinned"
            else:
                ctx.fail("thin(t, 0) of a scalar triangle must be a fresh triangle with the same cells",
                         {"t": w_cells(t.cells)}, {"impl": st0})
        ctx.count(f"bootstrap/sequence={seq}")
        before = accessors(t)
        with RngRecorder() as rec:
            res = call(bootstrap, t, n, seed, field)
        st, reps = res
        d = {"ok": [w_cells(r.cells) for r in reps]} if st == "ok" else {"err": reps}
        slices = list(t.slices.values())
        P, methods = [], []
        if n > 0 and len(rec.gens) == len(slices):
            for sl, g in zip(slices, rec.gens):
                p, mth = slice_params(sl, sel if field is not None else sl.fields, g.log, n,
                                      reps if st == "ok" else None)
                P.append(p)
                methods.append(mth)
        for mth, shp in zip(methods, shapes):
            ctx.count(f"bootstrap/method={mth}")
        for shp in shapes:
            ctx.count(f"bootstrap/shape={shp}")
        ctx.count(f"bootstrap/slices={len(slices)}")
        ctx.count(f"bootstrap/field={sel_kind}")
        ctx.count(f"bootstrap/n={n}")
        ctx.count("bootstrap/" + ("ok" if st == "ok" else reps))
        wire_t = w_cells(t.cells)
        shown = {"t": wire_t, "n": n, "seed": seed, "field": field}
        ctx.case(digest=json.dumps([canon(wire_t), n, field], sort_keys=True), nontrivial=len(t) > 1,
                 sample={"op": "bootstrap", "cells": len(t), "slices": len(slices), "shapes": shapes, "n": n,
                         "field": sel_kind} if ci < 3 else None)
        if accessors(t) != before:
            ctx.fail("bootstrap changed the derived accessors of its INPUT", {"t": w_cells(t.cells), "n": n})
        if st == "ok":
            for r in reps:
                check_accessors(ctx, r, "bootstrap replicate", {"t": w_cells(t.cells), "n": n, "seed": seed, "field": field})
        if st == "ok" and n > 0:
            # same seed => same replicates
            st2, reps2 = call(bootstrap, t, n, seed, field)
            d2 = {"ok": [w_cells(r.cells) for r in reps2]} if st2 == "ok" else {"err": reps2}
            if d2 != d:
                ctx.fail("bootstrap: same seed, different replicates", shown, {"first": d, "second": d2})
        if st == "err" and n > 0:
            ctx.fail(f"bootstrap refuses a complete positive triangle ({reps})" +
                     (" with a field selection (D18 recurrence?)" if field is not None else ""), shown, {"impl": d})
        reqs.append({"op": "bootstrap", "t": wire_t, "n": n, "field": None if field is None else sel,
                     "P": P, "impl": d.get("ok")})
        post.append(("bootstrap", shown, d))

    # (iii) thin, incl. SEQUENCES: thin(thin(t)), moment_match then thin -----------------------------------
    def thin_case(t, k, seed, via, tag, sample=False, default_seed=False):
        ns = recomputed(t.cells)["num_samples"]
        before = accessors(t)                           # the input's cached accessors are read beforehand
        with RngRecorder() as rec:
            if default_seed:
                res = call((lambda: t.thin(k)) if via else (lambda: thin(t, k)))
            else:
                res = call((lambda: t.thin(k, seed)) if via else (lambda: thin(t, k, seed)))
        st, out = res
        same_obj = st == "ok" and out is t
        d = {"err": out} if st == "err" else {"ok": "same" if same_obj else w_cells(out.cells)}
        idx = []
        if rec.gens and rec.gens[0].log:
            idx = [int(x) for x in rec.gens[0].log[0][1]]
        wire_t = w_cells(t.cells)
        shown = {"t": wire_t, "k": k, "seed": seed, "sequence": tag}
        rel = "eq" if k == ns else "gt" if k > ns else "lt"
        ctx.count(f"thin/k{rel}n")
        ctx.count(f"thin/num_samples={ns}")
        ctx.count(f"thin/stage={tag}")
        ctx.count("thin/" + ("same-object" if same_obj else "ok" if st == "ok" else out))
        ctx.case(digest=json.dumps([canon(wire_t), k, tag], sort_keys=True), nontrivial=ns > 1,
                 sample={"op": "thin", "cells": len(t), "num_samples": ns, "k": k} if sample else None)
        if k == ns and not same_obj:
            ctx.fail("thin with k equal to the sample count must return the triangle itself", shown, {"impl": d})
        if k > ns and st == "ok":
            ctx.fail("thin with k larger than the sample count must be refused", shown, {"impl": d})
        if accessors(t) != before:
            ctx.fail("thin changed the derived accessors of its INPUT", shown)
        if st == "ok" and not same_obj:
            check_accessors(ctx, out, "thin", shown)
            if seed is not None and not default_seed:
                zero_new_arrays(t.cells, out.cells)      # ruin the first result in place, then call again
                st2, out2 = call(thin, t, k, seed)
                if st2 != "ok" or w_cells(out2.cells) != d["ok"]:
                    ctx.fail("thin: same seed, different output on the second call", shown, {"first": d})
                out = out2
        reqs.append({"op": "thin", "t": wire_t, "k": k, "idx": idx, "impl": d.get("ok") if ns > 1 else None})
        post.append(("thin", shown, d))
        return st, out, same_obj

    n_thin = 3000 if ctx.thorough else 220
    for ci in range(n_thin):
        with_arrays = rng.random() < 0.9
        N = rng.randrange(2, 9)
        t, fields, fk = sample_triangle(rng, N, with_arrays, arr1=rng.random() < 0.7)
        tag = "single"
        if with_arrays and rng.random() < 0.25 and not any(k == "arr1" for k in fk.values()):
            # moment_match first: thin must work on (and count the samples of) a derived triangle
            names = [f for f in fields if fk[f] in ("farr", "iarr", "mixed")]
            np.random.seed(rng.randrange(1 << 31))
            stm, tm = call(moment_match, t, names, "normal")
            if stm == "ok":
                check_accessors(ctx, tm, "moment_match", {"t": w_cells(t.cells), "field_names": names})
                t, tag = tm, "after-moment_match"
        ns = recomputed(t.cells)["num_samples"]
        k = rng.choice([ns, ns, ns + 1, ns + 3, 0, 1] + list(range(0, ns + 1)))
        seed = rng.choice([None, 0, 5, rng.randrange(1 << 31)])
        st, a, same_obj = thin_case(t, k, seed, rng.random() < 0.4, tag, sample=ci < 2,
                                    default_seed=rng.random() < 0.15)
        if st == "ok" and not same_obj and rng.random() < 0.6:
            # thin the RESULT again: at, above and below ITS sample count
            k1 = recomputed(a.cells)["num_samples"]
            for k2 in {k1, k1 + 1, rng.randrange(0, k1 + 1)}:
                thin_case(a, k2, rng.randrange(1 << 31), rng.random() < 0.4, "thin-of-thin")

    # (iv) moment_match -----------------------------------------------------------------------------------
    n_mm = 2500 if ctx.thorough else 200
    for ci in range(n_mm):
        big = rng.random() < 0.25
        N = rng.choice([40, 64]) if big else rng.randrange(2, 9)
        t, fields, fk = sample_triangle(rng, N, True, arr1=False)   # a 1-sample array has variance 0: gamma undefined
        names = rng.sample(fields, rng.randrange(0, len(fields) + 1))
        bad_name = rng.random() < 0.05
        if bad_name:
            names = names + ["no_such_field"]
        dist = rng.choice(["normal", "lognormal", "gamma"])
        if rng.random() < 0.04:
            dist = "weibull"
        seed = rng.randrange(1 << 31)
        np.random.seed(seed)
        with RngRecorder() as rec:
            res = call(moment_match, t, names, dist)
        st, out = res
        d = {"ok": w_cells(out.cells)} if st == "ok" else {"err": out}
        draws, it = [], iter(rec.legacy)
        if st == "ok":
            for f in names:
                for i, c in enumerate(t.cells):
                    if type(c.values.get(f)) is np.ndarray:
                        nm, vals = next(it, (None, []))
                        draws.append([i, f, rats(vals)])
                        if len(vals) != c.values[f].size:
                            ctx.fail("moment_match: the sampler is asked for a different number of samples than the "
                                     "source array holds", {"t": w_cells(t.cells), "field_names": names,
                                                            "distribution": dist}, {"drawn": len(vals), "source": int(c.values[f].size)})
        wire_t = w_cells(t.cells)
        shown = {"t": wire_t, "field_names": names, "distribution": dist, "np.random.seed": seed}
        ctx.count(f"moment/dist={dist}")
        ctx.count("moment/" + ("ok" if st == "ok" else out))
        ctx.count(f"moment/fields={len(names)}")
        ctx.case(digest=json.dumps([canon(wire_t), names, dist], sort_keys=True), nontrivial=bool(names),
                 sample={"op": "moment_match", "cells": len(t), "fields": names, "dist": dist} if ci < 2 else None)
        if st == "ok":
            check_accessors(ctx, out, "moment_match", shown)
            if names and rng.random() < 0.4:
                # SEQUENCE: ruin the first result's new arrays in place, re-seed, call again
                zero_new_arrays(t.cells, out.cells, only_fields=set(names))
                np.random.seed(seed)
                st2, out2 = call(moment_match, t, names, dist)
                if st2 != "ok" or w_cells(out2.cells) != d["ok"]:
                    ctx.fail("moment_match: second call on the same input and RNG state differs from the first",
                             shown, {"first": d})
                out = out2
                ctx.count("sequence/moment-twice")
        if st == "ok" and big:
            # NUMERIC ONLY (outside the model): mean and variance scale of the new samples
            for c, o in zip(t.cells, out.cells):
                for f in names:
                    a, b = c.values.get(f), o.values.get(f)
                    if type(a) is np.ndarray and a.size > 1:
                        mu, sd = float(np.mean(a)), float(np.std(a))
                        ctx.count("numeric-only/moment-mean-var")
                        if abs(float(np.mean(b)) - mu) > 6 * sd / np.sqrt(a.size) + 1e-9 or not (
                                0.2 * sd <= float(np.std(b)) <= 5 * sd):
                            ctx.fail("moment_match: mean / variance scale not matched (numeric check, 6 sigma)",
                                     shown, {"field": f, "old": [mu, sd], "new": [float(np.mean(b)), float(np.std(b))]})
        reqs.append({"op": "moment", "t": wire_t, "fields": names, "distOk": dist in ("normal", "lognormal", "gamma"),
                     "draws": draws, "impl": d.get("ok")})
        post.append(("moment", shown, d))

    outs = common.Driver("drv_c17").run(reqs)
    for (kind, shown, d), req, out in zip(post, reqs, outs):
        model, spec = out["model"], out["spec"]
        if spec is not None:
            for k, v in spec.items():
                ctx.count(f"spec/{kind}.{k}")
                if kind == "rank" and k == "fixed" and shown["which"] == "sort_x_on_y-ties":
                    continue
                if v is False:
                    ctx.fail(f"Spec.C17 {kind}.{k} is false on the implementation's output", shown, {"impl": d})
        if kind == "rank":
            if model != rats(d) and shown["which"] != "sort_x_on_y-ties":
                ctx.disagree(f"reimposeRank vs {shown['which']}", shown, model, rats(d))
            continue
        if "err" in d or "err" in model:
            if ("err" in d) != ("err" in model):
                ctx.disagree(f"{kind}: one side raises", shown, model, d)
            elif model["err"] != d["err"]:
                ctx.disagree(f"{kind}: error class", shown, model, d)
            continue
        if kind == "bootstrap":
            same = len(model["ok"]) == len(d["ok"]) and all(canon(a) == canon(b) for a, b in zip(model["ok"], d["ok"]))
        elif kind == "thin":
            same = model["ok"] == d["ok"] if "same" in (model["ok"], d["ok"]) else canon(model["ok"]) == canon(d["ok"])
        else:
            same = canon(model["ok"]) == canon(d["ok"])
        if not same:
            ctx.disagree(f"{kind} result", shown, model, d)


if __name__ == "__main__":
    common.run_check(
        "C17", module="Bermuda.Properties.C17", driver_targets=["drv_c17"],
        correspondence=correspondence, level="translation_validation",
        rule="(i') guards of maximum_entropy_ensemble vs meEnsembleRaw: single values, constant series (incl. None only), "
             "non-constant series with None (ValueError), None-free series; "
             "(i) random series with and without ties through maximum_entropy_ensemble (with/without L) and "
             "_sort_x_on_y_rank; (ii) bootstrap of complete rectangular / upper-left / single row, column, diagonal, "
             "cell triangles, 1-3 slices (same or different shapes), 1-6 periods and lags spaced by the evaluation "
             "resolution (1,3,6,12 months), positive int/float fields with exactly representable age-to-age ratios, a "
             "zero field, n 1-3 (and n<=0), field None/str/subset/all; (iii) thin of sample triangles (2-8 distinct "
             "samples, scalars, length-1 arrays, mixed) for k below, at and above the sample count, seeds incl. None; "
             "(iv) moment_match on the same kind of triangle, three distributions, field subsets, bad names; "
             "SEQUENCES: thin of a thinned triangle (k at / above / below ITS count), thin after moment_match, bootstrap "
             "of a thinned triangle, every operation twice on the same input (first result's new arrays zeroed in "
             "between), default seed argument, accessors (num_samples, fields, slices, periods, evaluation_dates) read "
             "on inputs beforehand and compared on every output with values recomputed from its cells. "
             "distinct = distinct canonical input; non-trivial = more than one cell / sample",
        assumptions=[
            "OUTSIDE THE MODEL: numpy's RNG. Generator.choice/uniform of np.random.default_rng and np.random.normal/"
            "lognormal/gamma are wrapped in-process; the drawn vectors are recorded and handed to the model",
            "OUTSIDE THE MODEL (statistical): the age-to-age resampling DISTRIBUTION (volume weights), the maximum-"
            "entropy quantile construction, and moment_match's mean/variance. NUMERIC-ONLY checks in Python: "
            "moment_match mean within 6 sigma/sqrt(n) and std within [0.2, 5] x source on 40-64 samples; how often a "
            "maximum-entropy replicate leaves [L0, L1] is only COUNTED (Vinod's mean-preserving shift is not bounded "
            "by L; see notes/agents/c16c17.md)",
            "domain restriction: the age-to-age bootstrap needs development lags spaced by the evaluation resolution; "
            "positive scalar values; source values chosen so that every age-to-age ratio and product is exact in "
            "float64 (compared exactly)",
            "maximum-entropy replicates: the model is run on the implementation's own sorted quantiles (fixed-point "
            "check of the rank order, ties by index)",
            "seed reproducibility is observed by calling twice, not proved",
            "arrays are 1-D; with TIED source samples numpy's default argsort (not stable, observed) decides the order "
            "inside a tie in _sort_x_on_y_rank: there only `xs[i] < xs[j] -> r[i] <= r[j]` and the permutation clause "
            "are checked; moment_match triangles are generated with pairwise distinct samples",
        ],
        trusted=["numpy fancy indexing v[ndxs], argsort, sorted() as modelled (Model/Resample.lean)"],
    )
