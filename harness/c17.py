"""C17 — resampling keeps triangle structure: bootstrap, thin, moment_match.

Correspondence between bermuda.utils.{bootstrap, thin, moment_match} (+ maximum_entropy_ensemble,
_sort_x_on_y_rank) and the Lean model (drv_c17); the Lean Spec predicates run on the
IMPLEMENTATION's outputs. numpy's RNG is outside the model: `np.random.default_rng` (Generator
.choice/.uniform) and `np.random.normal/lognormal/gamma` are wrapped in this process, what they
return is recorded and handed to the model as a parameter. Everything deterministic given the draws is
inside: the arithmetic of maximum_entropy_ensemble (Model/ResampleME.lean), the empirical age-to-age factors and
the chained product (Model/ResampleATA.lean), the moments handed to moment_match's sampler.
"""
import dataclasses
import datetime
import json
from fractions import Fraction

import numpy as np

import common
from common import w_cells, w_rat, canon_cell, call
import gen
from bermuda import Cell, CumulativeCell, Triangle, bootstrap, moment_match
from bermuda.utils.bootstrap import maximum_entropy_ensemble
from bermuda.utils.method_moments import _sort_x_on_y_rank
from bermuda.utils.thin import thin

D = datetime.date


# ---- recording numpy's draws ----------------------------------------------------------------

class RngRecorder:
    """every `np.random.default_rng(...)` returns a proxy that logs choice()/uniform() results;
    the legacy samplers used by moment_match are logged as well"""

    LEGACY = ("normal", "lognormal", "gamma")

    def __init__(self, identity=False):
        # identity: every weighted `choice(range(m), size=m, p=p, replace=True)` answers [0, 1, ..., m-1]
        # (each period keeps its own factors) — the RNG is a parameter, this is one of its values
        self.identity = identity

    def __enter__(self):
        self.gens, self.legacy, self.legacy_args = [], [], []
        self.orig = np.random.default_rng
        self.orig_legacy = {k: getattr(np.random, k) for k in self.LEGACY}
        rec = self

        class Proxy:
            def __init__(s, g):
                s._g, s.log, s.calls = g, [], []

            def choice(s, *a, **k):
                r = s._g.choice(*a, **k)
                s.calls.append(("choice", a, dict(k)))
                if rec.identity and k.get("p") is not None and k.get("replace", True):
                    r = np.arange(int(k["size"]))
                s.log.append(("choice", np.atleast_1d(r).tolist()))
                return r

            def uniform(s, *a, **k):
                r = s._g.uniform(*a, **k)
                s.log.append(("uniform", np.atleast_1d(r).tolist()))
                return r

            def __getattr__(s, name):
                return getattr(s._g, name)

        def wrapped(seed=None):
            p = Proxy(rec.orig(seed))
            rec.gens.append(p)
            return p

        def mk(name):
            def f(*a, **k):
                r = rec.orig_legacy[name](*a, **k)
                rec.legacy.append((name, np.atleast_1d(r).tolist()))
                rec.legacy_args.append((name, a, dict(k)))
                return r
            return f

        np.random.default_rng = wrapped
        for k in self.LEGACY:
            setattr(np.random, k, mk(k))
        return self

    def __exit__(self, *exc):
        np.random.default_rng = self.orig
        for k, v in self.orig_legacy.items():
            setattr(np.random, k, v)
        return False


def canon(cells_wire):
    return [canon_cell(c) for c in cells_wire]


def rats(xs):
    return [w_rat(x) for x in xs]


# ---- generators -------------------------------------------------------------------------------

FACT_F = [1.0, 1.5, 2.0, 1.25, 3.0, 0.5, 0.75]
FACT_I = [1, 2, 3]


def layout(rng, shape=None):
    """(rows, shape): month-aligned periods of `res` months, lags spaced by `res`"""
    res = rng.choice([1, 3, 6, 12])
    shape = shape or rng.choice(["square", "square", "triangle", "triangle", "row", "column", "diagonal", "single",
                                 "stub", "row15", "longrow"])
    P, L = rng.randrange(2, 7), rng.randrange(2, 7)
    if shape == "longrow":                  # size threshold: a 40/48-cell series through maximum entropy
        res, P, L = 1, 1, rng.choice([40, 48])
    if shape == "row15":
        # ONE period, evaluation dates on the 15th (off the month grid): fractional development lags
        ps = D(rng.randrange(1995, 2030), rng.randrange(1, 13), 1)
        pe = gen.add_months_int(ps, res - 1, end=True)
        first = gen.add_months_int(pe, 1, end=True)
        return [(ps, pe, [gen.add_months_int(first, k * res, end=True).replace(day=15) for k in range(L)])], shape
    if shape in ("row", "longrow"):
        P = 1
    if shape == "column":
        L = 1
    if shape == "single":
        P = L = 1
    y0, m0 = rng.randrange(1995, 2030), rng.choice([1] if res == 12 else list(range(1, 13, res)))
    start = D(y0, m0, 1)
    first_lag = rng.choice([0, 0, 1])
    rows = []
    for p in range(P):
        ps = gen.add_months_int(start, p * res)
        pe = gen.add_months_int(ps, res - 1, end=True)
        if shape in ("square", "row", "column", "single", "stub", "longrow"):
            lags = list(range(L))
        elif shape == "triangle":
            lags = list(range(max(1, min(L, P - p))))
        else:
            lags = [P - 1 - p]
        rows.append((ps, pe, [gen.add_months_int(pe, (k + first_lag) * res, end=True) for k in lags]))
    if shape == "stub" and len(rows) >= 2:
        # NON-DISJOINT periods: the second period starts where the first does and ends one period later
        # (a year-to-date row next to its first stub): `period` = (start, end) must not be keyed by start alone
        ps0 = rows[0][0]
        rows[1] = (ps0, rows[1][1], rows[1][2])
    return rows, shape


def boot_triangle(rng, late=False):
    """late: 3-5 slices, the early ones share ONE layout (hence one bootstrap method), the LAST one has a shape
    that routes it to the other method (lesson: late difference)"""
    n_slices = rng.choice([3, 4, 5]) if late else rng.choice([1, 1, 2, 3])
    metas = gen.rand_metas(rng, n_slices, single_attr=rng.random() < 0.7)
    kind = rng.choice(["C", "U"])
    cls = Cell if kind == "C" else CumulativeCell
    fields = rng.sample(gen.FIELDS, rng.randrange(1, 4))
    fkind = {f: rng.choice(["float", "float", "int", "zero" if len(fields) > 1 else "float",
                            "fzero" if len(fields) > 1 else "int"]) for f in fields}
    same = late or rng.random() < 0.5
    if late:
        early = rng.choice(["square", "triangle", "stub", "row", "column"])
        rows, shape = layout(rng, early)
        last_shape = rng.choice(["row", "column", "diagonal", "single", "row15"]) if early in ("square", "triangle", "stub") \
            else rng.choice(["square", "triangle"])
    else:
        rows, shape = layout(rng)
    cells, shapes = [], []
    for mi, m in enumerate(metas):
        if late and mi == len(metas) - 1:
            rows, shape = layout(rng, last_shape)
        elif not same:
            rows, shape = layout(rng)
        shapes.append(shape)
        for ps, pe, evals in rows:
            v = {}
            for f in fields:
                if fkind[f] == "zero":
                    v[f] = 0
                elif fkind[f] == "fzero":
                    v[f] = 0.0                     # falsy in EVERY cell of EVERY slice, as a float
                elif fkind[f] == "int":
                    v[f] = (1 << rng.randrange(0, 6)) * rng.choice([1, 3, 5, 7])
                else:
                    v[f] = float((1 << rng.randrange(0, 8)) * rng.choice([1, 3, 5, 7, 9, 11])) / 4
            for ev in evals:
                cells.append(cls(ps, pe, ev, dict(v), m))
                v = {f: (x * rng.choice(FACT_I) if fkind[f] == "int" else x * rng.choice(FACT_F) if fkind[f] == "float" else x)
                     for f, x in v.items()}
                if shape == "longrow":             # keep a 40-48 step series inside exactly representable doubles
                    v = {f: (x if fkind[f] in ("zero", "fzero") else type(x)(1 + (abs(x) * 3 + 1) % 1021))
                         for f, x in v.items()}
    rng.shuffle(cells)
    return Triangle(cells), fields, shapes, kind


def tag(md, i):
    return dataclasses.replace(md, details={**md.details, "bootstrap": i})


def slice_params(sl, fields, gen_log, n, reps):
    """the draws of one slice as model parameters, exactly as numpy returned them: per replicate {'I': index draws
    per lag and field} (age-to-age; the model computes the empirical factors itself) or {'qs': ..} (maximum
    entropy: the implementation's own sorted quantiles, fixed-point check) + the uniform draws per field"""
    kinds = {k for k, _ in gen_log}
    out = []
    if kinds == {"choice"}:
        lags = sorted({c.dev_lag() for c in sl})
        it = iter(gen_log)
        for i in range(n):
            I = []
            for lag in lags[1:]:
                tbl = []
                for f in fields:
                    _, idx = next(it, (None, []))        # a failed call leaves a short log
                    tbl.append([f, [int(j) for j in idx]])
                I.append([w_rat(lag), tbl])
            out.append({"I": I})
        return out, "atas", None
    uniforms = [v for k, v in gen_log if k == "uniform"]
    U = {}
    for i in range(n):
        qs = []
        if reps is not None and i < len(reps):
            md = tag(sl.cells[0].metadata, i)
            rc = [c for c in reps[i] if c.metadata == md]
            for fi, f in enumerate(fields):
                vals = [c.values.get(f) for c in rc]
                if all(isinstance(v, (int, float, np.integer, np.floating)) and not isinstance(v, bool) for v in vals):
                    qs.append([f, rats(sorted(float(v) for v in vals))])
                k = i * len(fields) + fi
                U[(i, f)] = (uniforms[k] if k < len(uniforms) else None, vals)
        out.append({"qs": qs})
    return out, "maximum_entropy", U


def num_wire(v):
    from common import w_val
    return w_val(v.item() if isinstance(v, np.generic) else v)


def me_scale(xs, L):
    vals = [abs(float(v)) for v in xs if v is not None] + ([abs(float(L[0])), abs(float(L[1]))] if L else [])
    return max(vals + [1e-300])


def me_request(xs, U, L, impl_vals):
    """request for the Lean model of maximum_entropy_ensemble; tolerance 2^-40 relative to the magnitude of the
    series and its limits (float64 division / linspace in the implementation, exact rationals in the model)"""
    tol = Fraction(me_scale(xs, L)) / (1 << 40)
    numeric = impl_vals is not None and all(v is not None for v in impl_vals) and all(v is not None for v in xs)
    return {"op": "me", "xs": [num_wire(v) for v in xs], "U": rats([float(u) for u in U]),
            "L": None if L is None else rats([float(L[0]), float(L[1])]), "tol": w_rat(tol),
            "impl": rats([float(v) for v in impl_vals]) if numeric and len(xs) > 1 and
            not all(xs[0] == v for v in xs[1:]) else None}


def distinct_arr(rng, N, kind):
    vals = rng.sample(range(1, max(4096, 8 * N)), N)
    if kind == "iarr":
        return np.array(vals, dtype=np.int64)
    return np.array([v / 8 for v in vals], dtype=np.float64)


def sample_triangle(rng, N, with_arrays=True, arr1=True):
    """triangle for thin / moment_match: some fields hold arrays of N pairwise distinct samples"""
    cells = gen.rand_cells(rng, n_slices=rng.choice([1, 1, 2, 3]), layout=rng.choice(["regular", "ragged", "daily"]),
                           vkind="int", max_cells=rng.choice([1, 2, 5, 9]))
    fields = rng.sample(gen.FIELDS, rng.randrange(1, 5))
    fk = {f: rng.choice(["farr", "farr", "iarr", "int", "float", "arr1" if arr1 else "int", "mixed"]) for f in fields}
    if with_arrays and not any(k in ("farr", "iarr") for k in fk.values()):
        fk[fields[0]] = "farr"
    if not with_arrays:
        fk = {f: rng.choice(["int", "float", "arr1"]) for f in fields}
    out = []
    for c in cells:
        v = {}
        for f in fields:
            k = fk[f]
            if k == "mixed":
                k = rng.choice(["farr", "int", "float"])
            if k in ("farr", "iarr"):
                v[f] = distinct_arr(rng, N, k)
            elif k == "arr1":
                v[f] = np.array([gen.dyadic(rng)])
            elif k == "int":
                v[f] = rng.randrange(0, 4096)
            else:
                v[f] = float(gen.dyadic(rng))
        out.append(c.replace(values=v))
    return Triangle(out), fields, fk


# ---- derived accessors: what the object says vs what its cells say ---------------------------------

def recomputed(cells):
    sizes = {int(v.size) for c in cells for v in c.values.values() if isinstance(v, np.ndarray) and v.size > 1}
    return {"num_samples": 1 if not sizes else (sizes.pop() if len(sizes) == 1 else "ValueError"),
            "fields": sorted({k for c in cells for k in c.values}),
            "slices": len({c.metadata for c in cells}),
            "periods": len({c.period for c in cells}),
            "evaluation_dates": len({c.evaluation_date for c in cells}),
            "len": len(cells)}


def accessors(tri):
    st, ns = call(lambda: tri.num_samples)
    return {"num_samples": int(ns) if st == "ok" else ns, "fields": list(tri.fields), "slices": len(tri.slices),
            "periods": len(tri.periods), "evaluation_dates": len(tri.evaluation_dates), "len": len(tri)}


def check_accessors(ctx, tri, what, shown):
    """cached / derived accessors of an OUTPUT must describe the output's own cells"""
    a, r = accessors(tri), recomputed(tri.cells)
    ctx.count("sequence/accessors-checked")
    if a != r:
        ctx.fail(f"{what}: num_samples / fields / slices / periods of the result disagree with its own cells",
                 shown, {"accessors": a, "recomputed_from_cells": r})


def zero_new_arrays(src_cells, out_cells, only_fields=None):
    """mutate the RESULT in place (arrays the operation created: source array had more than one sample, or the
    field was selected) — a later call on the same input must not be affected"""
    for c, o in zip(src_cells, out_cells):
        for f, v in o.values.items():
            sv = c.values.get(f)
            if isinstance(v, np.ndarray) and v is not sv and isinstance(sv, np.ndarray) and sv.size > 1 \
                    and (only_fields is None or f in only_fields) and v.flags.writeable:
                v *= 0


# ---- the check ----------------------------------------------------------------------------------

def me_guards(ctx, rng, n):
    """the guards of maximum_entropy_ensemble (bootstrap.py:250-258) against `meEnsembleRaw`: a single value and a
    constant series come back unchanged (also [None], [None, None], [2, 2.0]); a non-constant series containing
    None is refused with ValueError; a None-free non-constant series gives the quantiles in the source's rank order.
    (The U guard `0 > u > 1` can never fire; U is always drawn from [0, 1) here.)"""
    from common import w_val
    reqs, post = [], []
    for ci in range(n):
        shape = rng.choice(["single", "constant", "constant-none", "none-mixed", "none-mixed", "numbers"])
        k = rng.randrange(2, 7)
        if shape == "single":
            xs = [rng.choice([None, 3, 2.5, 0, rng.randrange(1, 99) / 4])]
        elif shape == "constant":
            v = rng.choice([2, 0.5, 0, 7.25])
            xs = [rng.choice([v, float(v), int(v)]) if float(v) == int(v) else v for _ in range(k)]
        elif shape == "constant-none":
            xs = [None] * k
        elif shape == "none-mixed":
            xs = [rng.choice([None, rng.randrange(1, 40) / 4, rng.randrange(1, 9)]) for _ in range(k)]
            xs[rng.randrange(k)] = None
            if all(v is None for v in xs):
                xs[rng.randrange(k)] = 1.5
            if rng.random() < 0.3:                    # None first / None only after equal leading values
                xs = [None] + [v for v in xs if v is not None][:k - 1] + [2.0]
        else:
            xs = [rng.choice([rng.randrange(1, 4096) / 4, rng.randrange(1, 50)]) for _ in range(k)]
        U = [rng.random() for _ in xs]
        L = rng.choice([None, (0, 5000)]) if len(xs) >= 3 else (0, 5000)
        st, r = call(maximum_entropy_ensemble, list(xs), U, L)
        ctx.count(f"me-guards/{shape}")
        ctx.case(digest=json.dumps(["me-guards", [None if v is None else float(v) for v in xs],
                                    [type(v).__name__ for v in xs]]), nontrivial=len(xs) > 1,
                 sample={"op": "maximum_entropy_ensemble", "x": xs} if ci < 1 else None)
        if st == "ok":
            impl = {"ok": [w_val(v) for v in r]}
            numeric = all(v is not None for v in r)
            qs = sorted(float(v) for v in r) if numeric else []
        else:
            impl, qs = {"err": r}, []
        reqs.append({"op": "meRaw", "xs": [w_val(v) for v in xs], "qs": rats(qs)})
        post.append((xs, U, L, impl))
    outs = common.Driver("drv_c17").run(reqs)
    for (xs, U, L, impl), out in zip(post, outs):
        model = out["model"]
        case = {"x": xs, "U": U, "L": L}
        const = all(xs[0] == v for v in xs[1:])
        if len(xs) == 1 or const:
            if impl != {"ok": [w_val(v) for v in xs]}:
                ctx.fail("maximum_entropy_ensemble: a constant / single series must come back unchanged", case, impl)
        elif any(v is None for v in xs):
            if impl != {"err": "ValueError"}:
                ctx.fail("maximum_entropy_ensemble: a (non-constant) series with a missing value must be refused "
                         "with ValueError", case, impl)
        if ("err" in model) != ("err" in impl) or model.get("err", impl.get("err")) != impl.get("err", model.get("err")):
            ctx.disagree("maximum_entropy_ensemble guards (meEnsembleRaw): outcome", case, model, impl)
        elif "ok" in model:
            a = [None if v is None else Fraction(v[1]) for v in model["ok"]]
            b = [None if v is None else Fraction(v[1]) for v in impl["ok"]]
            kinds_m = [None if v is None else v[0] for v in model["ok"]]
            kinds_i = [None if v is None else v[0] for v in impl["ok"]]
            if a != b or ((len(xs) == 1 or const) and kinds_m != kinds_i):
                ctx.disagree("maximum_entropy_ensemble guards (meEnsembleRaw): value", case, model, impl)


ME_FLAVOURS = ["int", "float", "float", "negative", "near-constant", "ties", "uneven", "mixed", "sorted", "reversed",
               "constant"]


def me_series(rng, n, flavour):
    if flavour == "int":
        return [rng.randrange(1, 400) for _ in range(n)]
    if flavour == "negative":
        return [rng.randrange(-16384, 16384) / 8 for _ in range(n)]
    if flavour == "near-constant":
        base = rng.choice([1000.0, 0.5, -250.0, 4096.0])
        xs = [base + rng.randrange(0, 4) / (1 << 20) for _ in range(n)]
        xs[rng.randrange(n)] = base + 5 / (1 << 20)            # never exactly constant unless n == 1
        return xs
    if flavour == "ties":
        pool = [rng.randrange(1, 64) / 4 for _ in range(max(2, n // 3))]
        return [rng.choice(pool) for _ in range(n)]
    if flavour == "uneven":
        return [2.0 ** rng.randrange(-10, 21) * rng.choice([1, 3, 5]) for _ in range(n)]
    if flavour == "mixed":
        return [rng.choice([rng.randrange(1, 500), rng.randrange(1, 4096) / 8]) for _ in range(n)]
    if flavour == "constant":
        v = rng.choice([2, 2.5, 0, -3.0])
        return [v] * n
    xs = [rng.randrange(1, 32768) / 8 for _ in range(n)]
    if flavour == "sorted":
        xs.sort()
    if flavour == "reversed":
        xs.sort(reverse=True)
    return xs


def me_limits(rng, xs, which):
    lo, hi = min(xs), max(xs)
    if which == "none":
        return None
    if which == "boot":
        return (0, hi)                                         # what bootstrap passes (0 is an int there)
    if which == "tight":
        return (lo, hi)
    if which == "wide":
        return (lo - rng.randrange(0, 64) / 4, hi + rng.randrange(0, 64) / 4)
    if which == "lopsided":
        return (lo - rng.randrange(8, 4096) / 4, hi + rng.randrange(0, 3) / 4)
    return (lo + (hi - lo) / 4, hi - (hi - lo) / 8)            # "inside": limits INSIDE the data (as the code takes them)


def me_draws(rng, n, how):
    if how == "grid":
        # draws ON the grid points i/n and just below them (side="right"); exact only when n is a power of two
        U = []
        for _ in range(n):
            i = rng.randrange(0, n)
            U.append(rng.choice([i / n, float(np.nextafter(i / n, 0)) if i else 0.0, 0.0,
                                 float(np.nextafter(1.0, 0))]))
        return U
    if how == "dup":
        pool = [rng.random() for _ in range(max(1, n // 2))]
        return [rng.choice(pool) for _ in range(n)]
    if how == "extra":
        return [rng.random() for _ in range(n + rng.randrange(1, 4))]
    return [rng.random() for _ in range(n)]


def me_arith(ctx, rng, count, reqs, post):
    """maximum_entropy_ensemble against the Lean model of its WHOLE arithmetic (Model/ResampleME.lean): direct calls
    with series of 1/2/3/.../40/256/1000 values (constant, near-constant, tied, negative, unevenly spaced, int /
    float / mixed), limits None / (0, max) / tight / wide / lopsided / inside the data, draws random / on the grid
    points / duplicated / more than values / (rarely) outside [0, 1)."""
    sizes = [1, 2, 2, 2, 3, 3, 3, 4, 5, 6, 7, 8, 8, 11, 16, 16]
    big = [40, 40, 256] + ([256, 1000, 1000] if ctx.thorough else [1000])
    plan = big + [rng.choice(sizes) for _ in range(max(0, count - len(big)))]
    prev = None
    for ci, n in enumerate(plan):
        flavour = rng.choice(ME_FLAVOURS) if n < 40 else rng.choice(["float", "int", "negative", "ties", "uneven"])
        xs = me_series(rng, n, flavour)
        if prev is not None and rng.random() < 0.15 and len(prev[0]) < 40:
            # TWIN: same length, limits kind and draws as the previous call, different values
            xs, flavour = [v * 2 + 1 for v in prev[0]], "twin"
            n = len(xs)
        pow2 = n & (n - 1) == 0
        how = rng.choice(["random", "random", "random", "dup", "extra"] + (["grid", "grid"] if pow2 else []))
        which = rng.choice(["none", "none", "boot", "boot", "tight", "wide", "lopsided", "inside"])
        L = me_limits(rng, xs, which)
        U = prev[1] if flavour == "twin" and len(prev[1]) >= n else me_draws(rng, n, how)
        oor = None
        if n > 1 and rng.random() < 0.06:
            oor = rng.choice([1.0, 1.5, -0.25, -1.0])         # the guard `0 > u > 1` is dead: no ValueError
            U[rng.randrange(len(U))] = oor
        x_in, U_in = list(xs), list(U)
        st, r = call(maximum_entropy_ensemble, x_in, U_in, L)
        ctx.count(f"me-arith/n={n if n in (1, 2, 3, 40, 256, 1000) else 'other'}")
        ctx.count(f"me-arith/series={flavour}")
        ctx.count(f"me-arith/L={which}")
        ctx.count(f"me-arith/U={how}" + ("+out-of-range" if oor is not None else ""))
        shown = {"x": xs, "U": U, "L": L}
        ctx.case(digest=json.dumps(["me-arith", xs, U, L]), nontrivial=n > 1 and len(set(xs)) > 1,
                 sample={"op": "maximum_entropy_ensemble", "n": n, "series": flavour, "L": which, "U": how}
                 if ci in (0, 5) else None)
        if x_in != list(xs) or U_in != list(U):
            ctx.fail("maximum_entropy_ensemble mutated its arguments", shown, {"x": x_in[:8], "U": U_in[:8]})
        if st == "ok":
            impl_vals = list(r)
            d = {"ok": [num_wire(v) for v in impl_vals]}
            # SEQUENCE: ruin the result, call again on the same objects
            if n > 1 and len(set(xs)) > 1 and rng.random() < 0.3:
                try:
                    r[0] = -12345.0
                except Exception:  # noqa: BLE001
                    pass
                st2, r2 = call(maximum_entropy_ensemble, x_in, U_in, L)
                if st2 != "ok" or [num_wire(v) for v in r2] != d["ok"]:
                    ctx.fail("maximum_entropy_ensemble: second call on the same arguments differs", shown, {"first": d})
                ctx.count("sequence/me-twice")
            if L is not None and len(set(xs)) > 1 and (min(impl_vals) < L[0] or max(impl_vals) > L[1]):
                ctx.count("me-arith/outside-L")                # see post-processing: allowed only when limitsBind is false
        else:
            impl_vals, d = None, {"err": r}
        reqs.append(me_request(xs, U, L, impl_vals))
        post.append(("me", {"stream": "direct", **shown}, d))
        prev = (xs, U)


D26_TEXT = ("maximum_entropy_ensemble returns values outside the given limits L when the mean-preserving shift of an outer "
            "interval exceeds the slack the limit leaves (Resample.limitsBind false), e.g. bootstrap of the single row "
            "[100, 110, 115, 118] with L = (0, max x) yields 149.46 > 118")


def sampler_args(ctx, reqs, post, arr, rec_args, dist, shown):
    """what moment_match asks numpy's sampler for (deterministic given the source array): the array's mean,
    POPULATION variance and length. normal: loc, scale**2; gamma: shape*scale, shape*scale**2 (exact products of the
    recorded doubles) — both against Spec.C17.momentsOk over exact rationals, tolerance 2^-40 / 2^-34 relative
    (np.mean / np.var summation, one sqrt or two divisions). lognormal: NUMERIC ONLY (log / sqrt)."""
    name, a, k = rec_args
    if name is None or arr.size < 2:
        return
    size = k.get("size", a[2] if len(a) > 2 else None)
    d = [float(x) for x in arr.tolist()]
    mu, var = float(np.mean(arr)), float(np.var(arr))
    ctx.count(f"moment/sampler-args={name}")
    if name != dist:
        ctx.fail("moment_match: a different sampler than the requested distribution was called", shown, {"called": name})
        return
    if name == "lognormal":
        m, sg = float(k.get("mean", a[0] if a else 0.0)), float(k.get("sigma", a[1] if len(a) > 1 else 0.0))
        d_mean = float(np.exp(m + sg * sg / 2))
        d_var = float((np.exp(sg * sg) - 1) * np.exp(2 * m + sg * sg))
        ctx.count("numeric-only/lognormal-parameters")
        if abs(d_mean - abs(mu)) > 1e-9 * max(1.0, abs(mu)) or abs(d_var - var) > 1e-8 * max(1.0, var) or size != arr.size:
            ctx.fail("moment_match: lognormal parameters do not reproduce the sample mean / variance (numeric check)",
                     shown, {"distribution_mean_var": [d_mean, d_var], "sample_mean_var": [mu, var], "size": size})
        return
    if name == "normal":
        loc, sc = k.get("loc", a[0] if a else None), k.get("scale", a[1] if len(a) > 1 else None)
        g_mean, g_var = Fraction(float(loc)), Fraction(float(sc)) ** 2
    else:
        sh, sc = k.get("shape", a[0] if a else None), k.get("scale", a[1] if len(a) > 1 else None)
        g_mean, g_var = Fraction(float(sh)) * Fraction(float(sc)), Fraction(float(sh)) * Fraction(float(sc)) ** 2
    scale = max(abs(x) for x in d)
    tolM = Fraction(scale) / (1 << 40)
    tolV = Fraction(max(var, scale * scale / (1 << 20))) / (1 << 34)
    reqs.append({"op": "moments", "d": rats(d),
                 "impl": {"mean": w_rat(g_mean), "var": w_rat(g_var), "n": int(size) if size is not None else 0,
                          "tolM": w_rat(tolM), "tolV": w_rat(tolV)}})
    post.append(("moments", shown, {"ok": {"sampler": name, "mean": float(g_mean), "var": float(g_var), "size": size}}))


def correspondence(ctx):
    rng = ctx.rng
    reqs, post = [], []

    # (i) the common core: re-imposing a rank order ------------------------------------------------
    n_rank = 3000 if ctx.thorough else 250
    for ci in range(n_rank):
        n = rng.randrange(1, 9)
        ties = rng.random() < 0.35
        if ci < 4:
            n, ties = [40, 256, 1000, 256][ci], ci == 3        # size thresholds (numpy sort kernels, list paths)
        xs = [rng.randrange(0, (n // 2 + 2) if ties else 4096 * max(1, n // 64)) / 4 for _ in range(n)]
        which = rng.choice(["me", "me-L", "sort_x_on_y"]) if ci >= 4 else "sort_x_on_y"
        ctx.count(f"rank/{which}")
        if which == "sort_x_on_y":
            if len(set(xs)) < len(xs):
                # numpy's default argsort is not stable (observed on 6 doubles): with tied source samples
                # only the tie-agnostic clauses (order, permutation) are decidable
                which = "sort_x_on_y-ties"
            qs = [rng.randrange(-4096, 4096) / 8 for _ in range(n)]
            st, r = call(_sort_x_on_y_rank, np.array(qs), np.array(xs))
            impl = None if st == "err" else [float(v) for v in r]
        else:
            U = [rng.random() for _ in range(n)]
            L = None if which == "me" else (0, max(xs))
            if which == "me" and n < 3 and len(set(xs)) > 1:
                L = (0, max(xs))                       # scipy trim_mean of a 1-element diff is fine; keep simple
            st, r = call(maximum_entropy_ensemble, list(xs), U, L)
            impl = None if st == "err" else [float(v) for v in r]
            qs = sorted(impl) if impl is not None else []
            if impl is not None and (n == 1 or len(set(xs)) == 1):
                if impl != xs:
                    ctx.fail("maximum_entropy_ensemble: a constant / single series must come back unchanged",
                             {"x": xs, "U": U}, {"impl": impl})
                ctx.case(digest=json.dumps(["rank", xs, which]), nontrivial=False)
                continue
            if impl is not None:
                # with tied source values the quantiles tie as well; then only the weak clause
                # xs[i] < xs[j] -> r[i] <= r[j] (Spec.rankOrderOk / rankFixed) is meaningful
                if len(set(xs)) == len(xs) and \
                        list(np.argsort(impl, kind="stable")) != list(np.argsort(xs, kind="stable")):
                    ctx.fail("maximum_entropy_ensemble: argsort of the replicate differs from the source's",
                             {"x": xs, "U": U, "L": L}, {"impl": impl})
                lo, hi = (L if L else (None, None))
                if L and (min(impl) < lo or max(impl) > hi):
                    ctx.count("numeric-only/me-outside-L")   # Vinod's mean-preserving shift may leave [L0, L1]
        ctx.case(digest=json.dumps(["rank", xs, qs, which]), nontrivial=n > 1)
        if impl is None:
            ctx.disagree(f"{which} raised", {"xs": xs, "qs": qs}, None, st)
            continue
        reqs.append({"op": "reimpose", "xs": rats(xs), "qs": rats(qs), "impl": rats(impl)})
        post.append(("rank", {"which": which, "xs": xs, "qs": qs}, impl))

    me_guards(ctx, rng, 400 if ctx.thorough else 80)

    me_arith(ctx, rng, 700 if ctx.thorough else 90, reqs, post)

    # (ii) bootstrap ----------------------------------------------------------------------------------
    def boot_case(t, fields, shapes, n, seed, field, sel, sel_kind, stream, identity=False, default_field=False,
                  sample=False):
        before = accessors(t)
        with RngRecorder(identity=identity) as rec:
            if default_field:
                res = call(bootstrap, t, n, seed)               # default argument, not field=None
            else:
                res = call(bootstrap, t, n, seed, field)
        st, reps = res
        d = {"ok": [w_cells(r.cells) for r in reps]} if st == "ok" else {"err": reps}
        slices = list(t.slices.values())
        P, methods, me_draws_of = [], [], []
        if n > 0 and len(rec.gens) == len(slices):
            for sl, g in zip(slices, rec.gens):
                p, mth, U = slice_params(sl, sel if field is not None else sl.fields, g.log, n,
                                         reps if st == "ok" else None)
                P.append(p)
                methods.append(mth)
                me_draws_of.append((sl, U))
        if n > 0 and st == "ok" and len(rec.gens) != len(slices):
            ctx.fail("bootstrap: one np.random.default_rng(seed) per slice is expected (identical for identical seeds); "
                     "a different number of generators was created", {"t": w_cells(t.cells), "n": n, "seed": seed},
                     {"generators": len(rec.gens), "slices": len(slices)})
        # the RNG interface of the age-to-age path: the probability vector `p` of every choice() call is the slice's
        # volume weights (Model ataWeights: _normalize, eval_date_resolution), the same for every replicate; each
        # call is choice(range(len(p)), size=len(p), p=p, replace=True)
        if st == "ok" and n > 0 and len(rec.gens) == len(slices):
            wbudget = 3
            for sl, g, mth in zip(slices, rec.gens, methods):
                if mth != "atas" or wbudget <= 0:
                    continue
                wbudget -= 1
                flds = sel if field is not None else sl.fields
                lags = sorted({c.dev_lag() for c in sl})[1:]
                per = len(lags) * len(flds)
                calls = g.calls
                ok_shape = len(calls) == per * n and all(
                    ck.get("p") is not None and ck.get("replace", True) is True and
                    len(ck["p"]) == int(ck.get("size", -1)) == len(ca[0]) for _, ca, ck in calls)
                same = ok_shape and all(np.array_equal(calls[j][2]["p"], calls[j % per][2]["p"]) for j in range(len(calls)))
                ctx.count("bootstrap/rng-interface-weights")
                if not ok_shape or not same:
                    ctx.fail("bootstrap (age-to-age): every replicate must draw, per lag and field, "
                             "choice(range(m), size=m, p=volume weights, replace=True) with the SAME p",
                             {"t": w_cells(t.cells), "n": n, "seed": seed, "field": field},
                             {"calls": len(calls), "expected": per * n, "same_p": bool(same)})
                    continue
                it = iter(calls[:per])
                impl_w = [[w_rat(lag), [[f, rats([float(x) for x in next(it)[2]["p"]])] for f in flds]] for lag in lags]
                reqs.append({"op": "weights", "s": w_cells(sl.cells), "fields": list(flds),
                             "tol": w_rat(Fraction(1, 1 << 40)), "impl": impl_w})
                post.append(("weights", {"slice": w_cells(sl.cells), "fields": list(flds), "n": n, "seed": seed},
                             {"ok": impl_w}))
        for mth in methods:
            ctx.count(f"bootstrap/method={mth}")
        if len(set(methods)) > 1:
            ctx.count("bootstrap/methods-mixed" + ("-late" if methods and methods[-1] != methods[0] and
                                                   len(set(methods[:-1])) == 1 else ""))
        for shp in shapes:
            ctx.count(f"bootstrap/shape={shp}")
        ctx.count(f"bootstrap/slices={len(slices)}")
        ctx.count(f"bootstrap/field={sel_kind}")
        ctx.count(f"bootstrap/n={n if n < 4 else 'large'}")
        ctx.count(f"bootstrap/stream={stream}")
        ctx.count(f"bootstrap/seed={'None' if seed is None else '0' if seed == 0 else 'random'}")
        ctx.count("bootstrap/" + ("ok" if st == "ok" else reps))
        wire_t = w_cells(t.cells)
        shown = {"t": wire_t, "n": n, "seed": seed, "field": field, "stream": stream}
        ctx.case(digest=json.dumps([canon(wire_t), n, field, stream], sort_keys=True), nontrivial=len(t) > 1,
                 sample={"op": "bootstrap", "cells": len(t), "slices": len(slices), "shapes": shapes, "n": n,
                         "field": sel_kind, "stream": stream} if sample else None)
        if accessors(t) != before:
            ctx.fail("bootstrap changed the derived accessors of its INPUT", {"t": w_cells(t.cells), "n": n})
        if st == "ok":
            for r in reps[:6]:
                check_accessors(ctx, r, "bootstrap replicate", {"t": w_cells(t.cells), "n": n, "seed": seed, "field": field})
        if st == "ok" and n > 0 and seed is not None and not identity:
            # same seed => same replicates (also after the first result's cells were read)
            st2, reps2 = call(bootstrap, t, n, seed, field)
            d2 = {"ok": [w_cells(r.cells) for r in reps2]} if st2 == "ok" else {"err": reps2}
            if d2 != d:
                ctx.fail("bootstrap: same seed, different replicates", shown, {"first": d, "second": d2})
        if st == "err" and n > 0:
            ctx.fail(f"bootstrap refuses a complete positive triangle ({reps})" +
                     (" with a field selection (D18 recurrence?)" if field is not None else ""), shown, {"impl": d})
        reqs.append({"op": "bootstrap", "t": wire_t, "n": n, "field": None if field is None else sel,
                     "P": P, "impl": d.get("ok"), "identity": bool(identity)})
        post.append(("bootstrap", shown, d))
        # the arithmetic of every maximum-entropy slice: series, the uniform draws AS DRAWN from the slice's seeded
        # generator, L = (0, max) -> the model's replicate (within 2^-40) and the Spec clauses
        if st == "ok" and n > 0:
            budget = 12
            for sl, U in me_draws_of:
                if U is None:
                    continue
                for (i, f), (u, vals) in U.items():
                    xs = [c.values.get(f) for c in sl.cells]
                    if any(v is None for v in xs) or len(xs) < 2 or all(xs[0] == v for v in xs[1:]):
                        continue
                    if u is None:
                        ctx.fail("bootstrap (maximum entropy): no uniform draws were taken from the slice's seeded "
                                 "generator for this replicate and field", shown, {"replicate": i, "field": f})
                        continue
                    if budget <= 0 or any(v is None for v in vals) or len(vals) != len(xs):
                        continue
                    budget -= 1
                    L = (0, max(xs))
                    ctx.count("bootstrap/me-slice-arithmetic")
                    if min(vals) < L[0] or max(vals) > L[1]:
                        ctx.count("bootstrap/me-outside-L")
                    reqs.append(me_request(xs, u, L, vals))
                    post.append(("me", {"stream": "bootstrap", "x": [float(v) for v in xs], "U": u, "L": L,
                                        "replicate": i, "field": f, "bootstrap": {"n": n, "seed": seed, "t": wire_t}},
                                 {"ok": [num_wire(v) for v in vals]}))
        return st, reps

    def pick_field(fields):
        sel_kind = rng.choice(["none", "none", "str", "subset", "all"])
        all_fields = sorted(fields)
        if sel_kind == "none":
            return None, all_fields, sel_kind
        if sel_kind == "str":
            f = rng.choice(all_fields)
            return f, [f], sel_kind
        if sel_kind == "subset":
            sel = rng.sample(all_fields, rng.randrange(1, len(all_fields) + 1))
            return list(sel), sel, sel_kind
        sel = list(all_fields)
        rng.shuffle(sel)
        return list(sel), sel, sel_kind

    n_boot = 2500 if ctx.thorough else 150
    for ci in range(n_boot):
        late = rng.random() < 0.12
        t, fields, shapes, kind = boot_triangle(rng, late=late)
        n = rng.choice([1, 2, 3])
        if rng.random() < 0.03 and len(t) <= 12:
            n = 40                                              # size threshold: 40 replicates
        seed = rng.choice([None, 0, 0, 7] + [rng.randrange(1 << 31)] * 6)
        field, sel, sel_kind = pick_field(fields)
        if rng.random() < 0.04:
            n = rng.choice([0, -1])
        stream = "late-slice" if late else "plain"
        default_field = field is None and rng.random() < 0.5
        if not late and rng.random() < 0.3:
            # SEQUENCE: bootstrap a triangle that is itself the result of thin (a scalar triangle has one
            # "sample"; k = 0 gives a fresh copy) after its accessors were read
            accessors(t)
            st0, t0 = call(thin, t, 0, 3)
            if st0 == "ok" and t0 is not t and w_cells(t0.cells) == w_cells(t.cells):
                check_accessors(ctx, t0, "thin(k=0) of a scalar triangle", {"t": w_cells(t.cells)})
                t, stream = t0, "bootstrap-of-thinned"
            else:
                ctx.fail("thin(t, 0) of a scalar triangle must be a fresh triangle with the same cells",
                         {"t": w_cells(t.cells)}, {"impl": st0})
        elif not late and rng.random() < 0.2:
            # DERIVED INPUT WITH WARM CACHES: a parent with one more slice, every cached accessor read, the
            # input filtered out of it, default arguments
            extra, _, _, _ = boot_triangle(rng)
            own = {c.metadata for c in t.cells}
            extra_cells = [c for c in extra.cells if c.metadata not in own]
            cls = type(t.cells[0])
            extra_cells = [c for c in extra_cells if type(c) is cls]
            if extra_cells:
                parent = Triangle(list(t.cells) + extra_cells)
                accessors(parent)
                parent.dev_lags(), parent.slices, parent.periods, parent.fields, parent.evaluation_dates
                st0, t0 = call(parent.filter, lambda c: c.metadata in own)
                if st0 == "ok" and w_cells(t0.cells) == w_cells(t.cells):
                    t, stream = t0, "derived-warm-cache"
        st, reps = boot_case(t, fields, shapes, n, seed, field, sel, sel_kind, stream, default_field=default_field,
                             sample=ci < 3)
        if st == "ok" and n > 0 and rng.random() < 0.15:
            # TWIN: same coordinates, metadata, sizes and seed — different values (rescaled by 2, exact)
            twin = Triangle([c.replace(values={k: (v * 2) for k, v in c.values.items()}) for c in t.cells])
            boot_case(twin, fields, shapes, n, seed, field, sel, sel_kind, "twin")
        if n > 0 and rng.random() < 0.2:
            # IDENTITY DRAWS: every period keeps its own factors -> the source is reproduced (chained product from
            # the unchanged first cell), whatever the shape; maximum-entropy slices draw as usual
            boot_case(t, fields, shapes, min(n, 2), seed if seed is not None else 3, field, sel, sel_kind,
                      "identity-draws", identity=True)

    # (iii) thin, incl. SEQUENCES: thin(thin(t)), moment_match then thin -----------------------------------
    def thin_case(t, k, seed, via, tag, sample=False, default_seed=False):
        ns = recomputed(t.cells)["num_samples"]
        before = accessors(t)                           # the input's cached accessors are read beforehand
        with RngRecorder() as rec:
            if default_seed:
                res = call((lambda: t.thin(k)) if via else (lambda: thin(t, k)))
            else:
                res = call((lambda: t.thin(k, seed)) if via else (lambda: thin(t, k, seed)))
        st, out = res
        same_obj = st == "ok" and out is t
        d = {"err": out} if st == "err" else {"ok": "same" if same_obj else w_cells(out.cells)}
        idx = []
        if rec.gens and rec.gens[0].log:
            idx = [int(x) for x in rec.gens[0].log[0][1]]
            # the RNG interface (Properties.C17.ValidDraw): ONE call choice(n, k, replace=False) on one generator,
            # answering k pairwise distinct positions below n
            _, ca, ck = rec.gens[0].calls[0]
            pop = ca[0] if ca else ck.get("a")
            size = ca[1] if len(ca) > 1 else ck.get("size")
            repl = ca[2] if len(ca) > 2 else ck.get("replace", True)
            ctx.count("thin/rng-interface-checked")
            if len(rec.gens) != 1 or len(rec.gens[0].calls) != 1 or pop != ns or size != k or repl is not False \
                    or len(idx) != k or len(set(idx)) != k or any(not 0 <= j < ns for j in idx):
                ctx.fail("thin: the positions must come from ONE draw choice(num_samples, k, replace=False)",
                         {"t": w_cells(t.cells), "k": k, "seed": seed},
                         {"generators": len(rec.gens), "calls": len(rec.gens[0].calls), "population": str(pop),
                          "size": str(size), "replace": str(repl), "idx": idx})
        wire_t = w_cells(t.cells)
        shown = {"t": wire_t, "k": k, "seed": seed, "sequence": tag}
        rel = "eq" if k == ns else "gt" if k > ns else "lt"
        ctx.count(f"thin/k{rel}n")
        ctx.count(f"thin/num_samples={ns}")
        ctx.count(f"thin/stage={tag}")
        ctx.count("thin/" + ("same-object" if same_obj else "ok" if st == "ok" else out))
        ctx.case(digest=json.dumps([canon(wire_t), k, tag], sort_keys=True), nontrivial=ns > 1,
                 sample={"op": "thin", "cells": len(t), "num_samples": ns, "k": k} if sample else None)
        if k == ns and not same_obj:
            ctx.fail("thin with k equal to the sample count must return the triangle itself", shown, {"impl": d})
        if k > ns and st == "ok":
            ctx.fail("thin with k larger than the sample count must be refused", shown, {"impl": d})
        if accessors(t) != before:
            ctx.fail("thin changed the derived accessors of its INPUT", shown)
        if st == "ok" and not same_obj:
            check_accessors(ctx, out, "thin", shown)
            if seed is not None and not default_seed:
                zero_new_arrays(t.cells, out.cells)      # ruin the first result in place, then call again
                st2, out2 = call(thin, t, k, seed)
                if st2 != "ok" or w_cells(out2.cells) != d["ok"]:
                    ctx.fail("thin: same seed, different output on the second call", shown, {"first": d})
                out = out2
        reqs.append({"op": "thin", "t": wire_t, "k": k, "idx": idx, "impl": d.get("ok") if ns > 1 else None})
        post.append(("thin", shown, d))
        return st, out, same_obj

    n_thin = 3000 if ctx.thorough else 220
    for ci in range(n_thin):
        with_arrays = rng.random() < 0.9
        N = rng.randrange(2, 9)
        if ci in (2, 3):
            with_arrays, N = True, [80, 1000][ci - 2]            # size thresholds: 80 / 1000 samples per array
        t, fields, fk = sample_triangle(rng, N, with_arrays, arr1=rng.random() < 0.7)
        tag = "single"
        if with_arrays and rng.random() < 0.25 and not any(k == "arr1" for k in fk.values()):
            # moment_match first: thin must work on (and count the samples of) a derived triangle
            names = [f for f in fields if fk[f] in ("farr", "iarr", "mixed")]
            np.random.seed(rng.randrange(1 << 31))
            stm, tm = call(moment_match, t, names, "normal")
            if stm == "ok":
                check_accessors(ctx, tm, "moment_match", {"t": w_cells(t.cells), "field_names": names})
                t, tag = tm, "after-moment_match"
        ns = recomputed(t.cells)["num_samples"]
        k = rng.choice([ns, ns, ns + 1, ns + 3, 0, 1] + list(range(0, ns + 1)))
        seed = rng.choice([None, 0, 5, rng.randrange(1 << 31)])
        st, a, same_obj = thin_case(t, k, seed, rng.random() < 0.4, tag, sample=ci < 2,
                                    default_seed=rng.random() < 0.15)
        if st == "ok" and not same_obj and rng.random() < 0.6:
            # thin the RESULT again: at, above and below ITS sample count
            k1 = recomputed(a.cells)["num_samples"]
            for k2 in {k1, k1 + 1, rng.randrange(0, k1 + 1)}:
                thin_case(a, k2, rng.randrange(1 << 31), rng.random() < 0.4, "thin-of-thin")

    # (iv) moment_match -----------------------------------------------------------------------------------
    n_mm = 2500 if ctx.thorough else 200
    for ci in range(n_mm):
        big = rng.random() < 0.25
        N = rng.choice([40, 64, 80]) if big else rng.randrange(2, 9)
        if ci in (1, 2):
            big, N = True, 256                                   # size threshold (numpy switches sort kernels)
        t, fields, fk = sample_triangle(rng, N, True, arr1=False)   # a 1-sample array has variance 0: gamma undefined
        names = rng.sample(fields, rng.randrange(0, len(fields) + 1))
        bad_name = rng.random() < 0.05
        if bad_name:
            names = names + ["no_such_field"]
        dist = rng.choice(["normal", "lognormal", "gamma"])
        if rng.random() < 0.04:
            dist = "weibull"
        seed = rng.randrange(1 << 31)
        np.random.seed(seed)
        with RngRecorder() as rec:
            res = call(moment_match, t, names, dist)
        st, out = res
        d = {"ok": w_cells(out.cells)} if st == "ok" else {"err": out}
        draws, it, ita = [], iter(rec.legacy), iter(rec.legacy_args)
        if st == "ok":
            for f in names:
                for i, c in enumerate(t.cells):
                    if type(c.values.get(f)) is np.ndarray:
                        nm, vals = next(it, (None, []))
                        draws.append([i, f, rats(vals)])
                        sampler_args(ctx, reqs, post, c.values[f], next(ita, (None, (), {})), dist,
                                     {"field": f, "cell": i, "distribution": dist, "np.random.seed": seed,
                                      "samples": [float(x) for x in c.values[f].tolist()]})
                        if len(vals) != c.values[f].size:
                            ctx.fail("moment_match: the sampler is asked for a different number of samples than the "
                                     "source array holds", {"t": w_cells(t.cells), "field_names": names,
                                                            "distribution": dist}, {"drawn": len(vals), "source": int(c.values[f].size)})
        wire_t = w_cells(t.cells)
        shown = {"t": wire_t, "field_names": names, "distribution": dist, "np.random.seed": seed}
        ctx.count(f"moment/dist={dist}")
        ctx.count("moment/" + ("ok" if st == "ok" else out))
        ctx.count(f"moment/fields={len(names)}")
        ctx.case(digest=json.dumps([canon(wire_t), names, dist], sort_keys=True), nontrivial=bool(names),
                 sample={"op": "moment_match", "cells": len(t), "fields": names, "dist": dist} if ci < 2 else None)
        if st == "ok":
            check_accessors(ctx, out, "moment_match", shown)
            if names and rng.random() < 0.4:
                # SEQUENCE: ruin the first result's new arrays in place, re-seed, call again
                zero_new_arrays(t.cells, out.cells, only_fields=set(names))
                np.random.seed(seed)
                st2, out2 = call(moment_match, t, names, dist)
                if st2 != "ok" or w_cells(out2.cells) != d["ok"]:
                    ctx.fail("moment_match: second call on the same input and RNG state differs from the first",
                             shown, {"first": d})
                out = out2
                ctx.count("sequence/moment-twice")
        if st == "ok" and big:
            # NUMERIC ONLY (outside the model): mean and variance scale of the new samples
            for c, o in zip(t.cells, out.cells):
                for f in names:
                    a, b = c.values.get(f), o.values.get(f)
                    if type(a) is np.ndarray and a.size > 1:
                        mu, sd = float(np.mean(a)), float(np.std(a))
                        ctx.count("numeric-only/moment-mean-var")
                        if abs(float(np.mean(b)) - mu) > 6 * sd / np.sqrt(a.size) + 1e-9 or not (
                                0.2 * sd <= float(np.std(b)) <= 5 * sd):
                            ctx.fail("moment_match: mean / variance scale not matched (numeric check, 6 sigma)",
                                     shown, {"field": f, "old": [mu, sd], "new": [float(np.mean(b)), float(np.std(b))]})
        reqs.append({"op": "moment", "t": wire_t, "fields": names, "distOk": dist in ("normal", "lognormal", "gamma"),
                     "draws": draws, "impl": d.get("ok")})
        post.append(("moment", shown, d))

    outs = common.Driver("drv_c17").run(reqs)
    for (kind, shown, d), req, out in zip(post, reqs, outs):
        model, spec = out["model"], out["spec"]
        if spec is not None:
            for k, v in spec.items():
                ctx.count(f"spec/{kind}.{k}")
                if kind == "rank" and k == "fixed" and shown["which"] == "sort_x_on_y-ties":
                    continue
                if v is False:
                    ctx.fail(f"Spec.C17 {kind}.{k} is false on the implementation's output", shown, {"impl": d})
        if kind == "rank":
            if model != rats(d) and shown["which"] != "sort_x_on_y-ties":
                ctx.disagree(f"reimposeRank vs {shown['which']}", shown, model, rats(d))
            continue
        if kind == "moments":
            continue
        if kind == "weights":
            if "err" in model:
                ctx.disagree("volume weights: the model fails where the implementation drew", shown, model, d)
            continue
        if kind == "me":
            info = out.get("info") or {}
            if ("err" in d) != ("err" in model) or ("err" in d and d["err"] != model["err"]):
                ctx.disagree("maximum_entropy_ensemble vs maxEntropy: outcome", shown, model, d)
            elif "ok" in d and spec is None:
                # degenerate series (single value / constant): returned unchanged, compared exactly incl. kind
                if model["ok"] != d["ok"]:
                    ctx.disagree("maximum_entropy_ensemble vs maxEntropy: unchanged series", shown, model, d)
            elif "ok" in d:
                lim = [Fraction(x) for x in info.get("lim", [])]
                vals = [Fraction(v[1]) for v in d["ok"]]
                unit = all(0 <= u < 1 for u in shown["U"])
                if lim and (min(vals) < lim[0] or max(vals) > lim[1]):
                    # with draws in [0, 1): only possible when the limits do not bind (Properties.C17.me_within_limits,
                    # me_exceeds_upper_limit); a breach WITH binding limits beyond 2^-40 is the `limits` clause above
                    ctx.count("me/outside-limits-" + ("draw-outside-unit-interval" if not unit else
                                                      "within-tolerance" if info.get("bind") else "nonbinding(theorem)"))
                    if unit and not info.get("bind") and "D26" not in ctx.known_hits:
                        # the property's words "within the given limits" are FALSE of the code (and of the model:
                        # Properties.C17.me_exceeds_upper_limit) exactly on this signature: draws in [0, 1), limits
                        # given, Resample.limitsBind false. Recorded defect D26 (known_findings.json), not repaired.
                        ctx.known("D26", D26_TEXT, {"x": shown.get("x"), "U": shown.get("U"), "L": shown.get("L"),
                                                    "replicate": [str(v) for v in vals], "limits": [str(v) for v in lim]})
                ctx.count("me/limitsBind=" + str(bool(info.get("bind"))))
            continue
        if "err" in d or "err" in model:
            if ("err" in d) != ("err" in model):
                ctx.disagree(f"{kind}: one side raises", shown, model, d)
            elif model["err"] != d["err"]:
                ctx.disagree(f"{kind}: error class", shown, model, d)
            continue
        if kind == "bootstrap":
            same = len(model["ok"]) == len(d["ok"]) and all(canon(a) == canon(b) for a, b in zip(model["ok"], d["ok"]))
        elif kind == "thin":
            same = model["ok"] == d["ok"] if "same" in (model["ok"], d["ok"]) else canon(model["ok"]) == canon(d["ok"])
        else:
            same = canon(model["ok"]) == canon(d["ok"])
        if not same:
            ctx.disagree(f"{kind} result", shown, model, d)


if __name__ == "__main__":
    common.run_check(
        "C17", module="Bermuda.Properties.C17", driver_targets=["drv_c17"],
        correspondence=correspondence, level="proof",
        rule="(i') guards of maximum_entropy_ensemble vs meEnsembleRaw: single values, constant series (incl. None only), "
             "non-constant series with None (ValueError), None-free series; "
             "(i) random series with and without ties (1-8 values, and 40/256/1000) through maximum_entropy_ensemble "
             "(with/without L) and _sort_x_on_y_rank; "
             "(i'') maximum_entropy_ensemble against the model of its WHOLE arithmetic: series of 1/2/3/4-16/40/256/1000 "
             "values (int, float, mixed, negative, constant, near-constant, tied, unevenly spaced, sorted, reversed, twin "
             "of the previous call), limits None / (0, max) / tight / wide / lopsided / inside the data, draws random / on "
             "the grid points i/n and one ulp below / duplicated / more draws than values / (rarely) outside [0, 1), "
             "called twice with the first result ruined, arguments checked unmodified; "
             "(ii) bootstrap of complete rectangular / upper-left / single row, column, diagonal, cell triangles, a "
             "40-48 cell row, a row with evaluation dates on the 15th, NON-DISJOINT periods (same start, different "
             "end), 1-3 slices (same or different shapes) and 3-5 slices whose LAST slice alone is routed to the other "
             "method, 1-6 periods and lags spaced by the evaluation resolution (1,3,6,12 months), positive int/float "
             "fields with exactly representable age-to-age ratios, fields 0 / 0.0 in every cell, n 1-3, 40 (and "
             "n<=0), field None (explicit and by default) / str / subset / all, seed None / 0 / 7 / random; every "
             "maximum-entropy slice additionally through the arithmetic model with the uniform draws as recorded; "
             "streams: twin triangle (same coordinates and seed, values doubled), derived input filtered out of a "
             "parent whose cached accessors were read, bootstrap of a thinned triangle, IDENTITY index draws (the "
             "source must be reproduced); (iii) thin of sample triangles (2-8, 80, 1000 distinct "
             "samples, scalars, length-1 arrays, mixed) for k below, at and above the sample count, seeds incl. None; "
             "(iv) moment_match on the same kind of triangle (2-8, 40-80, 256 samples), three distributions, field "
             "subsets, bad names, with the arguments handed to numpy's sampler recorded; "
             "SEQUENCES: thin of a thinned triangle (k at / above / below ITS count), thin after moment_match, bootstrap "
             "of a thinned triangle, every operation twice on the same input (first result's new arrays zeroed in "
             "between), default seed argument, accessors (num_samples, fields, slices, periods, evaluation_dates) read "
             "on inputs beforehand and compared on every output with values recomputed from its cells. "
             "distinct = distinct canonical input; non-trivial = more than one cell / sample / value",
        assumptions=[
            "OUTSIDE THE MODEL: numpy's RNG. Generator.choice/uniform of np.random.default_rng and np.random.normal/"
            "lognormal/gamma are wrapped in-process; the drawn index vectors, uniform draws and sample vectors are "
            "recorded and handed to the model as parameters (for the identity stream the wrapped choice answers "
            "[0..m-1]: one admissible value of the parameter)",
            "PARTIAL, what is now INSIDE the model (exact rationals, theorems for every draw): the whole arithmetic of "
            "maximum_entropy_ensemble (trimmed-mean / explicit limits, interval ends, mean-preserving shift, "
            "piecewise-linear quantile function, sorted(quantiles), rank re-imposition; me_within_limits, me_envelope, "
            "me_quantile_mono, me_output), the empirical age-to-age factors, their resampling by the drawn positions "
            "and the chained product from the unchanged first cell (develop_value, chain_identity, "
            "bootstrapD_is_bootstrap), the mean / population variance / count handed to moment_match's sampler and "
            "the gamma parameters (gamma_params_match). STILL OUTSIDE (statistical): the DISTRIBUTION of the draws "
            "(volume weights `p` of rng.choice incl. eval_date_resolution, uniformity of rng.uniform, the samplers), "
            "hence the realised mean/variance of moment-matched samples; the lognormal parameters (log / sqrt). "
            "NUMERIC-ONLY checks in Python: moment_match mean within 6 sigma/sqrt(n) and std within [0.2, 5] x source "
            "on 40-256 samples; lognormal parameters reproduce mean and variance within 1e-9 / 1e-8",
            "'within the given limits': the construction keeps the replicate inside [L0, L1] exactly when "
            "Resample.limitsBind holds (always for the trimmed-mean limits; for bootstrap's L = (0, max x) iff the "
            "two smallest values satisfy x0 + x1/2 <= max x) — theorems me_within_limits, me_bootstrap_limits, "
            "counterexample me_exceeds_upper_limit; the Spec clause `limits` enforces it under that condition, "
            "an excursion with non-binding limits and draws in [0, 1) is the recorded defect D26 (known_findings.json: "
            "KNOWN-FINDING line, exit 0 for that signature only; any excursion with BINDING limits is a violation), see "
            "notes/agents/c17b.md",
            "float64 vs exact rationals in maximum_entropy_ensemble (true division, np.linspace grid, np.mean of the "
            "trimmed differences): values compared with tolerance 2^-40 RELATIVE TO THE MAGNITUDE OF THE SERIES "
            "(absolute slack 2^-40 x max(|x|, |L|)), in the harness/Spec slack only; grid-point draws are generated for "
            "power-of-two lengths only (i/n exact). Sampler arguments: mean 2^-40, variance 2^-34 relative",
            "domain restriction: the age-to-age bootstrap needs development lags spaced by the evaluation resolution; "
            "positive scalar values; source values chosen so that every age-to-age ratio and product is exact in "
            "float64 (compared exactly); fewer uniform draws than values are outside the model (Err.other)",
            "maximum-entropy replicates inside `bootstrap`: the triangle-level model is run on the implementation's own "
            "sorted quantiles (fixed-point check of the rank order, ties by index); the values themselves are checked "
            "by the `me` requests (series, recorded draws, L = (0, max))",
            "identity resampling reproduces the triangle: theorem at the level of a row's chained product "
            "(chain_identity, gather_identity); on whole triangles it is correspondence-only (stream identity-draws: "
            "model and implementation must both return the source, Spec.C17.reproducesSlice)",
            "seed reproducibility is observed by calling twice, not proved",
            "arrays are 1-D; with TIED source samples numpy's default argsort (not stable, observed) decides the order "
            "inside a tie in _sort_x_on_y_rank: there only `xs[i] < xs[j] -> r[i] <= r[j]` and the permutation clause "
            "are checked; moment_match triangles are generated with pairwise distinct samples",
        ],
        trusted=["numpy fancy indexing v[ndxs], argsort, sorted(), np.searchsorted(side='right'), np.linspace, "
                 "scipy.stats.trim_mean (int(0.1*n) = n // 10) as modelled (Model/Resample*.lean)",
                 "@[csimp] Resample.reimposeRank_eq_A (kernel-checked) replaces the list-based rank by an array-based "
                 "one in compiled code"],
    )
