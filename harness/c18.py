"""C18 — unit-changing utilities conserve amounts.

Four streams, each run through the real implementation and the Lean model (drv_c18); the Lean Spec
predicates (Spec/C18.lean) are evaluated on the IMPLEMENTATION's output:

  currency    multi-currency triangles x rate tables (dyadic rates: products exact, tol 0)
  disagg      semi-regular triangles (period length 3/6/12 months) x sub-resolutions x weight vectors
              (dyadic weights); exact (tol 0) when every sub-period is observable and the weights are
              dyadic, relative tolerance 2^-40 where the code divides (default weights 1/n, weight
              renormalisation over the observable sub-periods). The aggregate-back clause is evaluated
              on `aggregate(disaggregate_experience(t))` of the implementation.
  policyYear  quarterly accident triangles with a flat right edge x origins x policy lengths
              (share normalisation divides: tolerance 2^-40)
  premium     writing/earning patterns x resolutions x offsets (normalisation divides: tolerance
              2^-40; a power-of-two sub-stream is exact, tol 0)
"""
import datetime
import json
from dataclasses import replace as dataclass_replace
from fractions import Fraction

import numpy as np

import common
import gen
from common import call, canon_cell, w_cells, w_date, w_rat
from bermuda import Cell, CumulativeCell, IncrementalCell, Metadata, Triangle
from bermuda.utils.aggregate import aggregate
from bermuda.utils.basis import accident_quarter_to_policy_year
import importlib
_currency_mod = importlib.import_module("bermuda.utils.currency")
_disagg_mod = importlib.import_module("bermuda.utils.disaggregate")
from bermuda.utils.currency import DEFAULT_EXCHANGE_RATES, convert_currency, convert_to_dollars
from bermuda.utils.disaggregate import disaggregate_experience
from bermuda.utils.premium_pattern import program_earned_premium

D = datetime.date
TOL = Fraction(1, 2 ** 40)
TOL_W = f"1/{2 ** 40}"

CUR_FIELDS = ["earned_premium", "used_earned_premium", "written_premium", "paid_loss", "reported_loss",
              "incurred_loss"]
OTHER_FIELDS = ["open_claims", "reported_claims", "earned_exposure", "closed_claims"]


# ---- comparison helpers ------------------------------------------------------------------------

def rclose(x, y, tol):
    return abs(x - y) <= tol * (abs(x) + abs(y))


def val_close(a, b, tol):
    if a is None or b is None:
        return a == b
    if a[0] != b[0]:
        return False
    if a[0] == "i":
        return a[1] == b[1]
    if a[0] == "f":
        return rclose(Fraction(a[1]), Fraction(b[1]), tol)
    return (a[1] == b[1] and a[2] == b[2] and len(a[3]) == len(b[3])
            and all(rclose(Fraction(x), Fraction(y), tol) for x, y in zip(a[3], b[3])))


def cells_close(xs, ys, tol):
    """wire cells equal (values dict order ignored); numbers up to relative `tol`"""
    if len(xs) != len(ys):
        return False
    for x, y in zip(xs, ys):
        x, y = canon_cell(x), canon_cell(y)
        if any(x[k] != y[k] for k in ("k", "ps", "pe", "ev", "prev", "m")):
            return False
        if [kv[0] for kv in x["v"]] != [kv[0] for kv in y["v"]]:
            return False
        if not all(val_close(a[1], b[1], tol) for a, b in zip(x["v"], y["v"])):
            return False
    return True


def same_result(model, d, tol):
    """model answer {"ok": cells}|{"err": cls} against the implementation dump"""
    if ("err" in model) != ("err" in d):
        return False
    if "err" in d:
        return model["err"] == d["err"]
    return cells_close(model["ok"], d["ok"], tol)


def impl_dump(res):
    st, v = res
    return {"ok": w_cells(v.cells)} if st == "ok" else {"err": v}


def w_num(x):
    return ["i", int(x)] if isinstance(x, int) and not isinstance(x, bool) else ["f", w_rat(float(x))]


# ---- generators --------------------------------------------------------------------------------

def month_start(y, m):
    return D(y, m, 1)


def grid_rows(rng, res, n_periods, start, max_lag=4, partial=0.0, shape="triangle", flat=False, drop=0.0):
    """periods of `res` months from `start` (first of a month); evaluation dates at month ends,
    lags multiples of `res` after the period end; with probability `partial` also evaluation dates
    INSIDE the period (negative lags), at month ends and on any other day of any month of the period"""
    rows = []
    for i in range(n_periods):
        if drop and n_periods > 1 and rng.random() < drop:
            continue
        ps = gen.add_months_int(start, i * res)
        pe = gen.add_months_int(ps, res - 1, end=True)
        if flat:
            lags = list(range(0, n_periods - i + max_lag))
        elif shape == "triangle":
            lags = list(range(0, max(1, min(max_lag, n_periods - i))))
        else:
            lags = sorted(rng.sample(range(max_lag), rng.randrange(1, max_lag + 1)))
        evals = [gen.add_months_int(pe, k * res, end=True) for k in lags]
        if partial and rng.random() < partial:
            # evaluation dates INSIDE the period: the month end of every month but the last, and ANY other day
            # of EVERY month of the period (a mid-month evaluation date closes no sub-period of its own month:
            # "months elapsed // resolution" and "sub-period end <= evaluation date" differ exactly there)
            inside = []
            for j in range(0, res):
                first = gen.add_months_int(ps, j)
                last = gen.add_months_int(ps, j, end=True)
                if j < res - 1:
                    inside.append(last)
                inside.append(first + datetime.timedelta(days=rng.randrange(0, (last - first).days)))
            evals = sorted(set(evals + rng.sample(inside, rng.randrange(1, min(4, len(inside)) + 1))))
        rows.append((ps, pe, evals))
    return rows


def rand_fields(rng, lo=1, hi=4, pool=None):
    pool = pool or (CUR_FIELDS + OTHER_FIELDS)
    return rng.sample(pool, rng.randrange(lo, min(hi, len(pool)) + 1))


def make_cells(rng, rows, meta, kind, fields, vkinds, n_samples, none_p=0.0, shared=None):
    """`shared` (a dict, or None): when given, array values of one kind are with probability 1/2 the SAME
    ndarray object as the last one generated (shared between fields and between cells)"""
    out = []
    for ps, pe, evals in rows:
        prev = ps - datetime.timedelta(days=1)
        for ev in evals:
            vals = {}
            for f in fields:
                if none_p and rng.random() < none_p:
                    vals[f] = None
                elif shared is not None and vkinds[f] in ("iarr", "farr") and vkinds[f] in shared and rng.random() < 0.5:
                    vals[f] = shared[vkinds[f]]
                else:
                    vals[f] = gen.rand_value(rng, vkinds[f], n_samples)
                    if shared is not None and vkinds[f] in ("iarr", "farr"):
                        shared[vkinds[f]] = vals[f]
            if kind == "I":
                out.append(IncrementalCell(ps, pe, prev, ev, vals, meta))
                prev = ev
            elif kind == "U":
                out.append(CumulativeCell(ps, pe, ev, vals, meta))
            else:
                out.append(Cell(ps, pe, ev, vals, meta))
    return out


def slice_metas(rng, n, currencies=None, vary_other=0.5, risk_basis=None):
    typed = {}
    base = gen.base_meta_kwargs(rng, typed)
    if risk_basis:
        base["risk_basis"] = risk_basis
    metas = []
    for i in range(n * 4):
        kw = dict(base)
        if currencies is not None:
            kw["currency"] = rng.choice(currencies)
        if i and rng.random() < vary_other:
            kw2 = gen.vary(rng, kw, rng.choice(["country", "details", "loss_definition", "per_occurrence_limit"]), typed)
            kw = kw2 or kw
            if currencies is not None:
                pass
        m = Metadata(**kw)
        if all(m != o for o in metas):
            metas.append(m)
        if len(metas) == n:
            break
    return metas



# ---- sequence stream: state carried between calls ------------------------------------------------

SEQ_P = 0.4          # share of cases run as a sequence (primed, accessors read, called twice)
SHARE_P = 0.3        # share of cases whose array values share ndarray objects
_DEFAULT_RATES0 = dict(DEFAULT_EXCHANGE_RATES)
_CURRENCY_FIELDS0 = list(_currency_mod.CURRENCY_FIELDS)
_INTERP_FIELDS0 = list(_disagg_mod.DEFAULT_INTERPOLATION_FIELDS)


def tri_accessors(t):
    """derived / cached accessors of a triangle as plain data"""
    fns = {
        "len": lambda: len(t),
        "metadata": lambda: [common.w_meta(m) for m in t.metadata],
        "periods": lambda: [[w_date(a), w_date(b)] for a, b in t.periods],
        "evaluation_dates": lambda: [w_date(x) for x in t.evaluation_dates],
        "fields": lambda: list(t.fields),
        "num_samples": lambda: int(t.num_samples),
        "field_cell_counts": lambda: sorted(t.field_cell_counts.items()),
        "field_slice_counts": lambda: sorted(t.field_slice_counts.items()),
        "slices": lambda: [[common.w_meta(m), len(sl)] for m, sl in t.slices.items()],
        "is_incremental": lambda: bool(t.is_incremental),
        "period_resolution": lambda: t.period_resolution,
    }
    return {k: list(call(f)) for k, f in fns.items()}


def input_ids(tri):
    ids = {id(tri), id(tri.cells)}
    for c in tri.cells:
        ids.add(id(c))
        ids.add(id(c.values))
        for v in c.values.values():
            if isinstance(v, np.ndarray):
                ids.add(id(v))
    return ids


def mutate_result(res, protect):
    """in-place damage to what the call returned, sparing every object that belongs to the input
    (the library passes input cells / arrays through; that aliasing is C03's subject, not C18's)"""
    if isinstance(res, Triangle):
        if id(res) in protect or id(res.cells) in protect:
            return
        for c in res.cells:
            if id(c) in protect:
                continue
            vals = c.values
            for v in list(vals.values()):
                if isinstance(v, np.ndarray) and id(v) not in protect:
                    try:
                        v[...] = 0
                    except Exception:  # noqa: BLE001
                        pass
            if id(vals) not in protect:
                try:
                    vals["zz_mutated"] = 7
                except Exception:  # noqa: BLE001
                    pass
        try:
            res.cells.reverse()
        except Exception:  # noqa: BLE001
            pass
    elif isinstance(res, tuple):
        for a in res:
            if isinstance(a, np.ndarray):
                try:
                    a *= 0
                except Exception:  # noqa: BLE001
                    pass


def seq_call(ctx, stream, case, tri, thunk, dump, seq, prime=None):
    """the call under test. Plain case: one call. Sequence case: an optional priming call of the same
    function on OTHER input, accessors of the input read first, the call, input and accessors compared,
    the result damaged in place, the call again on the SAME objects: both dumps must be identical.
    Returns (result usable by the caller, dump of the first call)."""
    if not seq:
        r = call(thunk)
        return r, dump(r)
    ctx.count(f"{stream}/sequence")
    if prime is not None:
        call(prime)
    acc0 = tri_accessors(tri) if tri is not None else None
    in0 = w_cells(tri.cells) if tri is not None else None
    r1 = call(thunk)
    d1 = dump(r1)
    if tri is not None:
        if w_cells(tri.cells) != in0:
            ctx.fail(f"{stream}: the call changed its input triangle", case, {"input_after": w_cells(tri.cells)})
        if tri_accessors(tri) != acc0 or acc0 != tri_accessors(Triangle(list(tri.cells))):
            ctx.fail(f"{stream}: derived accessors of the input changed / disagree with its cells", case,
                     {"before": acc0, "after": tri_accessors(tri)})
    if r1[0] == "ok" and isinstance(r1[1], Triangle):
        a_out = tri_accessors(r1[1])
        a_new = tri_accessors(Triangle(list(r1[1].cells)))
        if a_out != a_new:
            ctx.fail(f"{stream}: derived accessors of the result disagree with values recomputed from its cells",
                     case, {"result": a_out, "recomputed": a_new, "impl": d1})
    if r1[0] == "ok":
        mutate_result(r1[1], input_ids(tri) if tri is not None else set())
    r2 = call(thunk)
    d2 = dump(r2)
    if d2 != d1:
        ctx.fail(f"{stream}: a second call on the same input (after the first result was modified in place) "
                 "gives a different result", case, {"first": d1, "second": d2})
    if tri is not None and w_cells(tri.cells) != in0:
        ctx.fail(f"{stream}: modifying the returned objects changed the input triangle "
                 "(freshly created results only were touched)", case, {"input_after": w_cells(tri.cells)})
    return r2, d1


def check_module_constants(ctx):
    if dict(DEFAULT_EXCHANGE_RATES) != _DEFAULT_RATES0 or list(_currency_mod.CURRENCY_FIELDS) != _CURRENCY_FIELDS0 \
            or list(_disagg_mod.DEFAULT_INTERPOLATION_FIELDS) != _INTERP_FIELDS0:
        ctx.fail("a module-level table was modified by the calls",
                 {"DEFAULT_EXCHANGE_RATES": dict(DEFAULT_EXCHANGE_RATES), "CURRENCY_FIELDS": list(_currency_mod.CURRENCY_FIELDS),
                  "DEFAULT_INTERPOLATION_FIELDS": list(_disagg_mod.DEFAULT_INTERPOLATION_FIELDS)},
                 {"expected": [_DEFAULT_RATES0, _CURRENCY_FIELDS0, _INTERP_FIELDS0]})


# ---- stream 1: currency --------------------------------------------------------------------------

RATES_F = [1.25, 0.75, 1.5, 2.0, 0.875, 1.0, 0.5, 1.375, 3.0]


def gen_currency(rng):
    mode = rng.choices(["ok", "nocur", "norate"], [0.72, 0.14, 0.14])[0]
    pool = ["USD", "EUR", "GBP", "CAD", ""]
    target = rng.choice(["USD", "USD", "EUR", "GBP", ""])
    n_slices = rng.choice([1, 2, 2, 3, 3, 4])
    curs = list(pool) + [target] * 2
    if mode == "nocur":
        curs = curs + [None] * 4
    metas = slice_metas(rng, n_slices, currencies=curs, vary_other=0.6)
    kind = rng.choice(["C", "U", "I"])
    fields = rand_fields(rng, 1, 5)
    if not any(f in CUR_FIELDS for f in fields) and rng.random() < 0.8:
        fields.append(rng.choice(CUR_FIELDS))
    if all(f in CUR_FIELDS for f in fields) and rng.random() < 0.8:
        fields.append(rng.choice(OTHER_FIELDS))
    rng.shuffle(fields)
    vk = {f: rng.choice(["int", "float", "iarr", "farr"]) for f in fields}
    res = rng.choice([1, 3, 12])
    rows = grid_rows(rng, res, rng.randrange(1, 4), month_start(rng.randrange(1996, 2028), rng.randrange(1, 13)),
                     max_lag=3, shape=rng.choice(["triangle", "ragged"]))
    none_p = 0.03 if rng.random() < 0.1 else 0.0
    shared = {} if rng.random() < SHARE_P else None
    cells = []
    for m in metas:
        cells += make_cells(rng, rows, m, kind, fields, vk, 3, none_p=none_p, shared=shared)
    present = sorted({m.currency for m in metas if m.currency is not None and m.currency != target})
    rates = {}
    for c in present:
        rates[c] = rng.choice(RATES_F) if rng.random() < 0.85 else rng.choice([1, 2, 3])
    if mode == "norate" and present:
        del rates[rng.choice(present)]
    if target and rng.random() < 0.3:                     # a rate for the target itself must not be applied
        rates[target] = rng.choice([r for r in RATES_F if r != 1.0])
    for c in rng.sample(pool, rng.randrange(0, 2)):       # unused extra entries, incl. the target itself
        rates.setdefault(c, rng.choice(RATES_F))
    return cells, target, rates, mode


def run_currency(ctx, n, reqs, post):
    rng = ctx.rng
    for i in range(n):
        cells, target, rates, mode = gen_currency(rng)
        variant = "convert_currency"
        if target == "USD" and rng.random() < 0.3:
            variant = "convert_to_dollars(rates)"
        if rng.random() < 0.06:
            # default rate table (EUR 1.10, GBP 1.31: not dyadic, so tolerance and no exact Spec verdict)
            variant, target, rates = "convert_to_dollars()", "USD", dict(_DEFAULT_RATES0)
            cells = [c.replace(metadata=dataclass_replace(c.metadata, currency=rng.choice(["USD", "EUR", "GBP", "GBP"])))
                     if c.metadata.currency not in (None, "USD", "EUR", "GBP") else c for c in cells]
        tri = Triangle(cells)
        inp = w_cells(tri.cells)
        req = {"op": "currency", "cells": inp, "target": target,
               "rates": [[k, w_num(v)] for k, v in rates.items()]}
        case = dict(req, variant=variant)
        if variant == "convert_currency":
            thunk = lambda: convert_currency(tri, target, rates)                      # noqa: E731
        elif variant == "convert_to_dollars(rates)":
            thunk = lambda: convert_to_dollars(tri, rates)                             # noqa: E731
        else:
            thunk = lambda: convert_to_dollars(tri)                                    # noqa: E731
        seq = rng.random() < SEQ_P
        prime = None
        if seq:
            c2, t2, r2, _ = gen_currency(rng)
            if rng.random() < 0.5:      # SAME triangle object, other rate table / target
                r3 = {k: (v * 2 if isinstance(v, int) else v * 0.5) for k, v in rates.items()}
                prime = lambda: (convert_currency(tri, target, r3), convert_currency(tri, t2, r2))  # noqa: E731
            else:
                prime = lambda: (convert_currency(Triangle(c2), t2, r2), convert_to_dollars(Triangle(c2), r2))  # noqa: E731
        _, d = seq_call(ctx, "currency", case, tri, thunk, impl_dump, seq, prime)
        exact = variant != "convert_to_dollars()"
        req["impl"] = d.get("ok") if exact else None
        reqs.append(req)
        post.append(("currency", req, d, Fraction(0) if exact else TOL))
        ctx.count(f"currency/{mode}")
        ctx.count(f"currency/variant={variant}")
        ctx.count(f"currency/slices={len(tri.slices)}")
        ctx.count("currency/result=" + ("ok" if "ok" in d else "err:" + d["err"]))
        ctx.case(digest=json.dumps([inp, target, req["rates"], variant], sort_keys=True),
                 nontrivial="ok" in d and any(c["m"]["cu"] != target for c in inp),
                 sample={"op": "currency", "target": target, "rates": {k: float(v) for k, v in rates.items()},
                         "n_cells": len(inp), "currencies": sorted({str(c["m"]["cu"]) for c in inp})} if i < 1 else None)
    check_module_constants(ctx)


def check_currency(ctx, req, d, out, tol=Fraction(0)):
    case = {k: req[k] for k in ("op", "cells", "target", "rates")}
    model, spec = out["model"], out["spec"]
    if out["mustRefuse"] and "ok" in d:
        ctx.fail("currency: a slice without currency / without a rate was converted instead of refused", case, {"impl": d})
    if not out["mustRefuse"] and "ok" in d and spec is not None and not spec["currency"]:
        ctx.fail("currency: output is not (currency fields x slice rate, everything else unchanged, currency=target)",
                 case, {"impl": d})
    if not out["mustRefuse"] and "err" in d and "ok" in model:
        ctx.fail("currency: a convertible triangle was refused", case, {"impl": d})
    if not same_result(model, d, tol):
        ctx.disagree("convert_currency", case, model, d)


# ---- stream 2: disaggregation ----------------------------------------------------------------------

def dyadic_weights(rng, n):
    bits = rng.choice([2, 3, 4])
    total = 1 << bits
    cuts = sorted(rng.randrange(0, total + 1) for _ in range(n - 1))
    parts = [b - a for a, b in zip([0] + cuts, cuts + [total])]
    return [p / total for p in parts]


def gen_disagg(rng):
    L = rng.choice([3, 6, 12])
    divisors = [r for r in range(1, L) if L % r == 0]
    mode = rng.choices(["ok", "partial", "same", "badres", "badweights", "nofield", "offgrid"],
                       [0.46, 0.24, 0.05, 0.06, 0.09, 0.05, 0.05])[0]
    res = rng.choice(divisors)
    if mode == "same":
        res = L
    elif mode == "badres":
        res = rng.choice([r for r in range(2, 2 * L + 1) if L % r != 0])
    n = L // res if res and L % res == 0 else 1
    start = month_start(rng.randrange(1996, 2028), rng.randrange(1, 13))
    rows = grid_rows(rng, L, rng.randrange(1, 5), start, max_lag=3,
                     partial=0.7 if mode == "partial" else 0.0,
                     shape=rng.choice(["triangle", "ragged"]), drop=0.2)
    if not rows:
        rows = grid_rows(rng, L, 1, start, max_lag=2)
    if mode == "offgrid":
        # an extra period of the same length after a gap that is not a multiple of L (the triangle's
        # period resolution is then smaller than the period length)
        last_pe = rows[-1][1]
        gap = rng.choice([g for g in range(1, L) if True])
        ps = gen.add_months_int(last_pe + datetime.timedelta(days=1), gap)
        pe = gen.add_months_int(ps, L - 1, end=True)
        rows.append((ps, pe, [gen.add_months_int(pe, L, end=True)]))
    n_slices = rng.choice([1, 1, 2, 3])
    metas = slice_metas(rng, n_slices, vary_other=1.0)
    kind = rng.choice(["C", "U", "U"])
    pool = ["paid_loss", "reported_loss", "incurred_loss", "earned_premium", "open_claims", "written_premium"]
    fields = rand_fields(rng, 1, 4, pool)
    vk = {f: rng.choice(["int", "float", "iarr", "farr"]) for f in fields}
    shared = {} if rng.random() < SHARE_P else None
    cells = []
    for m in metas:
        r = rows if rng.random() < 0.6 else [x for x in rows if rng.random() < 0.7] or rows[:1]
        cells += make_cells(rng, r, m, kind, fields, vk, 3, shared=shared)
    # selection
    sel = None
    if rng.random() < 0.5:
        sel = [f for f in pool if rng.random() < 0.5]
        if mode != "nofield" and not any(f in sel for f in fields):
            sel.append(rng.choice(fields))
    if mode == "nofield":
        sel = [f for f in pool + ["x"] if f not in fields][:rng.randrange(0, 3)]
    # weights
    weights = None
    if rng.random() < 0.7:
        weights = dyadic_weights(rng, max(n, 1))
        if rng.random() < 0.15:
            weights = [int(w) if w in (0.0, 1.0) else w for w in weights]
    if mode == "badweights":
        k = rng.randrange(4)
        w = dyadic_weights(rng, max(n, 2))
        if k == 0:
            weights = w + [0.0]
        elif k == 1:
            weights = w[:-1] if len(w) > 1 else [0.5]
        elif k == 2:
            weights = [w[0] + 0.25] + w[1:]
        else:
            weights = [w[0] + 1.5, w[1] - 1.5] + w[2:] if len(w) > 1 else [1.5]
    return cells, L, res, weights, sel, mode, start


def run_disagg(ctx, n, reqs, post):
    rng = ctx.rng
    for i in range(n):
        cells, L, res, weights, sel, mode, start = gen_disagg(rng)
        tri = Triangle(cells)
        inp = w_cells(tri.cells)
        w_arg = None if weights is None else list(weights)
        f_arg = None if sel is None else list(sel)
        if weights is None and sel is None:
            thunk = lambda: disaggregate_experience(tri, res)                          # defaults  # noqa: E731
        elif sel is None:
            thunk = lambda: disaggregate_experience(tri, res, w_arg)                   # noqa: E731
        else:
            thunk = lambda: disaggregate_experience(tri, res, w_arg, f_arg)            # noqa: E731
        seq = rng.random() < SEQ_P
        prime = None
        if seq:
            c2, _, res2, w2, sel2, _, _ = gen_disagg(rng)
            if rng.random() < 0.5:      # SAME triangle object, other weights / fields / resolution
                n3 = L // res if res and L % res == 0 else 1
                w3 = dyadic_weights(rng, max(n3, 1))
                prime = lambda: (disaggregate_experience(tri, res, w3, ["paid_loss", "open_claims"]),   # noqa: E731
                                 disaggregate_experience(tri, 1))
            else:
                prime = lambda: disaggregate_experience(Triangle(c2), res2, None if w2 is None else list(w2), sel2)  # noqa: E731
        case = {"op": "disagg", "cells": inp, "res": res, "weights": None if weights is None else [w_num(w) for w in weights],
                "fields": sel}
        r, d = seq_call(ctx, "disagg", case, tri, thunk, impl_dump, seq, prime)
        if w_arg is not None and w_arg != list(weights) or f_arg is not None and f_arg != list(sel):
            ctx.fail("disaggregate_experience modified its weights / fields argument", case,
                     {"weights_after": w_arg, "fields_after": f_arg})
        applicable = "ok" in d and res < L and L % res == 0 and mode != "offgrid"
        all_obs = all(gen.add_months_int(c.period_start, L - 1, end=True) <= c.evaluation_date for c in tri.cells)
        nsub = L // res if res and L % res == 0 else 1
        exact = all_obs and (weights is not None or nsub in (1, 2, 4))
        tol = Fraction(0) if exact else TOL
        req = {"op": "disagg", "cells": inp, "res": res,
               "weights": None if weights is None else [w_num(w) for w in weights],
               "fields": sel, "tol": "0" if exact else TOL_W}
        agg = None
        if applicable:
            req["impl"] = d["ok"]
            first = min(c.period_start for c in tri.cells)
            ra = call(aggregate, r[1], period_resolution=(L, "month"),
                      period_origin=first - datetime.timedelta(days=1))
            agg = impl_dump(ra)
            if "ok" in agg:
                req["agg"] = agg["ok"]
        reqs.append(req)
        post.append(("disagg", req, (d, agg, applicable), tol))
        ctx.count(f"disagg/{mode}")
        ctx.count(f"disagg/L={L},res={res}")
        ctx.count("disagg/weights=" + ("default" if weights is None else "dyadic"))
        if any(c.evaluation_date < c.period_end and
               (c.evaluation_date + datetime.timedelta(days=1)).day != 1 for c in tri.cells):
            ctx.count("disagg/partially-observed-cell-with-mid-month-evaluation-date")
        ctx.count("disagg/" + ("exact" if exact else "tol"))
        ctx.count("disagg/result=" + ("ok" if "ok" in d else "err:" + d["err"]))
        ctx.case(digest=json.dumps([inp, res, req["weights"], sel], sort_keys=True),
                 nontrivial=applicable and len(d["ok"]) > len(inp),
                 sample={"op": "disagg", "period_months": L, "res": res, "weights": weights, "fields": sel,
                         "n_cells": len(inp), "n_out": len(d.get("ok", []))} if i < 1 else None)


def check_disagg(ctx, req, extra, out, tol):
    d, agg, applicable = extra
    case = {k: req[k] for k in ("op", "cells", "res", "weights", "fields")}
    model, spec = out["model"], out["spec"]
    if applicable:
        # hypotheses of disagg_spec_bridge (Spec.C18.disaggWF) evaluated by the driver on the input
        ctx.count("disagg/wf(hypotheses of the bridge theorem)=" + str(out["wf"]))
        if not spec["sum"]:
            ctx.fail("disaggregate_experience: sub-period values do not add up to the original cell "
                     "(or sub-periods do not tile the observable part of the period)", case, {"impl": d, "tol": str(tol)})
        if agg is not None and "err" in agg:
            ctx.fail("aggregate(disaggregate_experience(t)) raised", case, {"impl": d, "aggregate": agg})
        elif "aggBack" in spec and not spec["aggBack"]:
            ctx.fail("aggregating the disaggregated triangle back does not reproduce the input", case,
                     {"impl": d, "aggregate": agg, "tol": str(tol)})
    if not same_result(model, d, tol):
        ctx.disagree("disaggregate_experience", case, model, d)


# ---- stream 3: accident quarter -> policy year -------------------------------------------------------

def gen_policy(rng):
    mode = rng.choices(["ok", "ragged", "badorigin"], [0.86, 0.08, 0.06])[0]
    m0 = rng.choice([1, 4, 7, 10] * 3 + [2, 3, 6, 11])
    start = month_start(rng.randrange(1996, 2028), m0)
    # long triangles (2.5-4 years of quarters): accident quarters that start more than a policy YEAR after the
    # end of a policy year are still exposed to it when policies run longer than 12 months
    long_tri = rng.random() < 0.3
    n_periods = rng.randrange(10, 17) if long_tri else rng.randrange(1, 9)
    extra = rng.randrange(0, 2 if long_tri else 4)
    n_slices = rng.choice([1, 1, 2])
    metas = slice_metas(rng, n_slices, vary_other=1.0, risk_basis=rng.choice(["Accident", "Accident", "Report"]))
    kind = rng.choice(["C", "U", "U", "I"])
    fields = rand_fields(rng, 1, 3, ["earned_premium", "paid_loss", "reported_loss", "open_claims"])
    vk = {f: rng.choice(["int", "float", "farr"]) for f in fields}
    shared = {} if rng.random() < SHARE_P else None
    cells = []
    for m in metas:
        rows = []
        for i in range(n_periods):
            ps = gen.add_months_int(start, 3 * i)
            pe = gen.add_months_int(ps, 2, end=True)
            lags = list(range(0, n_periods - i + extra))
            keep = [k for k in lags[:-1] if rng.random() < (0.25 if long_tri else 0.8)] + [lags[-1]]
            if mode == "ragged" and i == n_periods - 1 and n_periods > 1:
                keep = keep[:-1] or [lags[-1] + 1]
            rows.append((ps, pe, [gen.add_months_int(pe, 3 * k, end=True) for k in keep]))
        if mode == "ragged" and n_periods == 1:
            mode = "ok"
        cells += make_cells(rng, rows, m, kind, fields, vk, 3, shared=shared)
    om = rng.randrange(1, 13)
    od = rng.choice([1, 1, 1, 1, 15, 28, 10])
    origin = D(2020, om, od)
    if mode == "badorigin":
        origin = rng.choice([D(2020, 2, 29), D(2020, 2, 29), D(2020, 1, 31), D(2020, 5, 31)])
    plen = rng.choice([18, 24, 36, 30, 12] if long_tri else [1, 3, 6, 12, 12, 12, 18, 24, 36])
    cont = rng.random() < 0.7
    if mode == "ok" and not long_tri and rng.random() < 0.15:      # the function's own defaults (passed implicitly)
        plen, origin, cont = 12, D(2020, 1, 1), True
    return cells, plen, origin, cont, mode


def run_policy(ctx, n, reqs, post):
    rng = ctx.rng
    for i in range(n):
        cells, plen, origin, cont, mode = gen_policy(rng)
        tri = Triangle(cells)
        inp = w_cells(tri.cells)
        if (plen, origin, cont) == (12, D(2020, 1, 1), True):
            thunk = lambda: accident_quarter_to_policy_year(tri)                      # defaults  # noqa: E731
            ctx.count("policyYear/default-arguments")
        else:
            thunk = lambda: accident_quarter_to_policy_year(tri, policy_length_months=plen,   # noqa: E731
                                                            policy_year_origin=origin, continuous_issuance=cont)
        seq = rng.random() < SEQ_P
        prime = None
        if seq:
            c2, p2, o2, k2, _ = gen_policy(rng)
            if rng.random() < 0.5:      # SAME triangle object, the other issuance mode / another policy length
                prime = lambda: (accident_quarter_to_policy_year(tri, policy_length_months=plen,   # noqa: E731
                                                                 policy_year_origin=origin, continuous_issuance=not cont),
                                 accident_quarter_to_policy_year(tri, policy_length_months=p2,
                                                                 policy_year_origin=origin, continuous_issuance=cont))
            else:
                prime = lambda: accident_quarter_to_policy_year(Triangle(c2), policy_length_months=p2,   # noqa: E731
                                                                policy_year_origin=o2, continuous_issuance=k2)
        case = {"op": "policyYear", "cells": inp, "policyLen": plen, "origin": w_date(origin), "continuous": cont}
        _, d = seq_call(ctx, "policyYear", case, tri, thunk, impl_dump, seq, prime)
        req = {"op": "policyYear", "cells": inp, "policyLen": plen, "origin": w_date(origin),
               "continuous": cont, "tol": TOL_W, "impl": d.get("ok")}
        reqs.append(req)
        post.append(("policyYear", req, d, TOL))
        ctx.count(f"policyYear/{mode}")
        ctx.count(f"policyYear/len={plen}")
        if len(tri.periods) >= 10 and plen > 12:
            ctx.count("policyYear/long-triangle(>=10 quarters),policy-length>12")
        ctx.count(f"policyYear/origin_month={origin.month},day={origin.day}")
        ctx.count("policyYear/result=" + ("ok" if "ok" in d else "err:" + d["err"]))
        ctx.case(digest=json.dumps([inp, plen, w_date(origin), cont], sort_keys=True),
                 nontrivial="ok" in d and len(d["ok"]) > 0,
                 sample={"op": "policyYear", "policy_length": plen, "origin": str(origin), "continuous": cont,
                         "n_cells": len(inp), "n_out": len(d.get("ok", []))} if i < 1 else None)


def check_policy(ctx, req, d, out, tol):
    case = {k: req[k] for k in ("op", "cells", "policyLen", "origin", "continuous")}
    model, spec = out["model"], out["spec"]
    if not out["covered"]:
        # outside the share table's contract (row sums positive): issuance not continuous and some accident
        # period is reached by no policy; the code drops its amounts (notes/agents/c18.md, candidate finding)
        ctx.count("policyYear/uncovered-accident-period(no conservation claim)")
    elif "ok" in d and not spec["conserves"]:
        ctx.fail("accident_quarter_to_policy_year: a field total per evaluation date changed, or the result is "
                 "not Policy-basis", case, {"impl": d, "tol": str(tol)})
    if "err" in d and "ok" in model:
        ctx.fail("accident_quarter_to_policy_year refused a flat-right-edge quarterly triangle", case, {"impl": d})
    if not same_result(model, d, tol):
        ctx.disagree("accident_quarter_to_policy_year", case, model, d)


# ---- stream 4: premium pattern -------------------------------------------------------------------------

def pattern(rng, n, total_pow2=None):
    if total_pow2 is None:
        p = [rng.choice([0, 0.5, 1, 1, 2, 3, 4.5, 7]) for _ in range(n)]
        if sum(p) == 0:
            p[rng.randrange(n)] = 1
        return p
    total = 1 << total_pow2
    cuts = sorted(rng.randrange(0, total + 1) for _ in range(n - 1))
    return [float(b - a) / 4 for a, b in zip([0] + cuts, cuts + [total])]


def gen_premium(rng):
    exact = rng.random() < 0.3
    if exact:
        vol = float(rng.randrange(0, 1 << 12)) / 4
        wp = pattern(rng, rng.randrange(1, 6), rng.choice([2, 3, 4]))
        ep = pattern(rng, rng.randrange(1, 6), rng.choice([2, 3, 4]))
        wres, eres = rng.choice([1, 2, 4]), rng.choice([1, 2, 4])
    else:
        vol = rng.choice([float(rng.randrange(1, 1 << 20)) / 8, 600.0, 1.0, 1e6])
        wp = pattern(rng, rng.randrange(1, 7))
        ep = pattern(rng, rng.randrange(1, 7))
        wres, eres = rng.choice([1, 2, 3, 6, 12]), rng.choice([1, 3, 6, 12])
    ores = rng.choice([1, 1, 3, 3, 6, 12, 5])
    offset = rng.choice([0, 0, 0, 1, 2, 5, 13, -1])
    cont = rng.random() < 0.6
    return vol, wp, wres, ep, eres, ores, offset, cont, exact


def run_premium(ctx, n, reqs, post):
    rng = ctx.rng
    for i in range(n):
        vol, wp, wres, ep, eres, ores, offset, cont, exact = gen_premium(rng)
        wp_a, ep_a = np.array(wp, dtype=float), np.array(ep, dtype=float)
        if offset == 0 and cont:
            thunk = lambda: program_earned_premium(vol, wp_a, wres, ep_a, eres, ores)                 # defaults  # noqa: E731
        elif cont:
            thunk = lambda: program_earned_premium(vol, wp_a, wres, ep_a, eres, ores, output_offset=offset)  # noqa: E731
        else:
            thunk = lambda: program_earned_premium(vol, wp_a, wres, ep_a, eres, ores, offset, cont)   # noqa: E731

        def pdump(res):
            st, v = res
            if st == "ok":
                return {"ok": [[w_rat(float(x)) for x in v[0]], [w_rat(float(x)) for x in v[1]]]}
            return {"err": v}

        seq = rng.random() < SEQ_P
        prime = None
        if seq:
            g2 = gen_premium(rng)
            if rng.random() < 0.5:      # same patterns, other offset / writing mode / output resolution
                prime = lambda: (program_earned_premium(vol, wp_a.copy(), wres, ep_a.copy(), eres, ores, offset + 1, not cont),  # noqa: E731
                                 program_earned_premium(vol, wp_a.copy(), wres, ep_a.copy(), eres, ores + 1, offset, cont))
            else:
                prime = lambda: program_earned_premium(g2[0], np.array(g2[1], dtype=float), g2[2],       # noqa: E731
                                                       np.array(g2[3], dtype=float), g2[4], g2[5], g2[6], g2[7])
        case = {"op": "premium", "vol": w_rat(vol), "wp": [w_rat(x) for x in wp], "wres": wres,
                "ep": [w_rat(x) for x in ep], "eres": eres, "ores": ores, "offset": offset, "continuous": cont}
        _, d = seq_call(ctx, "premium", case, None, thunk, pdump, seq, prime)
        if wp_a.tolist() != [float(x) for x in wp] or ep_a.tolist() != [float(x) for x in ep]:
            ctx.fail("program_earned_premium modified its pattern arguments", case,
                     {"writing_after": wp_a.tolist(), "earning_after": ep_a.tolist()})
        req = {"op": "premium", "vol": w_rat(vol), "wp": [w_rat(x) for x in wp], "wres": wres,
               "ep": [w_rat(x) for x in ep], "eres": eres, "ores": ores, "offset": offset, "continuous": cont,
               "tol": "0" if exact else TOL_W, "impl": d.get("ok")}
        reqs.append(req)
        post.append(("premium", req, d, Fraction(0) if exact else TOL))
        ctx.count("premium/" + ("exact" if exact else "tol"))
        ctx.count(f"premium/ores={ores},offset={offset}")
        ctx.count(f"premium/continuous={cont}")
        ctx.count("premium/result=" + ("ok" if "ok" in d else "err:" + d["err"]))
        ctx.case(digest=json.dumps({k: v for k, v in req.items() if k != "impl"}, sort_keys=True),
                 nontrivial="ok" in d and len(d["ok"][0]) > 2,
                 sample={"op": "premium", "volume": vol, "writing": wp, "wres": wres, "earning": ep, "eres": eres,
                         "ores": ores, "offset": offset, "continuous": cont} if i < 1 else None)


def check_premium(ctx, req, d, out, tol):
    case = {k: v for k, v in req.items() if k != "impl"}
    model, spec = out["model"], out["spec"]
    if "ok" in d and not spec["premium"]:
        ctx.fail("program_earned_premium: a pattern does not sum to the volume / is negative / earns more than written",
                 case, {"impl": d, "tol": str(tol)})
    if "err" in d and "ok" in model:
        ctx.fail("program_earned_premium raised on valid patterns", case, {"impl": d})
    same = ("err" in model) == ("err" in d)
    if same and "ok" in d:
        eps = tol * abs(Fraction(req["vol"]))
        for a, b in zip(model["ok"], d["ok"]):
            same = same and len(a) == len(b) and all(abs(Fraction(x) - Fraction(y)) <= eps for x, y in zip(a, b))
    if not same:
        ctx.disagree("program_earned_premium", case, model, d)


# ---- correspondence ----------------------------------------------------------------------------------------

def correspondence(ctx):
    if ctx.thorough:
        n_cur, n_dis, n_pol, n_pre = 3000, 3200, 1400, 2400
    else:
        n_cur, n_dis, n_pol, n_pre = 85, 100, 55, 60
    reqs, post = [], []
    run_currency(ctx, n_cur, reqs, post)
    run_disagg(ctx, n_dis, reqs, post)
    run_policy(ctx, n_pol, reqs, post)
    run_premium(ctx, n_pre, reqs, post)
    outs = common.Driver("drv_c18").run(reqs)
    for (stream, req, d, tol), out in zip(post, outs):
        if stream == "currency":
            check_currency(ctx, req, d, out, tol)
        elif stream == "disagg":
            check_disagg(ctx, req, d, out, tol)
        elif stream == "policyYear":
            check_policy(ctx, req, d, out, tol)
        else:
            check_premium(ctx, req, d, out, tol)


if __name__ == "__main__":
    import translate_c18
    common.run_check(
        "C18", module="Bermuda.Properties.C18", driver_targets=["drv_c18"],
        correspondence=correspondence, level="proof",
        extra_translate=translate_c18.regenerate,
        rule="four streams: (currency) 1-4 slices over {USD,EUR,GBP,CAD,'',None} x three cell classes x scalar/array "
             "values x dyadic/int rate tables incl. missing currency / missing rate; (disagg) semi-regular triangles with "
             "period length 3/6/12, every divisor sub-resolution (plus equal, non-divisor, larger), default or dyadic "
             "weight vectors (plus invalid ones), field selections, evaluation dates inside the period, at month ends and on any other day of any month (unobservable "
             "sub-periods; mid-month dates close no sub-period of their own month), off-grid gaps; (policyYear) quarterly accident triangles with flat right edge (plus ragged) x "
             "12 origin months x origin days x policy lengths 1-36 x continuous or not, 30 % of them long (10-16 quarters) with policy lengths 18/24/30/36 (quarters exposed to a policy year more than 12 months after its end); (premium) writing/earning "
             "patterns x resolutions x offsets. SEQUENCE stream (40 % of the cases of every stream): a priming call of "
             "the same function first (on another generated input, or on the SAME triangle object with another rate "
             "table / weights / fields / issuance mode / offset), derived accessors of the input read before and compared "
             "after, the call, the result's accessors compared with values recomputed from its cells, the freshly "
             "created parts of the result damaged in place, then the call AGAIN on the same objects: both dumps must be "
             "identical and the input unchanged; 30 % of the cases share ndarray objects between fields and cells; "
             "default arguments are passed implicitly where the generated options equal the defaults "
             "(convert_to_dollars with and without rates, disaggregate_experience(tri, res), "
             "accident_quarter_to_policy_year(tri), program_earned_premium without offset/mode); module tables "
             "(DEFAULT_EXCHANGE_RATES, CURRENCY_FIELDS, DEFAULT_INTERPOLATION_FIELDS) and list/array arguments must be "
             "unchanged afterwards. distinct = distinct canonical input dump; non-trivial = the call "
             "succeeded and changed something (a foreign slice, more cells out than in, a non-empty result, more than "
             "one output bucket)",
        assumptions=["bridge theorems (Bool predicate true on the model's output): currency_spec_bridge needs cells that do "
                     "not collide after conversion (distinct class/coordinates/metadata-up-to-currency); disagg_spec_bridge "
                     "needs Spec.C18.disaggWF (per slice: resolution L a multiple of res, L-month periods starting on the "
                     "first of a month from 1970 on, no repeated cell, disjoint periods at equal evaluation dates) - "
                     "evaluated by the driver on every applicable case (histogram key disagg/wf...); aggregate_disagg "
                     "(aggBackSpec true on the model's aggregate(disaggregate(t))) needs disaggWF with one period resolution L "
                     "in all slices, a canonical triangle with canonical metadata, aggregate called with (L, 'month'), no "
                     "evaluation resolution and a month-end origin on whose L-grid all period starts lie (the harness passes "
                     "first period_start - 1 day), and every selected field present summarised as 'sum of itself' "
                     "(all of DEFAULT_INTERPOLATION_FIELDS: defaultFields_rules; summarize_premium=True)",
                     "theorem hypotheses: value dicts have distinct keys (Python dicts); policyYear_conserves needs the "
                     "share-table contract (Spec.C18.policyCovered, evaluated by the driver on every case; by "
                     "policyYear_covered_iff it holds iff every accident period is reached by a policy year of "
                     "policy_years_covered: some month between its first written month and its last written month + "
                     "policy_length_months starts inside the period; with continuous issuance it is PROVED for every origin and "
                     "policy length >= 1 on month-aligned accident periods from 1971 on (policyYear_covered_of_continuous, "
                     "policyYear_conserves_continuous: the policy years of policy_years_covered tile the months from the "
                     "first period start to the last period end); with point issuance it is the stated month condition) and "
                     "one shape per field within a slice (UniformShapes; the code does not check it, numpy would broadcast)",
                     "disaggregation carries only the SELECTED fields (default DEFAULT_INTERPOLATION_FIELDS) of the cells "
                     "whose first sub-period is over at their evaluation date; other fields and unobservable cells are "
                     "dropped (disagg_drops_unselected, disagg_drops_unobservable); aggregate_disagg reproduces exactly that "
                     "restriction of the input",
                     "currency_spec_bridge assumes no two cells land on one position after conversion; "
                     "currency_spec_bridge_sorted drops that for sorted triangles with canonical metadata and distinct "
                     "coordinates before the conversion (twin slices that differ only in the currency give a triangle with "
                     "duplicate cells, currency_twin_slices; the stable sort keeps colliding cells in input order)",
                     "NaN-free values; scalars and 1-d arrays (rank >= 2 arrays and empty arrays are outside the model)",
                     "list (or absent) period weights (dict weights make the code raise, DESIGN §6)",
                     "disaggregate_experience on incremental triangles is not modelled (to_cumulative/to_incremental wrapper: C04)",
                     "float rounding: comparisons are exact where the generated dyadic inputs make IEEE arithmetic exact, "
                     "relative tolerance 2^-40 (harness only) where the code divides: default weights 1/n, weight "
                     "renormalisation, policy-year share normalisation, pattern normalisation",
                     "program_earned_premium: positive resolutions, pattern sums non-zero (numpy yields nan/inf otherwise; "
                     "output_resolution=0 loops forever)"],
        trusted=["numpy elementwise arithmetic on exactly representable values", "harness/translate_c18.py "
                 "(DEFAULT_INTERPOLATION_FIELDS regenerated each run)"],
    )
