"""C18 — unit-changing utilities conserve amounts.

Four streams, each run through the real implementation and the Lean model (drv_c18); the Lean Spec
predicates (Spec/C18.lean) are evaluated on the IMPLEMENTATION's output:

  currency    multi-currency triangles x rate tables (dyadic rates: products exact, tol 0)
  disagg      semi-regular triangles (period length 3/6/12 months) x sub-resolutions x weight vectors
              (dyadic weights); exact (tol 0) when every sub-period is observable and the weights are
              dyadic, relative tolerance 2^-40 where the code divides (default weights 1/n, weight
              renormalisation over the observable sub-periods). The aggregate-back clause is evaluated
              on `aggregate(disaggregate_experience(t))` of the implementation.
  policyYear  quarterly accident triangles with a flat right edge x origins x policy lengths
              (share normalisation divides: tolerance 2^-40)
  premium     writing/earning patterns x resolutions x offsets (normalisation divides: tolerance
              2^-40; a power-of-two sub-stream is exact, tol 0)
"""
import datetime
import json
from fractions import Fraction

import numpy as np

import common
import gen
from common import call, canon_cell, w_cells, w_date, w_rat
from bermuda import Cell, CumulativeCell, IncrementalCell, Metadata, Triangle
from bermuda.utils.aggregate import aggregate
from bermuda.utils.basis import accident_quarter_to_policy_year
from bermuda.utils.currency import convert_currency
from bermuda.utils.disaggregate import disaggregate_experience
from bermuda.utils.premium_pattern import program_earned_premium

D = datetime.date
TOL = Fraction(1, 2 ** 40)
TOL_W = f"1/{2 ** 40}"

CUR_FIELDS = ["earned_premium", "used_earned_premium", "written_premium", "paid_loss", "reported_loss",
              "incurred_loss"]
OTHER_FIELDS = ["open_claims", "reported_claims", "earned_exposure", "closed_claims"]


# ---- comparison helpers ------------------------------------------------------------------------

def rclose(x, y, tol):
    return abs(x - y) <= tol * (abs(x) + abs(y))


def val_close(a, b, tol):
    if a is None or b is None:
        return a == b
    if a[0] != b[0]:
        return False
    if a[0] == "i":
        return a[1] == b[1]
    if a[0] == "f":
        return rclose(Fraction(a[1]), Fraction(b[1]), tol)
    return (a[1] == b[1] and a[2] == b[2] and len(a[3]) == len(b[3])
            and all(rclose(Fraction(x), Fraction(y), tol) for x, y in zip(a[3], b[3])))


def cells_close(xs, ys, tol):
    """wire cells equal (values dict order ignored); numbers up to relative `tol`"""
    if len(xs) != len(ys):
        return False
    for x, y in zip(xs, ys):
        x, y = canon_cell(x), canon_cell(y)
        if any(x[k] != y[k] for k in ("k", "ps", "pe", "ev", "prev", "m")):
            return False
        if [kv[0] for kv in x["v"]] != [kv[0] for kv in y["v"]]:
            return False
        if not all(val_close(a[1], b[1], tol) for a, b in zip(x["v"], y["v"])):
            return False
    return True


def same_result(model, d, tol):
    """model answer {"ok": cells}|{"err": cls} against the implementation dump"""
    if ("err" in model) != ("err" in d):
        return False
    if "err" in d:
        return model["err"] == d["err"]
    return cells_close(model["ok"], d["ok"], tol)


def impl_dump(res):
    st, v = res
    return {"ok": w_cells(v.cells)} if st == "ok" else {"err": v}


def w_num(x):
    return ["i", int(x)] if isinstance(x, int) and not isinstance(x, bool) else ["f", w_rat(float(x))]


# ---- generators --------------------------------------------------------------------------------

def month_start(y, m):
    return D(y, m, 1)


def grid_rows(rng, res, n_periods, start, max_lag=4, partial=0.0, shape="triangle", flat=False, drop=0.0):
    """periods of `res` months from `start` (first of a month); evaluation dates at month ends,
    lags multiples of `res` after the period end; with probability `partial` also evaluation dates
    INSIDE the period (negative lags)"""
    rows = []
    for i in range(n_periods):
        if drop and n_periods > 1 and rng.random() < drop:
            continue
        ps = gen.add_months_int(start, i * res)
        pe = gen.add_months_int(ps, res - 1, end=True)
        if flat:
            lags = list(range(0, n_periods - i + max_lag))
        elif shape == "triangle":
            lags = list(range(0, max(1, min(max_lag, n_periods - i))))
        else:
            lags = sorted(rng.sample(range(max_lag), rng.randrange(1, max_lag + 1)))
        evals = [gen.add_months_int(pe, k * res, end=True) for k in lags]
        if partial and rng.random() < partial:
            inside = [gen.add_months_int(ps, j, end=True) for j in range(0, res - 1)]
            evals = sorted(set(evals + rng.sample(inside, rng.randrange(1, min(3, len(inside)) + 1))))
        rows.append((ps, pe, evals))
    return rows


def rand_fields(rng, lo=1, hi=4, pool=None):
    pool = pool or (CUR_FIELDS + OTHER_FIELDS)
    return rng.sample(pool, rng.randrange(lo, min(hi, len(pool)) + 1))


def make_cells(rng, rows, meta, kind, fields, vkinds, n_samples, none_p=0.0):
    out = []
    for ps, pe, evals in rows:
        prev = ps - datetime.timedelta(days=1)
        for ev in evals:
            vals = {}
            for f in fields:
                vals[f] = None if none_p and rng.random() < none_p else gen.rand_value(rng, vkinds[f], n_samples)
            if kind == "I":
                out.append(IncrementalCell(ps, pe, prev, ev, vals, meta))
                prev = ev
            elif kind == "U":
                out.append(CumulativeCell(ps, pe, ev, vals, meta))
            else:
                out.append(Cell(ps, pe, ev, vals, meta))
    return out


def slice_metas(rng, n, currencies=None, vary_other=0.5, risk_basis=None):
    typed = {}
    base = gen.base_meta_kwargs(rng, typed)
    if risk_basis:
        base["risk_basis"] = risk_basis
    metas = []
    for i in range(n * 4):
        kw = dict(base)
        if currencies is not None:
            kw["currency"] = rng.choice(currencies)
        if i and rng.random() < vary_other:
            kw2 = gen.vary(rng, kw, rng.choice(["country", "details", "loss_definition", "per_occurrence_limit"]), typed)
            kw = kw2 or kw
            if currencies is not None:
                pass
        m = Metadata(**kw)
        if all(m != o for o in metas):
            metas.append(m)
        if len(metas) == n:
            break
    return metas


# ---- stream 1: currency --------------------------------------------------------------------------

RATES_F = [1.25, 0.75, 1.5, 2.0, 0.875, 1.0, 0.5, 1.375, 3.0]


def gen_currency(rng):
    mode = rng.choices(["ok", "nocur", "norate"], [0.72, 0.14, 0.14])[0]
    pool = ["USD", "EUR", "GBP", "CAD", ""]
    target = rng.choice(["USD", "USD", "EUR", "GBP", ""])
    n_slices = rng.choice([1, 2, 2, 3, 3, 4])
    curs = list(pool) + [target] * 2
    if mode == "nocur":
        curs = curs + [None] * 4
    metas = slice_metas(rng, n_slices, currencies=curs, vary_other=0.6)
    kind = rng.choice(["C", "U", "I"])
    fields = rand_fields(rng, 1, 5)
    if not any(f in CUR_FIELDS for f in fields) and rng.random() < 0.8:
        fields.append(rng.choice(CUR_FIELDS))
    if all(f in CUR_FIELDS for f in fields) and rng.random() < 0.8:
        fields.append(rng.choice(OTHER_FIELDS))
    rng.shuffle(fields)
    vk = {f: rng.choice(["int", "float", "iarr", "farr"]) for f in fields}
    res = rng.choice([1, 3, 12])
    rows = grid_rows(rng, res, rng.randrange(1, 4), month_start(rng.randrange(1996, 2028), rng.randrange(1, 13)),
                     max_lag=3, shape=rng.choice(["triangle", "ragged"]))
    none_p = 0.03 if rng.random() < 0.1 else 0.0
    cells = []
    for m in metas:
        cells += make_cells(rng, rows, m, kind, fields, vk, 3, none_p=none_p)
    present = sorted({m.currency for m in metas if m.currency is not None and m.currency != target})
    rates = {}
    for c in present:
        rates[c] = rng.choice(RATES_F) if rng.random() < 0.85 else rng.choice([1, 2, 3])
    if mode == "norate" and present:
        del rates[rng.choice(present)]
    if target and rng.random() < 0.3:                     # a rate for the target itself must not be applied
        rates[target] = rng.choice([r for r in RATES_F if r != 1.0])
    for c in rng.sample(pool, rng.randrange(0, 2)):       # unused extra entries, incl. the target itself
        rates.setdefault(c, rng.choice(RATES_F))
    return cells, target, rates, mode


def run_currency(ctx, n, reqs, post):
    rng = ctx.rng
    for i in range(n):
        cells, target, rates, mode = gen_currency(rng)
        tri = Triangle(cells)
        d = impl_dump(call(convert_currency, tri, target, rates))
        inp = w_cells(tri.cells)
        req = {"op": "currency", "cells": inp, "target": target,
               "rates": [[k, w_num(v)] for k, v in rates.items()], "impl": d.get("ok")}
        reqs.append(req)
        post.append(("currency", req, d, 0))
        ctx.count(f"currency/{mode}")
        ctx.count(f"currency/slices={len(tri.slices)}")
        ctx.count("currency/result=" + ("ok" if "ok" in d else "err:" + d["err"]))
        ctx.case(digest=json.dumps([inp, target, req["rates"]], sort_keys=True),
                 nontrivial="ok" in d and any(c["m"]["cu"] != target for c in inp),
                 sample={"op": "currency", "target": target, "rates": {k: float(v) for k, v in rates.items()},
                         "n_cells": len(inp), "currencies": sorted({str(c["m"]["cu"]) for c in inp})} if i < 1 else None)


def check_currency(ctx, req, d, out):
    case = {k: req[k] for k in ("op", "cells", "target", "rates")}
    model, spec = out["model"], out["spec"]
    if out["mustRefuse"] and "ok" in d:
        ctx.fail("currency: a slice without currency / without a rate was converted instead of refused", case, {"impl": d})
    if not out["mustRefuse"] and "ok" in d and not spec["currency"]:
        ctx.fail("currency: output is not (currency fields x slice rate, everything else unchanged, currency=target)",
                 case, {"impl": d})
    if not out["mustRefuse"] and "err" in d and "ok" in model:
        ctx.fail("currency: a convertible triangle was refused", case, {"impl": d})
    if not same_result(model, d, 0):
        ctx.disagree("convert_currency", case, model, d)


# ---- stream 2: disaggregation ----------------------------------------------------------------------

def dyadic_weights(rng, n):
    bits = rng.choice([2, 3, 4])
    total = 1 << bits
    cuts = sorted(rng.randrange(0, total + 1) for _ in range(n - 1))
    parts = [b - a for a, b in zip([0] + cuts, cuts + [total])]
    return [p / total for p in parts]


def gen_disagg(rng):
    L = rng.choice([3, 6, 12])
    divisors = [r for r in range(1, L) if L % r == 0]
    mode = rng.choices(["ok", "partial", "same", "badres", "badweights", "nofield", "offgrid"],
                       [0.46, 0.24, 0.05, 0.06, 0.09, 0.05, 0.05])[0]
    res = rng.choice(divisors)
    if mode == "same":
        res = L
    elif mode == "badres":
        res = rng.choice([r for r in range(2, 2 * L + 1) if L % r != 0])
    n = L // res if res and L % res == 0 else 1
    start = month_start(rng.randrange(1996, 2028), rng.randrange(1, 13))
    rows = grid_rows(rng, L, rng.randrange(1, 5), start, max_lag=3,
                     partial=0.7 if mode == "partial" else 0.0,
                     shape=rng.choice(["triangle", "ragged"]), drop=0.2)
    if not rows:
        rows = grid_rows(rng, L, 1, start, max_lag=2)
    if mode == "offgrid":
        # an extra period of the same length after a gap that is not a multiple of L (the triangle's
        # period resolution is then smaller than the period length)
        last_pe = rows[-1][1]
        gap = rng.choice([g for g in range(1, L) if True])
        ps = gen.add_months_int(last_pe + datetime.timedelta(days=1), gap)
        pe = gen.add_months_int(ps, L - 1, end=True)
        rows.append((ps, pe, [gen.add_months_int(pe, L, end=True)]))
    n_slices = rng.choice([1, 1, 2, 3])
    metas = slice_metas(rng, n_slices, vary_other=1.0)
    kind = rng.choice(["C", "U", "U"])
    pool = ["paid_loss", "reported_loss", "incurred_loss", "earned_premium", "open_claims", "written_premium"]
    fields = rand_fields(rng, 1, 4, pool)
    vk = {f: rng.choice(["int", "float", "iarr", "farr"]) for f in fields}
    cells = []
    for m in metas:
        r = rows if rng.random() < 0.6 else [x for x in rows if rng.random() < 0.7] or rows[:1]
        cells += make_cells(rng, r, m, kind, fields, vk, 3)
    # selection
    sel = None
    if rng.random() < 0.5:
        sel = [f for f in pool if rng.random() < 0.5]
        if mode != "nofield" and not any(f in sel for f in fields):
            sel.append(rng.choice(fields))
    if mode == "nofield":
        sel = [f for f in pool + ["x"] if f not in fields][:rng.randrange(0, 3)]
    # weights
    weights = None
    if rng.random() < 0.7:
        weights = dyadic_weights(rng, max(n, 1))
        if rng.random() < 0.15:
            weights = [int(w) if w in (0.0, 1.0) else w for w in weights]
    if mode == "badweights":
        k = rng.randrange(4)
        w = dyadic_weights(rng, max(n, 2))
        if k == 0:
            weights = w + [0.0]
        elif k == 1:
            weights = w[:-1] if len(w) > 1 else [0.5]
        elif k == 2:
            weights = [w[0] + 0.25] + w[1:]
        else:
            weights = [w[0] + 1.5, w[1] - 1.5] + w[2:] if len(w) > 1 else [1.5]
    return cells, L, res, weights, sel, mode, start


def run_disagg(ctx, n, reqs, post):
    rng = ctx.rng
    for i in range(n):
        cells, L, res, weights, sel, mode, start = gen_disagg(rng)
        tri = Triangle(cells)
        r = call(disaggregate_experience, tri, res, None if weights is None else list(weights),
                 None if sel is None else list(sel))
        d = impl_dump(r)
        inp = w_cells(tri.cells)
        applicable = "ok" in d and res < L and L % res == 0 and mode != "offgrid"
        all_obs = all(gen.add_months_int(c.period_start, L - 1, end=True) <= c.evaluation_date for c in tri.cells)
        nsub = L // res if res and L % res == 0 else 1
        exact = all_obs and (weights is not None or nsub in (1, 2, 4))
        tol = Fraction(0) if exact else TOL
        req = {"op": "disagg", "cells": inp, "res": res,
               "weights": None if weights is None else [w_num(w) for w in weights],
               "fields": sel, "tol": "0" if exact else TOL_W}
        agg = None
        if applicable:
            req["impl"] = d["ok"]
            first = min(c.period_start for c in tri.cells)
            ra = call(aggregate, r[1], period_resolution=(L, "month"),
                      period_origin=first - datetime.timedelta(days=1))
            agg = impl_dump(ra)
            if "ok" in agg:
                req["agg"] = agg["ok"]
        reqs.append(req)
        post.append(("disagg", req, (d, agg, applicable), tol))
        ctx.count(f"disagg/{mode}")
        ctx.count(f"disagg/L={L},res={res}")
        ctx.count("disagg/weights=" + ("default" if weights is None else "dyadic"))
        ctx.count("disagg/" + ("exact" if exact else "tol"))
        ctx.count("disagg/result=" + ("ok" if "ok" in d else "err:" + d["err"]))
        ctx.case(digest=json.dumps([inp, res, req["weights"], sel], sort_keys=True),
                 nontrivial=applicable and len(d["ok"]) > len(inp),
                 sample={"op": "disagg", "period_months": L, "res": res, "weights": weights, "fields": sel,
                         "n_cells": len(inp), "n_out": len(d.get("ok", []))} if i < 1 else None)


def check_disagg(ctx, req, extra, out, tol):
    d, agg, applicable = extra
    case = {k: req[k] for k in ("op", "cells", "res", "weights", "fields")}
    model, spec = out["model"], out["spec"]
    if applicable:
        # hypotheses of disagg_spec_bridge (Spec.C18.disaggWF) evaluated by the driver on the input
        ctx.count("disagg/wf(hypotheses of the bridge theorem)=" + str(out["wf"]))
        if not spec["sum"]:
            ctx.fail("disaggregate_experience: sub-period values do not add up to the original cell "
                     "(or sub-periods do not tile the observable part of the period)", case, {"impl": d, "tol": str(tol)})
        if agg is not None and "err" in agg:
            ctx.fail("aggregate(disaggregate_experience(t)) raised", case, {"impl": d, "aggregate": agg})
        elif "aggBack" in spec and not spec["aggBack"]:
            ctx.fail("aggregating the disaggregated triangle back does not reproduce the input", case,
                     {"impl": d, "aggregate": agg, "tol": str(tol)})
    if not same_result(model, d, tol):
        ctx.disagree("disaggregate_experience", case, model, d)


# ---- stream 3: accident quarter -> policy year -------------------------------------------------------

def gen_policy(rng):
    mode = rng.choices(["ok", "ragged", "badorigin"], [0.86, 0.08, 0.06])[0]
    m0 = rng.choice([1, 4, 7, 10] * 3 + [2, 3, 6, 11])
    start = month_start(rng.randrange(1996, 2028), m0)
    n_periods = rng.randrange(1, 9)
    extra = rng.randrange(0, 4)
    n_slices = rng.choice([1, 1, 2])
    metas = slice_metas(rng, n_slices, vary_other=1.0, risk_basis=rng.choice(["Accident", "Accident", "Report"]))
    kind = rng.choice(["C", "U", "U", "I"])
    fields = rand_fields(rng, 1, 3, ["earned_premium", "paid_loss", "reported_loss", "open_claims"])
    vk = {f: rng.choice(["int", "float", "farr"]) for f in fields}
    cells = []
    for m in metas:
        rows = []
        for i in range(n_periods):
            ps = gen.add_months_int(start, 3 * i)
            pe = gen.add_months_int(ps, 2, end=True)
            lags = list(range(0, n_periods - i + extra))
            keep = [k for k in lags[:-1] if rng.random() < 0.8] + [lags[-1]]
            if mode == "ragged" and i == n_periods - 1 and n_periods > 1:
                keep = keep[:-1] or [lags[-1] + 1]
            rows.append((ps, pe, [gen.add_months_int(pe, 3 * k, end=True) for k in keep]))
        if mode == "ragged" and n_periods == 1:
            mode = "ok"
        cells += make_cells(rng, rows, m, kind, fields, vk, 3)
    om = rng.randrange(1, 13)
    od = rng.choice([1, 1, 1, 1, 15, 28, 10])
    origin = D(2020, om, od)
    if mode == "badorigin":
        origin = rng.choice([D(2020, 2, 29), D(2020, 2, 29), D(2020, 1, 31), D(2020, 5, 31)])
    plen = rng.choice([1, 3, 6, 12, 12, 12, 18, 24])
    cont = rng.random() < 0.7
    return cells, plen, origin, cont, mode


def run_policy(ctx, n, reqs, post):
    rng = ctx.rng
    for i in range(n):
        cells, plen, origin, cont, mode = gen_policy(rng)
        tri = Triangle(cells)
        d = impl_dump(call(accident_quarter_to_policy_year, tri, policy_length_months=plen,
                           policy_year_origin=origin, continuous_issuance=cont))
        inp = w_cells(tri.cells)
        req = {"op": "policyYear", "cells": inp, "policyLen": plen, "origin": w_date(origin),
               "continuous": cont, "tol": TOL_W, "impl": d.get("ok")}
        reqs.append(req)
        post.append(("policyYear", req, d, TOL))
        ctx.count(f"policyYear/{mode}")
        ctx.count(f"policyYear/len={plen}")
        ctx.count(f"policyYear/origin_month={origin.month},day={origin.day}")
        ctx.count("policyYear/result=" + ("ok" if "ok" in d else "err:" + d["err"]))
        ctx.case(digest=json.dumps([inp, plen, w_date(origin), cont], sort_keys=True),
                 nontrivial="ok" in d and len(d["ok"]) > 0,
                 sample={"op": "policyYear", "policy_length": plen, "origin": str(origin), "continuous": cont,
                         "n_cells": len(inp), "n_out": len(d.get("ok", []))} if i < 1 else None)


def check_policy(ctx, req, d, out, tol):
    case = {k: req[k] for k in ("op", "cells", "policyLen", "origin", "continuous")}
    model, spec = out["model"], out["spec"]
    if not out["covered"]:
        # outside the share table's contract (row sums positive): issuance not continuous and some accident
        # period is reached by no policy; the code drops its amounts (notes/agents/c18.md, candidate finding)
        ctx.count("policyYear/uncovered-accident-period(no conservation claim)")
    elif "ok" in d and not spec["conserves"]:
        ctx.fail("accident_quarter_to_policy_year: a field total per evaluation date changed, or the result is "
                 "not Policy-basis", case, {"impl": d, "tol": str(tol)})
    if "err" in d and "ok" in model:
        ctx.fail("accident_quarter_to_policy_year refused a flat-right-edge quarterly triangle", case, {"impl": d})
    if not same_result(model, d, tol):
        ctx.disagree("accident_quarter_to_policy_year", case, model, d)


# ---- stream 4: premium pattern -------------------------------------------------------------------------

def pattern(rng, n, total_pow2=None):
    if total_pow2 is None:
        p = [rng.choice([0, 0.5, 1, 1, 2, 3, 4.5, 7]) for _ in range(n)]
        if sum(p) == 0:
            p[rng.randrange(n)] = 1
        return p
    total = 1 << total_pow2
    cuts = sorted(rng.randrange(0, total + 1) for _ in range(n - 1))
    return [float(b - a) / 4 for a, b in zip([0] + cuts, cuts + [total])]


def gen_premium(rng):
    exact = rng.random() < 0.3
    if exact:
        vol = float(rng.randrange(0, 1 << 12)) / 4
        wp = pattern(rng, rng.randrange(1, 6), rng.choice([2, 3, 4]))
        ep = pattern(rng, rng.randrange(1, 6), rng.choice([2, 3, 4]))
        wres, eres = rng.choice([1, 2, 4]), rng.choice([1, 2, 4])
    else:
        vol = rng.choice([float(rng.randrange(1, 1 << 20)) / 8, 600.0, 1.0, 1e6])
        wp = pattern(rng, rng.randrange(1, 7))
        ep = pattern(rng, rng.randrange(1, 7))
        wres, eres = rng.choice([1, 2, 3, 6, 12]), rng.choice([1, 3, 6, 12])
    ores = rng.choice([1, 1, 3, 3, 6, 12, 5])
    offset = rng.choice([0, 0, 0, 1, 2, 5, 13, -1])
    cont = rng.random() < 0.6
    return vol, wp, wres, ep, eres, ores, offset, cont, exact


def run_premium(ctx, n, reqs, post):
    rng = ctx.rng
    for i in range(n):
        vol, wp, wres, ep, eres, ores, offset, cont, exact = gen_premium(rng)
        st, v = call(program_earned_premium, vol, np.array(wp, dtype=float), wres, np.array(ep, dtype=float), eres,
                     ores, offset, cont)
        if st == "ok":
            d = {"ok": [[w_rat(float(x)) for x in v[0]], [w_rat(float(x)) for x in v[1]]]}
        else:
            d = {"err": v}
        req = {"op": "premium", "vol": w_rat(vol), "wp": [w_rat(x) for x in wp], "wres": wres,
               "ep": [w_rat(x) for x in ep], "eres": eres, "ores": ores, "offset": offset, "continuous": cont,
               "tol": "0" if exact else TOL_W, "impl": d.get("ok")}
        reqs.append(req)
        post.append(("premium", req, d, Fraction(0) if exact else TOL))
        ctx.count("premium/" + ("exact" if exact else "tol"))
        ctx.count(f"premium/ores={ores},offset={offset}")
        ctx.count(f"premium/continuous={cont}")
        ctx.count("premium/result=" + ("ok" if "ok" in d else "err:" + d["err"]))
        ctx.case(digest=json.dumps({k: v for k, v in req.items() if k != "impl"}, sort_keys=True),
                 nontrivial="ok" in d and len(d["ok"][0]) > 2,
                 sample={"op": "premium", "volume": vol, "writing": wp, "wres": wres, "earning": ep, "eres": eres,
                         "ores": ores, "offset": offset, "continuous": cont} if i < 1 else None)


def check_premium(ctx, req, d, out, tol):
    case = {k: v for k, v in req.items() if k != "impl"}
    model, spec = out["model"], out["spec"]
    if "ok" in d and not spec["premium"]:
        ctx.fail("program_earned_premium: a pattern does not sum to the volume / is negative / earns more than written",
                 case, {"impl": d, "tol": str(tol)})
    if "err" in d and "ok" in model:
        ctx.fail("program_earned_premium raised on valid patterns", case, {"impl": d})
    same = ("err" in model) == ("err" in d)
    if same and "ok" in d:
        eps = tol * abs(Fraction(req["vol"]))
        for a, b in zip(model["ok"], d["ok"]):
            same = same and len(a) == len(b) and all(abs(Fraction(x) - Fraction(y)) <= eps for x, y in zip(a, b))
    if not same:
        ctx.disagree("program_earned_premium", case, model, d)


# ---- correspondence ----------------------------------------------------------------------------------------

def correspondence(ctx):
    if ctx.thorough:
        n_cur, n_dis, n_pol, n_pre = 3000, 3200, 1400, 2400
    else:
        n_cur, n_dis, n_pol, n_pre = 85, 100, 55, 60
    reqs, post = [], []
    run_currency(ctx, n_cur, reqs, post)
    run_disagg(ctx, n_dis, reqs, post)
    run_policy(ctx, n_pol, reqs, post)
    run_premium(ctx, n_pre, reqs, post)
    outs = common.Driver("drv_c18").run(reqs)
    for (stream, req, d, tol), out in zip(post, outs):
        if stream == "currency":
            check_currency(ctx, req, d, out)
        elif stream == "disagg":
            check_disagg(ctx, req, d, out, tol)
        elif stream == "policyYear":
            check_policy(ctx, req, d, out, tol)
        else:
            check_premium(ctx, req, d, out, tol)


if __name__ == "__main__":
    import translate_c18
    common.run_check(
        "C18", module="Bermuda.Properties.C18", driver_targets=["drv_c18"],
        correspondence=correspondence, level="translation_validation",
        extra_translate=translate_c18.regenerate,
        rule="four streams: (currency) 1-4 slices over {USD,EUR,GBP,CAD,'',None} x three cell classes x scalar/array "
             "values x dyadic/int rate tables incl. missing currency / missing rate; (disagg) semi-regular triangles with "
             "period length 3/6/12, every divisor sub-resolution (plus equal, non-divisor, larger), default or dyadic "
             "weight vectors (plus invalid ones), field selections, evaluation dates inside the period (unobservable "
             "sub-periods), off-grid gaps; (policyYear) quarterly accident triangles with flat right edge (plus ragged) x "
             "12 origin months x origin days x policy lengths 1-24 x continuous or not; (premium) writing/earning "
             "patterns x resolutions x offsets. distinct = distinct canonical input dump; non-trivial = the call "
             "succeeded and changed something (a foreign slice, more cells out than in, a non-empty result, more than "
             "one output bucket)",
        assumptions=["bridge theorems (Bool predicate true on the model's output): currency_spec_bridge needs cells that do "
                     "not collide after conversion (distinct class/coordinates/metadata-up-to-currency); disagg_spec_bridge "
                     "needs Spec.C18.disaggWF (per slice: resolution L a multiple of res, L-month periods starting on the "
                     "first of a month from 1970 on, no repeated cell, disjoint periods at equal evaluation dates) - "
                     "evaluated by the driver on every applicable case (histogram key disagg/wf...)",
                     "theorem hypotheses: value dicts have distinct keys (Python dicts); policyYear_conserves needs the "
                     "share-table contract (Spec.C18.policyCovered: every accident period's normalised row sums to 1, "
                     "evaluated by the driver on every case) and one shape per field within a slice (UniformShapes)",
                     "NaN-free values; scalars and 1-d arrays (rank >= 2 arrays and empty arrays are outside the model)",
                     "list (or absent) period weights (dict weights make the code raise, DESIGN §6)",
                     "disaggregate_experience on incremental triangles is not modelled (to_cumulative/to_incremental wrapper: C04)",
                     "float rounding: comparisons are exact where the generated dyadic inputs make IEEE arithmetic exact, "
                     "relative tolerance 2^-40 (harness only) where the code divides: default weights 1/n, weight "
                     "renormalisation, policy-year share normalisation, pattern normalisation",
                     "program_earned_premium: positive resolutions, pattern sums non-zero (numpy yields nan/inf otherwise; "
                     "output_resolution=0 loops forever)"],
        trusted=["numpy elementwise arithmetic on exactly representable values", "harness/translate_c18.py "
                 "(DEFAULT_INTERPOLATION_FIELDS regenerated each run)"],
    )
