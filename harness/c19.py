"""C19 — a torn .trib/.tribc file is never read as different data.

For every generated file EVERY crash point 0 <= n < len(file): `Triangle.from_binary(file[:n])`
against `Model.decode(bytes[:n])` (drv_c19) and the Lean Spec predicate `Spec.prefixSafe original
decoded` on what the implementation returned. Compressed files: every truncation must raise
(gzip is a library: enumerated, not modelled).
"""
import json
import os

import common
import c05
from c05 import xcall, dump_of, raw_cells, Scratch, write_file
Triangle = c05.Triangle


def read_prefix(path, data, n, **kw):
    with open(path, "wb") as f:
        f.write(data[:n])
    return dump_of(xcall(Triangle.from_binary, path, **kw))


def correspondence(ctx):
    if c05.import_failed(ctx):
        return
    rng = ctx.rng
    drv = common.Driver("drv_c19")
    c05.ensure_tables(ctx, "drv_c19", "Bermuda.Properties.C19")
    n_small = 400 if ctx.thorough else 24
    n_big = 8 if ctx.thorough else 2
    n_gz = 40 if ctx.thorough else 6
    with Scratch() as scratch:
        tris = [(Triangle([]), {"kind": "empty", "slices": 0, "cells": 0, "keys": 0})]
        tris += c05.make_triangles(ctx, n_small, small=True,
                                   must=({"kind": "I", "n_keys": 3}, {"kind": "U", "n_keys": 2}, {"kind": "C", "n_keys": 8}))
        # a few files whose pool needs the placeholder slot (> 136 keys): fewer cells, all offsets
        for _ in range(n_big):
            for _try in range(5):
                cells, desc = c05.gen_cells(rng, small=True, n_keys=rng.choice([137, 140, 150]))
                cells = cells[:2]
                st, tri = xcall(Triangle, cells)
                if st == "ok" and cells:
                    tris.append((tri, desc))
                    break
        # sequence: families of related triangles sharing Metadata, written one after the other in this process
        for _ in range(12 if ctx.thorough else 2):
            fam = c05.gen_family(rng)
            tris += [(t, d) for t, d in fam[:4] if len(t.cells) <= 6 and c05.distinct_keys(t.cells) < 100]
        # NON-coherent triangles (theorem C19.decode_prefix_safe_firstRepr): inside a slice every cell carries its own
        # Metadata object, ==-equal in another representation (1 / 1.0 / True, 0.0 / -0.0, dict order); the intact file
        # reads back as `firstRepr cells`, and every torn file must give an error or leading cells of THAT
        for _ in range(24 if ctx.thorough else 4):
            for _try in range(10):
                cells, desc = c05.gen_repr_triangle(rng)
                rng.shuffle(cells)
                st, tri = xcall(Triangle, cells[:6])
                if st == "ok" and len(tri) >= 2:
                    tris.append((tri, {**desc, "kind": "non-coherent(md-repr)"}))
                    break
        reqs, infos = [], []
        path = scratch.path(".trib")
        for tri, desc in tris:
            cells = raw_cells(tri.cells, strict=False)
            st, B = xcall(write_file, tri, scratch.path(".trib"))
            if st != "ok":
                ctx.fail("to_binary raised on a triangle inside the documented limits", {"cells": cells}, {"error": B})
                continue
            outs, index, per, first_n = [], {}, [], {}
            for n in range(len(B)):
                d = read_prefix(path, B, n)
                ctx.case(digest=None, nontrivial=False)
                if d[0] == "err":
                    per.append(-1)
                    ctx.count(f"trib/raised/{d[1]}")
                    continue
                if d[0] == "bad":
                    ctx.fail("a torn file was read as data of a type the original does not hold",
                             {"cells": cells, "file": B.hex(), "n": n}, {"what": d[1]})
                    per.append(-1)
                    continue
                key = json.dumps(d[1], sort_keys=True)
                if key not in index:
                    index[key] = len(outs)
                    outs.append(d[1])
                    first_n[index[key]] = n
                per.append(index[key])
                ctx.count(f"trib/returned/cells={len(d[1])}")
            ctx.case(digest=json.dumps(cells, sort_keys=True), nontrivial=len(cells) > 0,
                     sample={"op": "all-offsets", **desc, "bytes": len(B)})
            ctx.count(f"files/kind={desc.get('kind')}")
            ctx.count(f"files/keys={c05.keys_bucket(c05.distinct_keys(tri.cells))}")
            reqs.append({"op": "prefixes", "hex": B.hex(), "cells": cells, "outs": outs, "per": per})
            infos.append((cells, B, outs, per, first_n))
        answers = drv.run(reqs)
        for (cells, B, outs, per, first_n), out in zip(infos, answers):
            # is this file an INSTANCE of C19.decode_prefix_safe / decode_prefix_safe_py?  (wf cells, coherent cells,
            # and the bytes whose prefixes were read are encode cells = encodePy cells)
            inst = out.get("wf") and out.get("fileIsEncodePy")        # decode_prefix_safe_firstRepr needs no `coherent`
            ctx.count(f"files/coherent={out.get('coherent')}")
            ctx.count("theorem-instance/yes" if inst else "theorem-instance/no (wf=%s coherent=%s file=encode:%s file=encodePy:%s)"
                      % (out.get("wf"), out.get("coherent"), out.get("fileIsEncode"), out.get("fileIsEncodePy")))
            if out.get("wf") and not out.get("fileIsEncodePy"):
                ctx.disagree("the file to_binary wrote = Model.encodePy cells (the file whose prefixes are read is the model's file)",
                             {"cells": cells, "file": B.hex()})
            if inst and out["modelOk"] + out["modelErr"] != len(B):
                raise common.Infra("prefixes: not every offset was answered")
            # judged against `firstRepr cells` (= cells when coherent): what the intact file decodes to
            for j, ok in enumerate(out.get("specFirstRepr", out["spec"])):
                if not ok:
                    ctx.fail("a strict prefix of a valid file was read as something other than the leading cells",
                             {"cells": cells, "file": B.hex(), "n": first_n[j]}, {"read": outs[j]})
            for mm in out["mismatch"]:
                ctx.disagree("from_binary(file[:n]) vs Model.decode(bytes[:n])",
                             {"cells": cells, "file": B.hex(), "n": mm["n"]}, model=mm["model"],
                             impl="raised" if mm["impl"] < 0 else outs[mm["impl"]])
            ctx.count("model/ok" if inst else "model-outside-theorem/ok", out["modelOk"])
            ctx.count("model/err" if inst else "model-outside-theorem/err", out["modelErr"])

        # compressed flavour: every truncation must raise
        gz_tris = c05.make_triangles(ctx, n_gz, small=True)
        pathc = scratch.path(".tribc")
        for tri, desc in gz_tris:
            cells = raw_cells(tri.cells, strict=False)
            st, G = xcall(write_file, tri, scratch.path(".tribc"), compress=True)
            if st != "ok":
                ctx.fail("to_binary(compress=True) raised", {"cells": cells}, {"error": G})
                continue
            ctx.case(digest="gz" + json.dumps(cells, sort_keys=True), nontrivial=len(cells) > 0, sample=None)
            ctx.count("files/tribc")
            for n in range(len(G)):
                d = read_prefix(pathc, G, n) if n % 2 else read_prefix(pathc, G, n, compress=True)
                ctx.case(digest=None, nontrivial=False)
                if d[0] == "err":
                    ctx.count(f"tribc/raised/{d[1]}")
                else:
                    ctx.fail("a truncated compressed file was read without error",
                             {"cells": cells, "file": G.hex(), "n": n}, {"read": d[1]})

        # large compressed files: size-dependent reader/writer paths (buffer sizes, bulk inflate thresholds) only
        # show on files above common thresholds (64 KiB, 1 MiB, 4 MiB). Incompressible float64 samples; offsets: the
        # last 48 bytes (gzip trailer: CRC32 + ISIZE), around every power of two >= 4 KiB, and random ones.
        import datetime
        import numpy as np
        from bermuda import CumulativeCell, Metadata
        nrng = np.random.default_rng(rng.randrange(2 ** 32))
        sizes = [(3, 4000), (21, 10000)] + ([(40, 14000)] if ctx.thorough else [])
        for ncell, nsamp in sizes:
            bcells = [CumulativeCell(period_start=datetime.date(2020, 1, 1), period_end=datetime.date(2020, 12, 31),
                                     evaluation_date=datetime.date(2020, 12, 31) + datetime.timedelta(days=31 * k),
                                     values={"paid_loss": nrng.random(nsamp)}, metadata=Metadata())
                      for k in range(ncell)]
            st, G = xcall(write_file, Triangle(bcells), scratch.path(".tribc"), compress=True)
            if st != "ok":
                ctx.fail("to_binary(compress=True) raised on a large triangle", {"cells": ncell, "samples": nsamp}, {"error": G})
                continue
            L = len(G)
            ctx.case(digest=f"gzbig-{ncell}-{nsamp}-{L}", nontrivial=True,
                     sample={"op": "large-tribc", "cells": ncell, "samples": nsamp, "bytes": L})
            ctx.count(f"files/tribc-large/bytes>={1 << (L.bit_length() - 1)}")
            offs = set(range(max(0, L - 48), L))
            k = 12
            while (1 << k) < L:
                offs.update(o for o in ((1 << k) - 1, 1 << k, (1 << k) + 1) if 0 <= o < L)
                k += 1
            offs.update(rng.randrange(L) for _ in range(40 if ctx.thorough else 12))
            # every place where a further gzip member / deflate block boundary could sit: a torn multi-member file
            # that ends exactly there is itself a valid gzip file. Candidates: every occurrence of the gzip magic
            # 1f 8b 08 (and the byte before/after), and every offset at which the bytes so far inflate without error.
            pos = G.find(b"\x1f\x8b\x08", 1)
            nsig = 0
            while pos != -1 and nsig < 64:
                offs.update(o for o in (pos - 1, pos, pos + 1) if 0 < o < L)
                nsig += 1
                pos = G.find(b"\x1f\x8b\x08", pos + 1)
            ctx.count("files/tribc-large/gzip-signatures", nsig)
            for n in sorted(offs):
                d = read_prefix(pathc, G, n) if n % 2 else read_prefix(pathc, G, n, compress=True)
                ctx.case(digest=None, nontrivial=False)
                if d[0] == "err":
                    ctx.count(f"tribc-large/raised/{d[1]}")
                else:
                    ctx.fail("a truncated compressed file was read without error",
                             {"cells": ncell, "samples": nsamp, "seed": "large-tribc stream", "bytes": L, "n": n},
                             {"read_cells": len(d[1]) if isinstance(d[1], list) else d[1]})


RULE = ("small triangles over the C05 lattice (all three cell classes, 0-3 slices, strings incl. non-ASCII, every "
        "value kind, arrays, a few files with > 136 keys i.e. with the placeholder pool slot), written by to_binary; "
        "EVERY byte offset 0 <= n < len(file) is a case; compressed files: every offset; plus large (> 64 KiB, > 1 MiB) "
        "compressed files of incompressible samples torn in the gzip trailer, around every power of two and at random offsets. evaluations = truncations; "
        "distinct = distinct files; non-trivial = file holds at least one cell")

if __name__ == "__main__":
    common.run_check("C19", module="Bermuda.Properties.C19", driver_targets=["drv_c19"],
                     correspondence=correspondence, level="proof",
                     rule=RULE,
                     assumptions=c05.ASSUMPTIONS + [
                         "a crash leaves a strict prefix of the bytes to_binary would have written (no reordering of writes)",
                         "truncated gzip streams: enumerated on the implementation (gzip raises EOFError/BadGzipFile), not modelled"],
                     trusted=c05.TRUSTED)
