"""C20 — plot data is faithful (partial: altair/Vega-Lite validity and sd's square root are outside
the Lean model).

Correspondence:
  (a) `bermuda.plot.build_plot_data(triangle)` vs the Lean model `buildPlotData` (drv_c20) record by
      record. Exact where the arithmetic is exact (dates, pass-through scalars, min, max of stored
      values); relative/absolute tolerance 2^-40 for everything that went through an IEEE division or
      a float mean/quantile interpolation; `sd` is compared numerically (the model carries the exact
      variance, the implementation's sd is squared and compared with tolerance 2^-38).
  (b) the Lean Spec predicates (Spec/C20.lean) are evaluated on the IMPLEMENTATION's records.
  (c) the same clauses once more in Python with `fractions` only (no numpy): one record per cell in
      order, own values, neighbours from the same slice, names <-> percentiles, monotone.
  (d) every supported plot method on a handful of triangles: `chart.to_dict(validate=True)` validates
      against the Vega-Lite schema bundled with altair; one facet per slice.
"""
import calendar
import dataclasses
import datetime
import json
import math
import os
import warnings
from fractions import Fraction

import numpy as np

import common
import gen
from common import w_cells, call
import translate_c20

from bermuda import Triangle
from bermuda import plot as P

TOL = Fraction(1, 2 ** 40)
STAT_FIELDS_SKIP = {"field", "metric", "is_forecast", "keep_samples"}

# plot methods that fail on the UNCHANGED tree for an altair API reason unrelated to the property
# (`X.title() cannot combine a positional argument with keyword arguments`; they also fail in the
# library's own test-suite). They are probed each run and listed in the evidence.
KNOWN_BROKEN_PLOTS = {"plot_drip", "plot_hose"}
# altair deep-copies the embedded data per layer/facet: these three dominate the run time
HEAVY_PLOTS = {"plot_right_edge", "plot_mountain", "plot_broom"}


# ----------------------------------------------------------------------------------------------
# generation
# ----------------------------------------------------------------------------------------------

def rand_triangle_cells(rng, n_slices=None, small=False, for_plot=False, force_samples=None):
    """standard loss/premium fields; scalar, sample or mixed (observed scalars + predicted samples);
    1-3 slices with (mostly) DIFFERENT layouts; regular and ragged; some cells lack a field."""
    n_slices = n_slices or rng.choice([1, 2, 2, 3])
    metas = gen.rand_metas(rng, n_slices, single_attr=rng.random() < 0.7)
    style = rng.choice(["scalar", "scalar", "sample", "mixed", "mixed"]) if not for_plot else \
        rng.choice(["scalar", "mixed"])
    if force_samples:
        style = rng.choice(["sample", "mixed"])
    # odd / even / prime counts, and multiples of 40 (every quantile level x n is then a whole number: an
    # order-statistic shortcut could fire there); rarely 1000 posterior draws on a small triangle
    n_samples = rng.choice([2, 3, 4, 5, 8, 11] if for_plot else [2, 3, 4, 5, 8, 11, 40, 80, 41])
    if force_samples:
        n_samples, small = force_samples, True
    kind = rng.choice(["U", "U", "C", "I"]) if not for_plot else "U"
    daily = (not for_plot) and rng.random() < 0.12
    res = rng.choice([1, 3, 6, 12])
    fields = ["paid_loss", "reported_loss", "earned_premium"]
    big_level = None
    if rng.random() < 0.4:
        fields.append("reported_claims")
        big_level = rng.choice([None, "int", "float"]) if not for_plot else None
    if rng.random() < 0.2:
        fields.append("incurred_loss")
    same_layout = rng.random() < 0.3
    shared_rows = None
    cells = []
    y0 = rng.randrange(1995, 2025)
    for m in metas:
        if daily:
            rows = gen.layout_daily(rng)
        else:
            shape = rng.choice(["square", "triangle", "ragged", "ragged"])
            if for_plot:     # small: altair deep-copies the embedded data for every layer/facet
                shape = rng.choice(["triangle", "ragged"])
                rows = gen.layout_regular(rng, res=res, n_periods=rng.randrange(2, 4), n_lags=rng.randrange(2, 4),
                                          start_year=y0, shape=shape)
            else:
                rows = gen.layout_regular(rng, res=res, n_periods=rng.randrange(1, 4 if small else 5),
                                          n_lags=rng.randrange(1, 4 if small else 5), start_year=y0, shape=shape)
        if same_layout:
            shared_rows = shared_rows or rows
            rows = shared_rows
        for ps, pe, evals in rows:
            prev = ps - datetime.timedelta(days=1)
            flat_next = [None]
            for j, ev in enumerate(evals):
                sample = style == "sample" or (style == "mixed" and j >= max(1, len(evals) // 2))
                vals = {}
                for f in fields:
                    int_valued = f == "reported_claims" or rng.random() < 0.2
                    if sample:
                        vk = "iarr" if int_valued else "farr"
                    else:
                        vk = "int" if int_valued else "float"
                    vals[f] = gen.rand_value(rng, vk, n_samples, lo=1, hi=2048)
                    if f == "reported_claims" and sample and big_level:
                        # a LARGE LEVEL with a small spread (pass-through field only, so every input of the
                        # statistics stays exact): one-pass variance formulas cancel catastrophically here,
                        # int64 squares overflow above ~3.04e9
                        if big_level == "int":
                            vals[f] = np.array([3_200_000_000 + rng.randrange(0, 64) for _ in range(n_samples)], dtype=np.int64)
                        else:
                            vals[f] = np.array([float(2 ** 32) + gen.dyadic(rng, 0, 64) for _ in range(n_samples)])
                if flat_next[0] is not None and not sample and not for_plot:
                    vals, flat_next[0] = {k: v for k, v in flat_next[0].items()}, None
                elif not for_plot:
                    r = rng.random()
                    if r < 0.08:
                        del vals["earned_premium"]            # absent premium: no loss ratios
                    elif r < 0.14:
                        del vals[rng.choice(["paid_loss", "reported_loss"])]
                    elif r < 0.17 and not sample:
                        vals["earned_premium"] = rng.choice([0, 0.0])   # Python scalar zero: raises
                    elif r < 0.19:
                        vals["paid_loss"] = None
                    elif r < 0.22 and sample:
                        vals["paid_loss"] = vals["paid_loss"][:1]       # length-1 sample
                    elif r < 0.30 and style == "scalar":
                        # (scalar triangles only: with an array successor numpy divides by zero -> inf, no raise)
                        # a PRESENT input whose value is zero: ratio 0 / pass-through 0 must still be reported
                        # (as a divisor it raises for Python scalars: no age-to-age value from this cell)
                        vals[rng.choice(["paid_loss", "reported_loss"])] = rng.choice([0, 0.0])
                    elif r < 0.34 and not sample and j + 1 < len(evals):
                        flat_next[0] = dict(vals)                        # next evaluation repeats these values: incremental ATA = 0
                if kind == "I":
                    cells.append(gen.IncrementalCell(ps, pe, prev, ev, vals, m))
                    prev = ev
                elif kind == "U":
                    cells.append(gen.CumulativeCell(ps, pe, ev, vals, m))
                else:
                    cells.append(gen.Cell(ps, pe, ev, vals, m))
    rng.shuffle(cells)
    return cells, {"slices": n_slices, "style": style, "kind": kind, "daily": daily,
                   "n_samples": n_samples, "same_layout": same_layout}


# ----------------------------------------------------------------------------------------------
# implementation records -> wire
# ----------------------------------------------------------------------------------------------

class NonFinite(Exception):
    pass


def frac(x):
    x = float(x)
    if not math.isfinite(x):
        raise NonFinite(repr(x))
    return Fraction(x)


def rec_wire(r, stat_fields):
    def d(ts):
        return [ts.year, ts.month, ts.day]
    ms = []
    for k, v in r.items():
        if isinstance(v, dict) and "snake_case_field" in v:
            stats = []
            for f in stat_fields:
                if v.get(f) is not None:
                    stats.append([f, ["e", common.w_rat(frac(v[f]))]])
            ms.append([k, {"fc": bool(v["is_forecast"]), "s": stats}])
    return {"ps": d(r["period_start"]), "pe": d(r["period_end"]), "ev": d(r["evaluation_date"]),
            "lag": common.w_rat(frac(r["dev_lag"])), "fields": list(r["fields"]), "m": ms}


def rat(s):
    return Fraction(s)


# ----------------------------------------------------------------------------------------------
# the property once more, with the stdlib only
# ----------------------------------------------------------------------------------------------

def approx(a, b, tol=TOL):
    return abs(a - b) <= tol * max(1, abs(a), abs(b))


def fr_values(v):
    """cell value -> ('s', Fraction) | ('a', [Fraction]) | None"""
    if v is None:
        return None
    if isinstance(v, np.ndarray):
        if v.ndim != 1:
            return None
        return ("a", [Fraction(x) for x in v.tolist()])
    return ("s", Fraction(v))


def bin_op(f, a, b):
    if a is None or b is None:
        return None
    try:
        if a[0] == "s" and b[0] == "s":
            return ("s", f(a[1], b[1]))
        if a[0] == "s":
            return ("a", [f(a[1], y) for y in b[1]])
        if b[0] == "s":
            return ("a", [f(x, b[1]) for x in a[1]])
        if len(a[1]) == len(b[1]):
            return ("a", [f(x, y) for x, y in zip(a[1], b[1])])
        if len(a[1]) == 1:
            return ("a", [f(a[1][0], y) for y in b[1]])
        if len(b[1]) == 1:
            return ("a", [f(x, b[1][0]) for x in a[1]])
        return None
    except ZeroDivisionError:
        return None


def percentile(xs, level):
    """level-th quantile (0..1) by linear interpolation between order statistics"""
    s = sorted(xs)
    h = level * (len(s) - 1)
    lo = math.floor(h)
    hi = min(lo + 1, len(s) - 1)
    return s[lo] + (s[hi] - s[lo]) * (h - lo)


def level_of(name):
    """'q2_5' -> 2.5 % ; None when the name is not a quantile name"""
    if not name.startswith("q"):
        return None
    body = name[1:].replace("_", ".")
    try:
        return Fraction(body) / 100
    except ValueError:
        return None


REQUIRED = ["mean", "median", "sd", "min", "max", "q2_5", "q5", "q10", "q20", "q50", "q80", "q90",
            "q95", "q97_5"]

TABLE = {
    "paid_loss_ratio": ("ratio", "paid_loss"), "reported_loss_ratio": ("ratio", "reported_loss"),
    "incurred_loss_ratio": ("ratio", "incurred_loss"),
    "paid_loss": ("pass", "paid_loss"), "reported_loss": ("pass", "reported_loss"),
    "incurred_loss": ("pass", "incurred_loss"), "earned_premium": ("pass", "earned_premium"),
    "reported_claims": ("pass", "reported_claims"),
    "paid_ata": ("ata", "paid_loss"), "reported_ata": ("ata", "reported_loss"),
    "paid_incremental_ata": ("ataincr", "paid_loss"),
    "reported_incremental_ata": ("ataincr", "reported_loss"),
}


def next_in_slice(cells, c):
    later = [d for d in cells if d.metadata == c.metadata and d.period == c.period
             and d.evaluation_date > c.evaluation_date]
    return min(later, key=lambda d: d.evaluation_date) if later else None


def expected_value(cells, c, kind, f):
    get = lambda cell, k: fr_values(cell.values[k]) if cell is not None and k in cell.values else None  # noqa: E731
    if kind == "ratio":
        return bin_op(lambda a, b: a / b, bin_op(lambda a, b: a * b, ("s", Fraction(100)), get(c, f)),
                      get(c, "earned_premium"))
    if kind == "pass":
        return get(c, f)
    nxt = next_in_slice(cells, c)
    r = bin_op(lambda a, b: a / b, get(nxt, f), get(c, f))
    if kind == "ata":
        return r
    return bin_op(lambda a, b: a - b, r, ("s", Fraction(1)))


def py_dev_lag(pe, ev):
    return (Fraction(12 * (ev.year - pe.year) + (ev.month - pe.month))
            - Fraction(pe.day, calendar.monthrange(pe.year, pe.month)[1])
            + Fraction(ev.day, calendar.monthrange(ev.year, ev.month)[1]))


def py_spec(cells, recs):
    """list of (clause, detail) that FAIL on the implementation's wire records"""
    bad = []
    if len(recs) != len(cells):
        return [("one record per cell", f"{len(recs)} records for {len(cells)} cells")]
    for i, (c, r) in enumerate(zip(cells, recs)):
        if (r["ps"], r["pe"], r["ev"]) != (common.w_date(c.period_start), common.w_date(c.period_end),
                                          common.w_date(c.evaluation_date)):
            bad.append(("records in cell order with the cell's period and evaluation date", i))
            continue
        if not approx(rat(r["lag"]), py_dev_lag(c.period_end, c.evaluation_date)):
            bad.append(("development lag of the cell", i))
        got = {k: v for k, v in r["m"]}
        for name, (kind, f) in TABLE.items():
            exp = expected_value(cells, c, kind, f)
            s = got.get(name)
            if exp is None:
                if s is not None:
                    bad.append(("absent input yields no summary" if kind in ("ratio", "pass") else
                                "age-to-age metric uses the next evaluation of the SAME slice and period "
                                "(none exists, yet a summary is present)", (i, name)))
                continue
            if s is None:
                bad.append(("a summary is missing although its inputs are present", (i, name)))
                continue
            stats = {k: rat(v[1]) for k, v in s["s"]}
            label = {"ratio": "loss ratio = 100*loss/earned_premium", "pass": "plain field passed through",
                     "ata": "age-to-age metric from the cell and its next evaluation in the same slice",
                     "ataincr": "age-to-age metric from the cell and its next evaluation in the same slice"}[kind]
            if exp[0] == "s" or len(exp[1]) == 1:
                v = exp[1] if exp[0] == "s" else exp[1][0]
                if list(stats) != ["mean"]:
                    bad.append(("scalar metric carries mean only", (i, name, list(stats))))
                elif not approx(stats["mean"], v):
                    bad.append((label, (i, name, "mean")))
                continue
            xs = exp[1]
            n = len(xs)
            mu = sum(xs) / n
            var = sum((x - mu) ** 2 for x in xs) / n
            for st in REQUIRED:
                if st not in stats:
                    bad.append(("sample summary lacks a statistic", (i, name, st)))
            for st, val in stats.items():
                if st == "mean":
                    ok = approx(val, mu)
                elif st == "median":
                    ok = approx(val, percentile(xs, Fraction(1, 2)))
                elif st == "sd":
                    ok = val >= 0 and approx(val * val, var, 4 * TOL)
                elif st == "min":
                    ok = approx(val, min(xs))
                elif st == "max":
                    ok = approx(val, max(xs))
                else:
                    lv = level_of(st)
                    if lv is None:
                        continue
                    ok = approx(val, percentile(xs, lv))
                    if not ok:
                        bad.append((f"summary entry equals the statistic its name states ({st} = {float(lv * 100)}th percentile)",
                                    (i, name, st)))
                        continue
                if not ok:
                    bad.append((label + f" / statistic {st}", (i, name, st)))
            qs = sorted((level_of(k), v) for k, v in stats.items() if level_of(k) is not None)
            seq = [v for _, v in qs]
            if any(b < a and not approx(a, b) for a, b in zip(seq, seq[1:])):
                bad.append(("quantile entries are monotone in their stated level", (i, name)))
            if "min" in stats and "max" in stats:
                for k, v in stats.items():
                    if k in ("sd", "min", "max"):
                        continue
                    if (v < stats["min"] and not approx(v, stats["min"])) or (v > stats["max"] and not approx(v, stats["max"])):
                        bad.append(("min <= statistic <= max", (i, name, k)))
    return bad


CORE_KEYS = ["period_start", "period_end", "evaluation_date", "dev_lag", "last_lag", "last_observed_lag", "fields",
             "experience_resolution", "evaluation_resolution", "tooltip"]


def metric_names():
    return [P._to_snake_case(k) for k in P.COMMON_METRIC_DICT]


def unflatten(r):
    """flat=True record -> nested record (keys `<metric>_<entry>` regrouped under the longest metric name);
    returns (nested, leftover keys). Empty summaries leave no trace in a flat record."""
    names = sorted(metric_names(), key=len, reverse=True)
    out, left = {}, []
    for k, v in r.items():
        if k in CORE_KEYS:
            out[k] = v
            continue
        m = next((n for n in names if k.startswith(n + "_")), None)
        if m is None:
            left.append(k)
        else:
            out.setdefault(m, {})[k[len(m) + 1:]] = v
    return out, left


def tooltip_sources(text):
    """snake-case names of the summaries whose tooltips were joined: pieces `<Field>[ (<unit>)]: <mean>[ (SD: ..)]`
    separated by ', ' (thousands separators are commas WITHOUT a following blank)"""
    if not text:
        return []
    out = []
    for piece in text.split(", "):
        head = piece.split(": ")[0]
        if head.endswith(")") and " (" in head:
            head = head[:head.rindex(" (")]
        out.append(P._to_snake_case(head))
    return out


def rec_wire_e(r, stat_fields):
    """record wire + "e": every summary slot in record order (None = the empty summary {}) + "tt" """
    w = rec_wire(r, stat_fields)
    ms = dict((k, v) for k, v in w["m"])
    e = []
    for k, v in r.items():
        if k in CORE_KEYS:
            continue
        if v == {}:
            e.append([k, None])
        elif isinstance(v, dict) and "snake_case_field" in v:
            e.append([k, ms[k]])
        else:
            raise KeyError(f"record entry {k!r} is neither a core entry nor a summary")
    w["e"] = e
    w["tt"] = tooltip_sources(r.get("tooltip"))
    return w


def option_case(ctx, tri, wire, impl_default, opt, stat_fields, reqs, cases):
    """build_plot_data(tri, None, remove_empties, flat, keep_samples): one record per cell in cell order with the
    statistics of the default call (py_spec once more on these records); with remove_empties=False and nested
    records the key set of every record is the core keys + EVERY metric name, absent-input metrics as {};
    model buildPlotDataOpt + Spec (summary_slots, tooltip_sources) through the driver."""
    re_, flat, keep = opt["remove_empties"], opt["flat"], opt["keep_samples"]
    label = f"remove_empties={re_},flat={flat},keep_samples={keep}"
    case = {"cells": wire, "options": opt}
    with warnings.catch_warnings():
        warnings.simplefilter("ignore")
        st, recs = call(P.build_plot_data, tri, None, re_, flat, keep)
    ctx.count(f"options/{label}")
    ctx.case(digest=json.dumps([wire, label], sort_keys=True), nontrivial=len(wire) > 1,
             sample={"op": "build_plot_data", "options": opt} if not getattr(ctx, "_opt_sampled", False) else None)
    ctx._opt_sampled = True
    if st == "err":
        ctx.fail(f"build_plot_data({label}) raised {recs} on a valid triangle: no record for any cell", case)
        return
    left = []
    raw_flat = None
    if flat:
        raw_flat = recs
        pairs = [unflatten(r) for r in recs]
        recs, left = [p[0] for p in pairs], [k for p in pairs for k in p[1]]
        if any(not (keep and k.startswith("metric_")) for k in left):
            ctx.fail(f"build_plot_data({label}): flat record holds keys that are neither core entries nor "
                     "<metric>_<entry>", case, sorted(set(left))[:8])
    try:
        impl = [rec_wire_e(r, stat_fields) for r in recs]
    except NonFinite as e:
        ctx.fail("a summary statistic is not finite", case, str(e))
        return
    except KeyError as e:
        ctx.fail(f"build_plot_data({label}): {e}", case)
        return
    for clause, detail in py_spec(tri.cells, impl)[:3]:
        ctx.fail(f"{label}: " + clause, case, {"where": detail})
    if raw_flat is not None:
        # the RAW `<metric>_<stat>` entries of the flat record in record order: the driver compares them with the
        # Lean flattening (Plot.flattenSummaries) of the record re-nested above (Spec.flatOk)
        try:
            for w, r in zip(impl, raw_flat):
                w["fk"] = [[k, ["e", common.w_rat(frac(v))]] for k, v in r.items()
                           if k not in CORE_KEYS and v is not None and not isinstance(v, (str, bool, dict))
                           and any(k.endswith("_" + f) for f in stat_fields)
                           and not (keep and k.startswith("metric_"))]
        except NonFinite as e:
            ctx.fail("a summary statistic is not finite", case, str(e))
            return
    if not flat:
        # the `metric` entry of every summary (keep_samples: {i: sample}; otherwise the mean), judged by Spec.keptOk
        # against the Lean `metricEntry` of the metric recomputed from the cell
        try:
            for w, r in zip(impl, recs):
                ks = []
                for k, v in r.items():
                    if isinstance(v, dict) and "snake_case_field" in v:
                        mt = v.get("metric")
                        if isinstance(mt, dict):
                            ks.append([k, ["samples", [[int(i), common.w_rat(frac(x))] for i, x in mt.items()]]])
                        elif mt is not None:
                            ks.append([k, ["mean", common.w_rat(frac(mt))]])
                w["ks"] = ks
        except (NonFinite, TypeError, ValueError) as e:
            ctx.fail(f"build_plot_data({label}): a `metric` entry is neither a finite number nor a dict of finite "
                     "samples", case, str(e))
            return
    base = [{k: v for k, v in w.items() if k not in ("e", "tt", "fk", "ks")} for w in impl]
    if len(impl) == len(impl_default) and base != impl_default:
        ctx.fail(f"build_plot_data({label}): coordinates / statistics differ from the default call's records", case,
                 {"default": impl_default, "with options": base})
    if not flat and not re_:
        want = set(CORE_KEYS) | set(metric_names())
        for i, r in enumerate(recs):
            if set(r.keys()) != want:
                ctx.fail("remove_empties=False: the key set of every record is the core keys plus every metric name "
                         "(absent-input metrics as empty summaries)", case,
                         {"record": i, "missing": sorted(want - set(r)), "extra": sorted(set(r) - want)})
                break
    if reqs is not None:
        # a flat record cannot show an empty slot: its slots are judged as with remove_empties=True
        reqs.append({"cells": wire, "impl": impl, "tol": common.w_rat(TOL), "removeEmpties": bool(re_ or flat),
                     "keepSamples": bool(keep)})
        cases.append((case, impl))


def plot_option_combos():
    """(method, kwargs) for every keyword option of every Triangle.plot_* method whose documented value set is finite,
    read from the signatures: a bool option with the NON-default value, a Literal[...] option with every listed value
    (together with uncertainty=True where the method has that switch); one option varied at a time"""
    import ast
    import inspect
    out = []
    for n in sorted(x for x in dir(Triangle) if x.startswith("plot_")):
        sig = inspect.signature(getattr(Triangle, n))
        for prm in sig.parameters.values():
            ann = str(prm.annotation)
            if ann == "bool" and isinstance(prm.default, bool):
                out.append((n, {prm.name: not prm.default}))
            elif ann.startswith("Literal["):
                try:
                    vals = ast.literal_eval(ann[len("Literal"):])
                except (ValueError, SyntaxError):
                    continue
                for v in vals:
                    kw = {prm.name: v}
                    if "uncertainty" in sig.parameters and prm.name != "uncertainty":
                        kw["uncertainty"] = True
                    if v == "spaghetti" and "n_lines" in sig.parameters:
                        kw["n_lines"] = 2
                    out.append((n, kw))
    return out


def quantile_table():
    """the live quantile levels as exact fractions"""
    return [str(Fraction(x).limit_denominator(1000)) for x in P.FieldSummary.quantiles()]


WANT_LEVELS = ["1/40", "1/20", "1/10", "1/5", "1/2", "4/5", "9/10", "19/20", "39/40"]     # q2_5 ... q97_5


def check_quantile_table(ctx, when):
    got = quantile_table()
    if got != WANT_LEVELS:
        ctx.fail(f"FieldSummary.quantiles() {when} is no longer the levels the entry names q2_5..q97_5 state",
                 {"when": when}, {"levels": got, "stated by the names": WANT_LEVELS})
        return False
    return True


def prime_with_plot_options(ctx, rng, label):
    """SEQUENCE priming: every (plot method, non-default option value) combination is called once in THIS process on
    a small triangle before further build_plot_data calls are judged on fresh triangles. A chart that is returned
    must be a valid Vega-Lite spec with one facet per slice; a combination that raises is listed in the evidence
    (priming is about the state the call leaves behind). Afterwards FieldSummary.quantiles() is read again."""
    ns = rng.choice([1, 1, 2]) if ctx.thorough else 1
    for _ in range(12):       # observed scalars + predicted samples (an all-sample triangle is outside the plots' domain)
        cells, desc = rand_triangle_cells(rng, n_slices=ns, small=True, for_plot=True)
        if desc["style"] == "mixed":
            break
    if not ctx.thorough:      # quick: two periods only (altair deep-copies the embedded data per layer)
        keep = sorted({c.period for c in cells})[:2]
        cells = [c for c in cells if c.period in keep]
    tri = Triangle(cells)
    case0 = {"cells": w_cells(tri.cells)}
    raised = {}
    for k, (name, kw) in enumerate(plot_option_combos()):
        if not ctx.thorough and name in HEAVY_PLOTS and (k + ctx.seed) % 3:
            continue          # quick: the three slowest chart builders with a rotating third of their combinations
        with warnings.catch_warnings():
            warnings.simplefilter("ignore")
            st, chart = call(lambda: getattr(tri, name)(**kw))
        ctx.evaluations += 1
        if st != "ok":
            raised[f"{name}({kw})"] = chart
            ctx.count(f"priming/{label}/raised")
            if name not in KNOWN_BROKEN_PLOTS and all(isinstance(v, bool) for v in kw.values()):
                # (judged for on/off presentation switches only: a Literal option such as "spaghetti" may legitimately
                # refuse a triangle without enough samples)
                # the property: EVERY supported plot method returns a chart (D27: plot_sunset(uncertainty=False) did not)
                ctx.fail(f"{name}({kw}): a supported plot method raised instead of returning a chart",
                         {"plot": name, "kwargs": kw, **case0}, {"error": chart})
            continue
        ctx.count(f"priming/{label}/chart built")
        with warnings.catch_warnings():
            warnings.simplefilter("ignore")
            st2, spec = call(lambda: chart.to_dict(validate=True))
        case = {"plot": name, "kwargs": kw, **case0}
        if st2 != "ok":
            ctx.fail(f"{name}({kw}): chart does not serialise to a valid Vega-Lite specification", case, spec)
        elif "vega-lite" not in str(spec.get("$schema")) or count_facets(spec) != len(tri.slices):
            ctx.fail(f"{name}({kw}): {count_facets(spec)} facets for {len(tri.slices)} slices / not Vega-Lite", case)
    if raised and not getattr(ctx, "_prime_noted", False):
        ctx._prime_noted = True
        ctx.notes.append(f"priming: option combinations that raise on this tree (not judged): {raised}")
    check_quantile_table(ctx, f"after the plot-option priming calls ({label})")


def rescale(v):
    """another value of the same kind, shape and dtype (exact: small integers / dyadics times 3 plus 1)"""
    if v is None:
        return None
    if isinstance(v, np.ndarray):
        return v * 3 + 1
    return v * 3 + 1


def keep_samples_problems(cells, recs):
    """build_plot_data(..., keep_samples=True): for a sample-valued metric the record's `metric` entry is the dict
    {0: first sample, 1: second, ...} of THAT cell's metric samples; scalar metrics keep a scalar"""
    bad = []
    if len(recs) != len(cells):
        return [("keep_samples=True: one record per cell", f"{len(recs)} records for {len(cells)} cells")]
    for i, (c, r) in enumerate(zip(cells, recs)):
        for name, (kind, f) in TABLE.items():
            v = r.get(name)
            if not isinstance(v, dict) or "snake_case_field" not in v:
                continue
            exp = expected_value(cells, c, kind, f)
            if exp is None:
                continue
            m = v.get("metric")
            if exp[0] == "s" or len(exp[1]) == 1:
                if isinstance(m, dict):
                    bad.append(("keep_samples=True: a scalar metric must stay a scalar", (i, name)))
                continue
            if not isinstance(m, dict):
                bad.append(("keep_samples=True: the metric entry of a sample-valued metric is the dict of its samples",
                            (i, name, type(m).__name__)))
                continue
            if list(m.keys()) != list(range(len(exp[1]))):
                bad.append(("keep_samples=True: sample dict keyed 0..n-1 in order", (i, name, list(m.keys())[:5])))
                continue
            try:
                got = [frac(x) for x in m.values()]
            except NonFinite:
                bad.append(("keep_samples=True: a kept sample is not finite", (i, name)))
                continue
            if not all(approx(a, b) for a, b in zip(got, exp[1])):
                bad.append(("keep_samples=True: the kept samples are the cell's own metric samples, in order", (i, name)))
    return bad


# ----------------------------------------------------------------------------------------------
# model vs implementation
# ----------------------------------------------------------------------------------------------

def compare_records(model, impl):
    """first difference between model and implementation records, or None"""
    if len(model) != len(impl):
        return f"{len(model)} model records vs {len(impl)}"
    for i, (m, r) in enumerate(zip(model, impl)):
        for k in ("ps", "pe", "ev", "fields"):
            if m[k] != r[k]:
                return f"record {i}: {k}"
        if not approx(rat(m["lag"]), rat(r["lag"])):
            return f"record {i}: dev_lag"
        if [x[0] for x in m["m"]] != [x[0] for x in r["m"]]:
            return f"record {i}: metric names {[x[0] for x in m['m']]} vs {[x[0] for x in r['m']]}"
        if "e" in m or "e" in r:
            me = [(x[0], x[1] is None) for x in m.get("e", [])]
            re_ = [(x[0], x[1] is None) for x in r.get("e", [])]
            if me != re_:
                return f"record {i}: summary slots (name, empty) {me} vs {re_}"
            if m.get("tt") != r.get("tt"):
                return f"record {i}: tooltip joined from {m.get('tt')} vs {r.get('tt')}"
        for (name, ms), (_, rs) in zip(m["m"], r["m"]):
            if [x[0] for x in ms["s"]] != [x[0] for x in rs["s"]]:
                return f"record {i} {name}: statistics present"
            for (st, mv), (_, rv) in zip(ms["s"], rs["s"]):
                a, b = rat(mv[1]), rat(rv[1])
                if mv[0] == "r":          # model: variance under a square root; implementation: sd
                    ok = b >= 0 and approx(a, b * b, 4 * TOL)
                else:
                    ok = approx(a, b)
                if not ok:
                    return f"record {i} {name}.{st}: model {float(a)} impl {float(b)}"
            if bool(ms["fc"]) != bool(rs["fc"]):
                # is_forecast = bool(sd): a variance that is exactly 0 vs a float sd that is 0.0
                if not (any(x[0] == "sd" for x in ms["s"])):
                    return f"record {i} {name}: is_forecast"
                var = [rat(x[1][1]) for x in ms["s"] if x[0] == "sd"][0]
                if var == 0 or not rs["fc"]:
                    return f"record {i} {name}: is_forecast"
    return None


# ----------------------------------------------------------------------------------------------
# plots
# ----------------------------------------------------------------------------------------------

def count_facets(spec):
    if "concat" in spec:
        return len(spec["concat"])
    if "hconcat" in spec or "vconcat" in spec:
        return len(spec.get("hconcat", spec.get("vconcat")))
    return 1


_PLOT_TRIS = []      # triangles of the current run; inherited by the forked workers


def _records_of(tri):
    """wire records of build_plot_data for the triangle and for each of its slices (the plot methods
    call build_plot_data per slice; the function is cached on the triangle's value)"""
    stat_fields = [f.name for f in dataclasses.fields(P.FieldSummary) if f.name not in STAT_FIELDS_SKIP]
    out = []
    parts = [tri] + ([Triangle(sl.cells) for sl in tri.slices.values()] if len(tri.slices) > 1 else [])
    for part in parts:
        with warnings.catch_warnings():
            warnings.simplefilter("ignore")
            recs = P.build_plot_data(Triangle(list(part.cells)))      # an EQUAL triangle, a new object
        out.append((part.cells, [rec_wire(r, stat_fields) for r in recs]))
    return out


def _sequence_problem(before, after):
    """SEQUENCE clause: after a plot method has run, build_plot_data on an equal triangle must still
    return one record per cell in cell order, the same records as before the plot"""
    for (cells, r0), (_, r1) in zip(before, after):
        bad = py_spec(cells, r1)
        if bad:
            return f"after the plot call build_plot_data violates: {bad[0][0]} {bad[0][1]}"
        if r0 != r1:
            return "build_plot_data returns different records after the plot call than before it"
    return None


def _plot_one(task):
    """build one chart in a worker process and validate it; returns a plain record"""
    ti, name = task
    tri = _PLOT_TRIS[ti]
    rec = {"ti": ti, "name": name, "status": "ok", "detail": None, "facets": None, "sequence": None}
    try:
        before = _records_of(tri)
    except Exception as e:  # noqa: BLE001
        before = None
        rec["sequence"] = f"build_plot_data raised before the plot call: {type(e).__name__}"
    rec = _plot_core(tri, name, rec)
    if before is not None and rec["status"] != "known-broken":
        try:
            rec["sequence"] = _sequence_problem(before, _records_of(tri))
        except Exception as e:  # noqa: BLE001
            rec["sequence"] = f"build_plot_data raised after the plot call: {type(e).__name__}: {str(e)[:200]}"
    return rec


def _plot_core(tri, name, rec):
    try:
        with warnings.catch_warnings():
            warnings.simplefilter("ignore")
            chart = getattr(tri, name)()
    except TypeError as e:
        if name in KNOWN_BROKEN_PLOTS and "X.title()" in str(e):
            rec.update(status="known-broken", detail=str(e)[:120])
        else:
            rec.update(status="raised", detail=f"{type(e).__name__}: {str(e)[:300]}")
        return rec
    except Exception as e:  # noqa: BLE001
        rec.update(status="raised", detail=f"{type(e).__name__}: {str(e)[:300]}")
        return rec
    try:
        with warnings.catch_warnings():
            warnings.simplefilter("ignore")
            spec = chart.to_dict(validate=True)
        json.dumps(spec, default=str)
    except Exception as e:  # noqa: BLE001
        rec.update(status="invalid", detail=f"{type(e).__name__}: {str(e)[:300]}")
        return rec
    if "$schema" not in spec or "vega-lite" not in str(spec["$schema"]):
        rec.update(status="not-vega-lite", detail=str(spec.get("$schema")))
        return rec
    rec["facets"] = count_facets(spec)
    if name in FACET_DATA_PLOTS:
        rec["facet_data"] = facet_data_problem(tri, spec)
    return rec


# plot methods whose facet embeds build_plot_data(slice): the facet's data must be that slice's records
FACET_DATA_PLOTS = {"plot_heatmap", "plot_data_completeness", "plot_atas", "plot_sunset", "plot_growth_curve",
                    "plot_ballistic", "plot_broom"}


def _first_values(sub):
    if isinstance(sub, dict):
        d = sub.get("data")
        if isinstance(d, dict) and "values" in d:
            return d["values"]
        for k in ("layer", "concat", "hconcat", "vconcat"):
            for x in sub.get(k, []):
                r = _first_values(x)
                if r is not None:
                    return r
    return None


def facet_data_problem(tri, spec, per_slice=1):
    """facet i (of `per_slice` consecutive charts per slice) carries one data record per cell of slice i, with
    that cell's period and evaluation date (`_build_metric_slice_charts`: one chart per slice, in slice order)"""
    subs = spec.get("concat") or spec.get("hconcat") or spec.get("vconcat") or [spec]
    slices = list(tri.slices.values())
    if len(subs) != per_slice * len(slices):
        return f"{len(subs)} charts for {len(slices)} slices x {per_slice} metrics"
    for j, sub in enumerate(subs):
        sl = slices[j // per_slice]
        vals = _first_values(sub)
        if vals is None:
            return f"facet {j} embeds no data"
        try:
            got = sorted((str(x["period_start"])[:10], str(x["period_end"])[:10], str(x["evaluation_date"])[:10]) for x in vals)
        except (KeyError, TypeError) as e:
            return f"facet {j}: data records without coordinates ({type(e).__name__})"
        want = sorted((str(c.period_start), str(c.period_end), str(c.evaluation_date)) for c in sl.cells)
        if got != want:
            return (f"facet {j} does not show the records of slice {j // per_slice}: {len(got)} records for "
                    f"{len(want)} cells" if len(got) != len(want) else
                    f"facet {j} shows records of other cells than those of slice {j // per_slice}")
    return None


def plot_checks(ctx, rng):
    import multiprocessing as mp

    names = sorted(n for n in dir(Triangle) if n.startswith("plot_"))
    n_tri = 12 if ctx.thorough else 6
    slices_plan = [1, 2, 3, 1, 2, 3, 2, 3, 1, 2, 3, 2][:n_tri]
    excluded, supported_seen = {}, set()
    _PLOT_TRIS.clear()
    for ns in slices_plan:
        cells, desc = rand_triangle_cells(rng, n_slices=ns, small=True, for_plot=True)
        _PLOT_TRIS.append(Triangle(cells))
    tasks = []
    for ti in range(n_tri):
        for name in names:
            if not ctx.thorough and name in HEAVY_PLOTS and ti in (3, 5):
                continue      # quick tier: the three slowest chart builders run on 4 of the 6 triangles
            tasks.append((ti, name))
    # heaviest first, one chart per task, forked workers (the charts are independent)
    order = sorted(range(len(tasks)), key=lambda i: (tasks[i][1] not in HEAVY_PLOTS, -len(_PLOT_TRIS[tasks[i][0]].slices), i))
    jobs = int(os.environ.get("VERIF_JOBS", "0") or 0) or max(1, min(8, (os.cpu_count() or 2) // 2))
    if jobs > 1:
        with mp.get_context("fork").Pool(jobs) as pool:
            done = pool.map(_plot_one, [tasks[i] for i in order], chunksize=1)
            pool.close()
            pool.join()      # let the workers exit normally (a terminated worker loses e.g. coverage data)
    else:
        done = [_plot_one(tasks[i]) for i in order]
    recs = [None] * len(tasks)
    for i, r in zip(order, done):
        recs[i] = r
    # the facet count a chart must have is the MODEL's slice count of the triangle (Triangle.slices), not the
    # library's own `len(tri.slices)`
    outs = common.Driver("drv_c20").run([{"cells": w_cells(t.cells), "impl": None} for t in _PLOT_TRIS])
    model_slices = [o["nSlices"] for o in outs]
    for rec in recs:
        ti, name = rec["ti"], rec["name"]
        tri = _PLOT_TRIS[ti]
        ns_real = model_slices[ti]
        if len(tri.slices) != ns_real:
            ctx.disagree("number of slices", {"cells": w_cells(tri.cells)}, ns_real, len(tri.slices))
        case = {"plot": name, "cells": w_cells(tri.cells)}
        st = rec["status"]
        if st == "known-broken":
            excluded[name] = rec["detail"]
            continue
        if rec.get("sequence"):
            ctx.fail(f"sequence: {name} then build_plot_data — {rec['sequence']}", case)
        if st == "raised":
            ctx.fail(f"{name} raised {rec['detail'].split(':')[0]}", case, rec["detail"])
            continue
        supported_seen.add(name)
        if st == "invalid":
            ctx.fail(f"{name}: chart does not serialise to a valid Vega-Lite specification", case, rec["detail"])
            continue
        if st == "not-vega-lite":
            ctx.fail(f"{name}: serialised chart is not a Vega-Lite specification", case, rec["detail"])
            continue
        nf = rec["facets"]
        if nf != ns_real:
            ctx.fail(f"{name}: {nf} facets for {ns_real} slices", case)
        elif rec.get("facet_data"):
            ctx.fail(f"{name}: one facet per slice — {rec['facet_data']}", case)
        ctx.count(f"plot/{name}")
        ctx.case(digest=json.dumps([name, case["cells"]], sort_keys=True), nontrivial=True,
                 sample={"plot": name, "slices": ns_real, "facets": nf} if ti == 0 and name == "plot_heatmap" else None)
    # in this process (no worker): the cheapest chart builders on the first 1-slice and 2-slice triangle, with one
    # and with two metrics (two metrics: one chart per slice and metric, slice-major)
    for ti in (0, 1):
        tri = _PLOT_TRIS[ti]
        for name, kw, per in (("plot_data_completeness", {}, 1), ("plot_heatmap", {}, 1),
                              ("plot_heatmap", {"metric_spec": ["Paid Loss Ratio", "Reported Loss"]}, 2)):
            with warnings.catch_warnings():
                warnings.simplefilter("ignore")
                st, spec = call(lambda: getattr(tri, name)(**kw).to_dict(validate=True))
            case = {"plot": name, "kwargs": kw, "cells": w_cells(tri.cells)}
            ctx.count(f"plot/in-process/{name}/{per}-metric/{len(tri.slices)}-slice")
            ctx.evaluations += 1
            if st != "ok":
                ctx.fail(f"{name}({kw}) raised {spec}", case)
                continue
            prob = facet_data_problem(tri, spec, per)
            if prob:
                ctx.fail(f"{name}: one facet per slice — {prob}", case)
        # caller-supplied facet titles (plot.py:1698-1699): title i goes to the facet of slice i
        titles = [f"facet-{k}" for k in range(len(tri.slices))]
        with warnings.catch_warnings():
            warnings.simplefilter("ignore")
            st, spec = call(lambda: tri.plot_data_completeness(facet_titles=titles).to_dict(validate=True))
        case = {"plot": "plot_data_completeness", "kwargs": {"facet_titles": titles}, "cells": w_cells(tri.cells)}
        ctx.count(f"plot/in-process/facet_titles/{len(tri.slices)}-slice")
        ctx.evaluations += 1
        if st != "ok":
            ctx.fail(f"plot_data_completeness(facet_titles=...) raised {spec}", case)
        else:
            prob = facet_data_problem(tri, spec, 1)
            subs = spec.get("concat") or [spec]
            got = [(x.get("title") or {}).get("text") if isinstance(x.get("title"), dict) else x.get("title") for x in subs]
            # (a single chart is not concatenated: its title is replaced by the figure title)
            if prob or (len(titles) > 1 and got != titles):
                ctx.fail("plot_data_completeness(facet_titles): one facet per slice, titled in slice order — "
                         f"{prob or got}", case)
    ctx.notes.append(f"plot methods checked: {sorted(supported_seen)}")
    ctx.notes.append("plot methods EXCLUDED (fail on the unchanged tree, altair API: "
                     f"X.title() positional+keyword): {excluded}")
    for name in KNOWN_BROKEN_PLOTS - set(excluded):
        if name in supported_seen:
            ctx.notes.append(f"{name} works on this tree and was checked")


# ----------------------------------------------------------------------------------------------

def correspondence(ctx):
    rng = ctx.rng
    drv = common.Driver("drv_c20")
    n = 3000 if ctx.thorough else 200
    stat_fields = [f.name for f in dataclasses.fields(P.FieldSummary) if f.name not in STAT_FIELDS_SKIP]
    reqs, cases = [], []
    import time
    t_start = time.time()
    check_quantile_table(ctx, "at the start of the run")
    for i in range(n):
        if i == 6 or (ctx.thorough and i % 400 == 6):
            # from here on every build_plot_data call is judged AFTER plot entry points ran with non-default options
            prime_with_plot_options(ctx, rng, f"before case {i}")
        if i == 8 or (ctx.thorough and i % 150 == 8):
            # 1000 posterior draws per cell on a small one-slice triangle. The compiled model needs ~4 s per such
            # cell (exact rationals), so these records are judged by the stdlib re-statement only (py_spec:
            # percentiles recomputed with fractions), not sent to the driver
            cells, desc = rand_triangle_cells(rng, n_slices=1, force_samples=1000)
            cells = cells[:5]          # any subset of cells is a valid triangle; keeps the exact re-statement fast
        elif i == 12 or (ctx.thorough and i % 150 == 12):
            cells, desc = rand_triangle_cells(rng, n_slices=rng.choice([1, 2]), force_samples=200)
            cells = cells[:10]
        else:
            cells, desc = rand_triangle_cells(rng, small=ctx.thorough and rng.random() < 0.5)
        tri = Triangle(cells)
        wire = w_cells(tri.cells)
        for k, v in desc.items():
            ctx.count(f"data/{k}={v}")
        with warnings.catch_warnings():
            warnings.simplefilter("ignore")
            st, recs = call(P.build_plot_data, tri)
        case = {"cells": wire}
        ctx.case(digest=json.dumps(wire, sort_keys=True), nontrivial=len(cells) > 1,
                 sample={"op": "build_plot_data", "n_cells": len(cells), **desc})
        if st == "err":
            ctx.fail(f"build_plot_data raised {recs} on a valid triangle", case)
            continue
        try:
            impl = [rec_wire(r, stat_fields) for r in recs]
        except NonFinite as e:
            ctx.fail("a summary statistic is not finite", case, str(e))
            continue
        for clause, detail in py_spec(tri.cells, impl)[:3]:
            ctx.fail(clause, case, {"where": detail, "impl": impl})
        if i % 4 == 0:
            # SEQUENCE: the same call again, on an equal triangle built anew (cache hit) and after a
            # priming call with other options, must describe the same cells in the same order
            with warnings.catch_warnings():
                warnings.simplefilter("ignore")
                call(P.build_plot_data, tri, None, True, True)                      # flat=True priming call
                st2, recs2 = call(P.build_plot_data, Triangle(list(tri.cells)))
            ctx.count("data/sequence-second-call")
            try:
                impl2 = [rec_wire(r, stat_fields) for r in recs2] if st2 == "ok" else None
            except NonFinite:
                impl2 = None
            if impl2 != impl:
                ctx.fail("sequence: a second build_plot_data call on an equal triangle returns different records",
                         case, {"first": impl, "second": impl2})
        to_model = desc["n_samples"] <= 200
        if to_model:
            reqs.append({"cells": wire, "impl": impl, "tol": common.w_rat(TOL)})
            cases.append((case, impl))
        else:
            ctx.count("data/1000 samples: stdlib re-statement only (not sent to the model)")
        # OPTIONS as a regular part of the stream: remove_empties x flat x keep_samples (every third
        # triangle with a random combination; remove_empties=False in two of three)
        if i % 3 == 0:
            opt = {"remove_empties": rng.random() < 0.34, "flat": rng.random() < 0.3, "keep_samples": rng.random() < 0.3}
            option_case(ctx, tri, wire, impl, opt, stat_fields, reqs if to_model else None, cases)
        if i % 4 == 0:
            # keep_samples=True (plot.py:85-86): the `metric` entry becomes {index: sample}; every statistic stays
            with warnings.catch_warnings():
                warnings.simplefilter("ignore")
                st3, recs3 = call(P.build_plot_data, tri, None, True, False, True)
            ctx.count("data/sequence-keep_samples")
            if st3 == "err":
                ctx.fail(f"build_plot_data(keep_samples=True) raised {recs3}", case)
            else:
                try:
                    impl3 = [rec_wire(r, stat_fields) for r in recs3]
                except NonFinite:
                    impl3 = None
                if impl3 != impl:
                    ctx.fail("keep_samples=True changes the records' coordinates or statistics", case,
                             {"keep_samples=False": impl, "keep_samples=True": impl3})
                for clause, detail in keep_samples_problems(tri.cells, recs3)[:3]:
                    ctx.fail(clause, case, detail)
            # SEQUENCE: a DIFFERENT triangle with the same coordinates and the same sample counts (every value
            # rescaled: a re-run forecast) in the same process; its records are checked like any other case
            twin = [c.replace(values={k: rescale(v) for k, v in c.values.items()}) for c in tri.cells]
            tri2 = Triangle(twin)
            wire2 = w_cells(tri2.cells)
            with warnings.catch_warnings():
                warnings.simplefilter("ignore")
                st4, recs4 = call(P.build_plot_data, tri2)
            case2 = {"cells": wire2, "after build_plot_data on": wire}
            ctx.count("data/sequence-rescaled-twin")
            ctx.case(digest=json.dumps(wire2, sort_keys=True), nontrivial=len(cells) > 1, sample=None)
            if st4 == "err":
                ctx.fail(f"build_plot_data raised {recs4} on a valid triangle (second triangle of the process "
                         "with the same coordinates)", case2)
                continue
            try:
                impl4 = [rec_wire(r, stat_fields) for r in recs4]
            except NonFinite as e:
                ctx.fail("a summary statistic is not finite", case2, str(e))
                continue
            for clause, detail in py_spec(tri2.cells, impl4)[:3]:
                ctx.fail("sequence (second triangle, same coordinates, other values): " + clause, case2,
                         {"where": detail, "impl": impl4})
            if to_model:
                reqs.append({"cells": wire2, "impl": impl4, "tol": common.w_rat(TOL)})
                cases.append((case2, impl4))
    t_loop = time.time()
    ctx.notes.append(f"timing: implementation + stdlib re-statement {t_loop - t_start:.1f}s")
    outs = drv.run(reqs)
    t_drv = time.time()
    ctx.notes.append(f"timing: driver {t_drv - t_loop:.1f}s for {len(reqs)} requests")
    for (case, impl), out in zip(cases, outs):
        spec = out["spec"]
        if spec is not None and not all(spec.values()):
            ctx.fail("Lean Spec on the implementation's records: " +
                     ", ".join(k for k, v in spec.items() if not v), case, {"impl": impl})
        if not out["specModel"]:
            ctx.disagree("the model's own output does not satisfy the Spec (model or table drift)", case,
                         out["model"], impl)
        diff = compare_records(out["model"], impl)
        if diff:
            ctx.disagree("build_plot_data records: " + diff, case, out["model"], impl)
    t_cmp = time.time()
    plot_checks(ctx, rng)
    ctx.notes.append(f"timing: plot checks {time.time() - t_cmp:.1f}s")
    # END of the run: the live quantile levels, and the table the translator would write NOW, must still be what
    # the theorems were proved against at the start (Generated/Plot.lean)
    check_quantile_table(ctx, "at the end of the run")
    try:
        import translate
        body = translate.SECTIONS["Plot"]()
        on_disk = open(os.path.join(translate.GEN_DIR, "Plot.lean")).read()
        if body.strip() not in on_disk:
            ctx.fail("the plot tables regenerated at the END of the run differ from Generated/Plot.lean written at its "
                     "start (a table of the library was mutated during the run)", {"when": "end of run"},
                     {"regenerated now": body.strip()[:600]})
    except (ImportError, KeyError, OSError) as e:
        ctx.notes.append(f"end-of-run table comparison not possible: {e!r}")


if __name__ == "__main__":
    common.run_check(
        "C20", module="Bermuda.Properties.C20", driver_targets=["drv_c20"],
        correspondence=correspondence, level="proof", extra_translate=translate_c20.regenerate,
        rule="random triangles with the standard loss/premium fields (+ sometimes reported_claims / incurred_loss): "
             "scalar, sample (2-11 samples) or mixed observed/predicted; 1-3 slices with different or shared layouts; "
             "regular, ragged and day-level; cells lacking premium / a loss field / holding None / a Python zero premium / "
             "a length-1 sample; three cell classes. Each triangle: build_plot_data vs model, Lean Spec and the stdlib "
             "re-statement on the implementation's records; every third triangle once more with a random combination of the "
             "options remove_empties / flat / keep_samples (model buildPlotDataOpt, Spec incl. summary slots and tooltip "
             "sources, key set = core keys + every metric name for remove_empties=False). Plus every plot method that works on the unchanged tree x "
             "6 triangles (12 thorough): to_dict(validate=True) and facet count. distinct = canonical input dump",
        assumptions=["ORACLE for the statistics: the harness recomputes mean, median, population sd (through its square), "
                     "min, max and every named percentile with `fractions` from their textbook characterisations "
                     "(py_spec / percentile: order statistics of the sorted sample, linear interpolation between the two "
                     "neighbours of the virtual index p*(n-1)) and judges the IMPLEMENTATION's numbers by them; the Lean "
                     "functions used by Spec.statOf are tied to the same characterisations by theorems "
                     "(order_statistics, sortRat_unique, quantile_at_grid, quantile_between, quantile_zero/_one, "
                     "median_eq_quantile_half, minimum_is_least, maximum_is_greatest, mean_mul_length, variance_pair, "
                     "variance_eq_mean_sq)",
                     "1-D sample arrays; no zero divisor inside a numpy array (numpy yields inf/nan instead of raising)",
                     "cells of one triangle are pairwise distinct (field_summaries is a dict keyed by the cell)",
                     "plots: scalar or mixed observed/predicted triangles (an all-sample triangle makes "
                     "_remove_triangle_samples return an empty triangle and several plot methods raise IndexError)"],
        trusted=["numpy quantile/median/std conventions as modelled (linear interpolation, population sd)",
                 "harness/translate_c20.py (metric lambdas -> MExpr, regenerated under the build lock each run)",
                 "altair's bundled Vega-Lite JSON schema and jsonschema validation (chart validity is correspondence only)",
                 "sd: the square root is outside the model; compared numerically through its square"],
    )
