"""Shared machinery of the checks: paths, lake build + axiom audit, driver invocation,
wire conversion (bermuda objects -> exact JSON), evidence, verdict and replay handling.

Only /repo (the implementation under test) and /venv/bin/python are absolute; every other
path is relative to this file so that a snapshot of /verif elsewhere works.
"""
from __future__ import annotations

import datetime
import fcntl
import hashlib
import json
import os
import random
import re
import shutil
import subprocess
import sys
import tempfile
import time
import traceback
from fractions import Fraction

HERE = os.path.dirname(os.path.abspath(__file__))
ROOT = os.path.dirname(HERE)
LEAN = os.path.join(ROOT, "lean")
REPO = os.environ.get("VERIF_REPO", "/repo")
EVIDENCE = os.path.join(ROOT, "evidence")
REPLAYS = os.path.join(ROOT, "replays")
KNOWN = os.path.join(ROOT, "known_findings.json")
GUARD = "BERMUDA_LEDGER_VERIF"

os.environ[GUARD] = "1"
if REPO not in sys.path:
    sys.path.insert(0, REPO)

ALLOWED_AXIOMS = {"propext", "Classical.choice", "Quot.sound"}
FORBIDDEN_RE = re.compile(
    r"\bsorry\b|\badmit\b|^\s*axiom\s|native_decide|bv_decide|implemented_by|\bunsafe\s|maxHeartbeats\s+0\b"
)


class Infra(Exception):
    """infrastructure failure (exit 2), never a VIOLATION"""


# --------------------------------------------------------------------------------------
# lake / lean
# --------------------------------------------------------------------------------------

def _lock():
    os.makedirs(os.path.join(LEAN, ".lake"), exist_ok=True)
    f = open(os.path.join(LEAN, ".lake", "verif.lock"), "w")
    fcntl.flock(f, fcntl.LOCK_EX)
    return f


def lake_build(targets, timeout=3000, locked=False):
    """returns (ok, log, seconds). Serialised with flock: several checks may run in parallel
    (`locked=True`: the caller already holds the lock)."""
    lk = None if locked else _lock()
    try:
        t0 = time.time()
        p = subprocess.run(
            ["lake", "build", *targets], cwd=LEAN, capture_output=True, text=True, timeout=timeout
        )
        log = p.stdout + p.stderr
        return p.returncode == 0, log, time.time() - t0
    finally:
        if lk is not None:
            lk.close()


def strip_comments(src: str) -> str:
    # remove /- ... -/ (nested) and -- ... comments
    out, i, depth, n = [], 0, 0, len(src)
    while i < n:
        if src.startswith("/-", i):
            depth += 1
            i += 2
        elif depth and src.startswith("-/", i):
            depth -= 1
            i += 2
        elif depth:
            if src[i] == "\n":
                out.append("\n")
            i += 1
        elif src.startswith("--", i):
            while i < n and src[i] != "\n":
                i += 1
        else:
            out.append(src[i])
            i += 1
    return "".join(out)


def module_closure(mod: str):
    """Bermuda.* modules reachable from `mod` by `import` lines (our own sources only)."""
    seen, todo = [], [mod]
    while todo:
        m = todo.pop()
        if m in seen:
            continue
        path = os.path.join(LEAN, *m.split(".")) + ".lean"
        if not os.path.exists(path):
            continue
        seen.append(m)
        for line in open(path):
            mm = re.match(r"\s*(?:public\s+)?import\s+(Bermuda\.[A-Za-z0-9_.]+)", line)
            if mm:
                todo.append(mm.group(1))
    return seen


def grep_forbidden(mod: str):
    hits = []
    for m in module_closure(mod):
        path = os.path.join(LEAN, *m.split(".")) + ".lean"
        src = strip_comments(open(path).read())
        for ln, line in enumerate(src.split("\n"), 1):
            if FORBIDDEN_RE.search(line):
                hits.append(f"{m}:{ln}: {line.strip()}")
    return hits


AUDIT_TMPL = """import Lean
import {mod}
open Lean Elab Command
run_cmd do
  let env ← getEnv
  let some idx := env.getModuleIdx? `{mod} | throwError "module not found"
  for n in env.header.moduleData[idx.toNat]!.constNames do
    if let some (.thmInfo _) := env.find? n then
      if n.isInternalDetail then continue
      let axs ← collectAxioms n
      IO.println s!"THEOREM {{n}} AXIOMS {{axs.toList}}"
"""


def audit(mod: str):
    """list of (theorem, [axioms]) for every theorem declared in module `mod`."""
    src = AUDIT_TMPL.format(mod=mod)
    with tempfile.NamedTemporaryFile("w", suffix=".lean", dir=LEAN, delete=False) as f:
        f.write(src)
        path = f.name
    try:
        p = subprocess.run(
            ["lake", "env", "lean", path], cwd=LEAN, capture_output=True, text=True, timeout=1200
        )
    finally:
        os.unlink(path)
    res = []
    for line in p.stdout.splitlines():
        m = re.match(r"THEOREM (\S+) AXIOMS \[(.*)\]", line)
        if m and m.group(1).startswith(mod + "."):
            # only the module's own namespace (skips equation lemmas generated for imported defs)
            axs = [a.strip() for a in m.group(2).split(",") if a.strip()]
            res.append((m.group(1), axs))
    if p.returncode != 0 or not res:
        raise Infra(f"axiom audit of {mod} failed:\n{p.stdout}\n{p.stderr}")
    return res


def open_statements(mod: str):
    """statements kept visible but not proved: lines `-- OPEN <name>` in the property file."""
    path = os.path.join(LEAN, *mod.split(".")) + ".lean"
    return re.findall(r"^\s*--\s*OPEN\s+(\S+)", open(path).read(), flags=re.M)


class Driver:
    """compiled Lean model driver `drv_<id>`: one JSON request per line in, one answer out."""

    def __init__(self, name):
        self.name = name
        self.exe = os.path.join(LEAN, ".lake", "build", "bin", name)

    def run(self, requests, timeout=3000):
        if not requests:
            return []
        if not os.path.exists(self.exe):
            raise Infra(f"driver {self.exe} missing (build failed?)")
        with tempfile.TemporaryDirectory(prefix="verif-") as td:
            inp = os.path.join(td, "in.jsonl")
            with open(inp, "w") as f:
                for r in requests:
                    f.write(json.dumps(r, separators=(",", ":")))
                    f.write("\n")
            with open(inp) as fin:
                p = subprocess.run([self.exe], stdin=fin, capture_output=True, text=True, timeout=timeout)
            if p.returncode != 0:
                raise Infra(f"driver {self.name} exited {p.returncode}: {p.stderr[-2000:]}")
            outs = [json.loads(line) for line in p.stdout.splitlines() if line.strip()]
        if len(outs) != len(requests):
            raise Infra(f"driver {self.name}: {len(requests)} requests, {len(outs)} answers")
        for r, o in zip(requests, outs):
            if isinstance(o, dict) and "protocol_error" in o:
                raise Infra(f"driver {self.name} protocol error {o['protocol_error']} on {json.dumps(r)[:600]}")
        return outs


# --------------------------------------------------------------------------------------
# wire conversion: bermuda objects -> exact JSON (see lean/Bermuda/Model/Json.lean)
# --------------------------------------------------------------------------------------

def w_rat(x) -> str:
    fr = Fraction(x)
    return str(fr.numerator) if fr.denominator == 1 else f"{fr.numerator}/{fr.denominator}"


def w_date(d):
    return None if d is None else [d.year, d.month, d.day]


def w_val(v):
    import numpy as np

    if v is None:
        return None
    if isinstance(v, np.ndarray):
        is_int = v.dtype.kind in "iub"
        flat = v.reshape(-1).tolist()
        return ["a", bool(is_int), list(v.shape), [w_rat(x) for x in flat]]
    if isinstance(v, (bool, np.bool_)):
        return ["i", int(v)]
    if isinstance(v, (int, np.integer)):
        return ["i", int(v)]
    if isinstance(v, (float, np.floating)):
        return ["f", w_rat(float(v))]
    raise Infra(f"unsupported cell value {type(v)}")


def w_mval(v):
    import numpy as np

    if v is None:
        return None
    if isinstance(v, str):
        return ["s", v]
    if isinstance(v, datetime.date):
        return ["d", w_date(v)]
    if isinstance(v, (bool, int, float, np.integer, np.floating, np.bool_)):
        return ["n", w_rat(v)]
    raise Infra(f"unsupported metadata value {type(v)}")


def w_meta(m):
    return {
        "rb": m.risk_basis,
        "co": m.country,
        "cu": m.currency,
        "re": m.reinsurance_basis,
        "ld": m.loss_definition,
        "lim": None if m.per_occurrence_limit is None else w_rat(m.per_occurrence_limit),
        "det": [[k, w_mval(m.details[k])] for k in sorted(m.details)],
        "ldet": [[k, w_mval(m.loss_details[k])] for k in sorted(m.loss_details)],
    }


def w_kind(c):
    n = type(c).__name__
    return {"Cell": "C", "CumulativeCell": "U", "IncrementalCell": "I"}[n]


def w_cell(c):
    return {
        "k": w_kind(c),
        "ps": w_date(c.period_start),
        "pe": w_date(c.period_end),
        "ev": w_date(c.evaluation_date),
        "prev": w_date(getattr(c, "prev_evaluation_date", None)),
        "v": [[k, w_val(v)] for k, v in c.values.items()],
        "m": w_meta(c.metadata),
    }


def w_cells(cells):
    return [w_cell(c) for c in cells]


def canon_cell(wc, sort_values=True):
    """order-insensitive form of a wire cell (values dict order is not part of most properties)"""
    d = dict(wc)
    if sort_values:
        d["v"] = sorted(d["v"], key=lambda kv: kv[0])
    return d


def err_name(e: BaseException) -> str:
    n = type(e).__name__
    known = {"TriangleError", "ValueError", "TypeError", "KeyError", "IndexError"}
    if n in known:
        return n
    for base in type(e).__mro__:
        if base.__name__ in known:
            return base.__name__
    return "Other"


def call(fn, *a, **k):
    """('ok', result) or ('err', class name)"""
    try:
        return ("ok", fn(*a, **k))
    except Exception as e:  # noqa: BLE001
        return ("err", err_name(e))


def shrink_list(items, still_fails, max_rounds=6):
    """greedy one-at-a-time removal (ddmin-lite): smallest sub-list (order kept) for which
    `still_fails(sublist)` is true. `still_fails` must be side-effect free."""
    cur = list(items)
    for _ in range(max_rounds):
        changed = False
        i = 0
        while i < len(cur) and len(cur) > 1:
            cand = cur[:i] + cur[i + 1:]
            try:
                bad = still_fails(cand)
            except Exception:  # noqa: BLE001
                bad = False
            if bad:
                cur, changed = cand, True
            else:
                i += 1
        if not changed:
            break
    return cur


# --------------------------------------------------------------------------------------
# known findings
# --------------------------------------------------------------------------------------

def known_findings(prop):
    if not os.path.exists(KNOWN):
        return []
    data = json.load(open(KNOWN))
    return [e for e in data.get("findings", []) if e["property"] == prop and e.get("status") == "known"]


# --------------------------------------------------------------------------------------
# the check runner
# --------------------------------------------------------------------------------------

class Ctx:
    def __init__(self, prop, tier, seed):
        self.prop = prop
        self.tier = tier
        self.seed = seed
        self.rng = random.Random(seed * 1000003 + int(hashlib.sha1(prop.encode()).hexdigest()[:6], 16))
        self.evaluations = 0
        self.nontrivial = set()
        self.samples = []
        self.hist = {}
        self.spec_failures = []      # property false on an implementation output (failing inputs)
        self.disagreements = []      # model != implementation while spec holds / not decidable
        self.known_hits = {}
        self.notes = []
        self.thorough = tier == "thorough"
        self.exhaustive = False
        try:
            self._listed = {e.get("id") for e in known_findings(prop)}
        except Exception:  # noqa: BLE001
            self._listed = set()

    def count(self, key, n=1):
        self.hist[key] = self.hist.get(key, 0) + n

    def case(self, digest=None, nontrivial=True, sample=None):
        self.evaluations += 1
        if nontrivial and digest is not None:
            self.nontrivial.add(digest if isinstance(digest, (str, int)) else hashlib.sha1(
                json.dumps(digest, sort_keys=True, default=str).encode()).hexdigest())
        if sample is not None and len(self.samples) < 4:
            self.samples.append(sample)

    def fail(self, clause, case, detail=None):
        self.spec_failures.append({"clause": clause, "case": case, "detail": detail})

    def disagree(self, observable, case, model=None, impl=None):
        self.disagreements.append({"observable": observable, "case": case, "model": model, "impl": impl})

    def known(self, finding_id, what, case=None):
        """a failing input that matches the signature of a finding LISTED in known_findings.json
        (status known). If the id is not listed there, it is an ordinary violation."""
        if finding_id in self._listed:
            self.known_hits.setdefault(finding_id, what)
        else:
            self.fail(f"unlisted finding {finding_id}: {what}", case)


def write_replay(prop, seed, payload, tag="v"):
    os.makedirs(REPLAYS, exist_ok=True)
    path = os.path.join(REPLAYS, f"{prop}-{seed}-{tag}.json")
    with open(path, "w") as f:
        json.dump(payload, f, indent=1, default=str)
    return os.path.relpath(path, ROOT)


def write_evidence(prop, payload):
    os.makedirs(EVIDENCE, exist_ok=True)
    path = os.path.join(EVIDENCE, f"{prop}.json")
    with open(path, "w") as f:
        json.dump(payload, f, indent=1, default=str)


def run_check(prop, *, module, driver_targets, correspondence, translate=True, level="proof",
              trusted=None, assumptions=None, rule="", search=None, extra_translate=None):
    """Flow of DESIGN §3.3. `correspondence(ctx)` runs implementation and model on generated
    inputs and records spec failures / disagreements in ctx. `search(ctx)` (default: the
    correspondence at thorough size) is the failing-input search used when a proof obligation or
    the correspondence no longer checks."""
    tier = os.environ.get("VERIF_TIER") or (sys.argv[2] if len(sys.argv) > 2 else "quick")
    if tier not in ("quick", "thorough"):
        tier = "quick"
    seed = int(os.environ.get("VERIF_SEED", "0") or 0)
    t0 = time.time()
    ctx = Ctx(prop, tier, seed)
    # the level recorded in the evidence is the one CLAIMED in MANIFEST.json (single source of truth)
    try:
        for c in json.load(open(os.path.join(ROOT, "MANIFEST.json")))["checks"]:
            if c["property_id"] == prop:
                level = c["level_claimed"]["category"]
    except Exception:  # noqa: BLE001
        pass
    try:
        # 1.-3. under ONE lock (several checks may run in parallel and share lean/): translator
        # (tables regenerated from /repo's current source), build of model + driver, build of the
        # property file, axiom audit, and (thorough) the independent leanchecker re-check.
        gen_note = None
        lk = _lock()
        try:
            if translate:
                from translate import regenerate
                gen_note = regenerate()
            if extra_translate is not None:
                extra_translate()
            ok_drv, log_drv, _ = lake_build(driver_targets, locked=True)
            if not ok_drv:
                raise Infra("model/driver build failed:\n" + log_drv[-4000:])
            modules = [module] if isinstance(module, str) else list(module)
            module = modules[0]
            ok_prop, log_prop, build_s = lake_build(modules, locked=True)
            theorems, bad_axioms, forbidden = [], [], []
            if ok_prop:
                for m_ in modules:
                    theorems += audit(m_)
                    forbidden += grep_forbidden(m_)
                bad_axioms = [(t, [a for a in axs if a not in ALLOWED_AXIOMS]) for t, axs in theorems]
                bad_axioms = [(t, a) for t, a in bad_axioms if a]
            opens = [o for m_ in modules for o in open_statements(m_)]
            if ctx.thorough and ok_prop:
                p = subprocess.run(["lake", "env", "leanchecker", *modules], cwd=LEAN, capture_output=True,
                                   text=True, timeout=3000)
                ctx.notes.append(f"leanchecker {' '.join(modules)}: exit {p.returncode}")
                if p.returncode != 0:
                    ok_prop = False
                    log_prop += "\nleanchecker:\n" + p.stdout[-2000:] + p.stderr[-2000:]
        finally:
            lk.close()
        proof_ok = ok_prop and not bad_axioms and not forbidden
        # 3. correspondence
        correspondence(ctx)
        # 4. a broken obligation or correspondence triggers the failing-input search
        searched = False
        if (not proof_ok or ctx.disagreements) and not ctx.spec_failures:
            searched = True
            sctx = Ctx(prop, "thorough", seed + 7919)
            sctx.thorough = True
            (search or correspondence)(sctx)
            ctx.spec_failures.extend(sctx.spec_failures)
            ctx.evaluations += sctx.evaluations
            ctx.nontrivial |= sctx.nontrivial
            for k, v in sctx.known_hits.items():
                ctx.known_hits.setdefault(k, v)
        wall = time.time() - t0
        # 5. verdict
        lines, violations = [], 0
        for fid, what in ctx.known_hits.items():
            lines.append(f"KNOWN-FINDING: property={prop} {what}")
        replay = None
        if ctx.spec_failures:
            violations = len(ctx.spec_failures)
            replay = write_replay(prop, seed, {
                "property": prop, "kind": "failing-input", "seed": seed, "tier": tier,
                "failures": ctx.spec_failures[:5],
                "broken_obligation": None if proof_ok else log_prop[-3000:],
            })
            lines.append(f"VIOLATION property={prop} replay={replay}")
        elif not proof_ok or ctx.disagreements:
            violations = 1
            what = {}
            if not ok_prop:
                m = re.findall(r"error: ([^\n]*)", log_prop)
                what["theorem_or_file"] = module
                what["build_errors"] = m[:10]
                what["log_tail"] = log_prop[-3000:]
            if bad_axioms:
                what["axioms_outside_allowed_set"] = bad_axioms
            if forbidden:
                what["forbidden_constructs"] = forbidden
            if ctx.disagreements:
                what["correspondence"] = ctx.disagreements[:5]
            replay = write_replay(prop, seed, {
                "property": prop, "kind": "no-failing-input-found", "seed": seed, "tier": tier,
                "no_longer_checks": what, "search_evaluations": ctx.evaluations,
            }, tag="nf")
            lines.append(f"VIOLATION property={prop} replay={replay} no-failing-input-found")
        obligations = len(theorems) + len(opens)
        cov = {
            "obligations": obligations,
            "discharged": len(theorems) - len(bad_axioms) if proof_ok or theorems else 0,
            "open_statements": opens,
            "theorems": [t for t, _ in theorems],
            "axioms_used": sorted({a for _, axs in theorems for a in axs}),
            "checker_cmd": f"cd lean && lake build {' '.join(modules)} && lake env lean <audit: #print axioms on every theorem of {' '.join(modules)}>"
                           + (f" && lake env leanchecker {' '.join(modules)}" if ctx.thorough else ""),
            "trusted_base": (trusted or []) + [
                "Lean 4.33 kernel", "axioms: propext, Classical.choice, Quot.sound only (audited each run)",
                "harness/translate.py (tables regenerated from /repo each run)",
                "differential correspondence harness (generator quality bounds what it sees)"],
            "programs": ctx.evaluations,
            "evaluations": ctx.evaluations,
            "distinct_nontrivial": len(ctx.nontrivial),
            "disagreements_checked": len(ctx.disagreements) + len(ctx.spec_failures),
            "rule": rule,
            "samples": ctx.samples[:4] or ["<none>"],
            "input_distribution": dict(sorted(ctx.hist.items())),
            "build_s": round(build_s, 1),
            "generated_tables": gen_note,
            "failing_input_search_ran": searched,
            "notes": ctx.notes,
            "exhaustive": bool(getattr(ctx, "exhaustive", False)),
        }
        write_evidence(prop, {
            "property_id": prop, "tier": tier, "seed": seed, "level": level,
            "coverage": cov, "assumptions": assumptions or [], "wall_s": round(wall, 2),
            "violations": violations,
        })
        for ln in lines:
            print(ln)
        print(f"{prop} {tier} seed={seed}: theorems={len(theorems)} open={len(opens)} "
              f"evaluations={ctx.evaluations} distinct={len(ctx.nontrivial)} "
              f"violations={violations} wall={wall:.1f}s")
        sys.exit(1 if violations else 0)
    except Infra as e:
        print(f"INFRA-ERROR {prop}: {e}", file=sys.stderr)
        sys.exit(2)
    except subprocess.TimeoutExpired as e:
        print(f"INFRA-ERROR {prop}: timeout {e}", file=sys.stderr)
        sys.exit(2)
    except SystemExit:
        raise
    except Exception:  # noqa: BLE001
        traceback.print_exc()
        print(f"INFRA-ERROR {prop}: harness exception", file=sys.stderr)
        sys.exit(2)
