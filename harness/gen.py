"""Seeded generators of bermuda objects. Every random choice comes from the `random.Random`
handed in, so a case replays from (seed, index). Values are exactly representable
(integers and dyadic rationals of bounded magnitude) so that IEEE arithmetic on them is exact.
"""
from __future__ import annotations

import calendar
import datetime
import random

import numpy as np

import common  # noqa: F401  (sets sys.path for /repo)
from bermuda import Cell, CumulativeCell, IncrementalCell, Metadata, Triangle  # noqa: E402

D = datetime.date


def month_end(y, m):
    return D(y, m, calendar.monthrange(y, m)[1])


def add_months_int(d: datetime.date, k: int, end=False) -> datetime.date:
    """independent integer month arithmetic on first-of-month / month-end dates"""
    idx = d.year * 12 + (d.month - 1) + k
    y, m = divmod(idx, 12)
    return month_end(y, m + 1) if end else D(y, m + 1, min(d.day, calendar.monthrange(y, m + 1)[1]))


# ---- metadata -----------------------------------------------------------------------------

ATTRS = ["risk_basis", "country", "currency", "reinsurance_basis", "loss_definition",
         "per_occurrence_limit", "details", "loss_details"]

_STR_POOL = {
    "risk_basis": ["Accident", "Policy", "Report"],
    "country": [None, "", "US", "DE", "ES", "Üb"],
    "currency": [None, "", "USD", "EUR", "GBP"],
    "reinsurance_basis": [None, "", "Gross", "Net"],
    "loss_definition": [None, "", "Loss", "Loss+DCC", "Loss+LAE"],
}
_LIMITS = [None, 0, 250000, 500000.0, 1e6, 2.5]
_DETAIL_KEYS = ["coverage", "state", "k", "s", "product"]


def rand_detail_value(rng, kind=None):
    kind = kind or rng.choice(["str", "int", "float", "bool"])
    if kind == "str":
        return rng.choice(["BI", "PD", "CA", "NY", "a", "b", "ß"])
    if kind == "int":
        return rng.randrange(0, 5)
    if kind == "float":
        return rng.choice([0.5, 1.5, 2.25, 10.0])
    if kind == "bool":
        return rng.choice([True, False])
    return None


def rand_details(rng, max_keys=2, typed=None):
    """details dict; `typed` maps key -> kind so that one key always has one kind (comparable)"""
    typed = typed if typed is not None else {}
    keys = rng.sample(_DETAIL_KEYS, rng.randrange(0, max_keys + 1))
    out = {}
    for k in keys:
        kind = typed.setdefault(k, rng.choice(["str", "int", "float"]))
        out[k] = rand_detail_value(rng, kind)
    return out


def base_meta_kwargs(rng, typed=None):
    return dict(
        risk_basis=rng.choice(_STR_POOL["risk_basis"]),
        country=rng.choice(_STR_POOL["country"]),
        currency=rng.choice(_STR_POOL["currency"]),
        reinsurance_basis=rng.choice(_STR_POOL["reinsurance_basis"]),
        loss_definition=rng.choice(_STR_POOL["loss_definition"]),
        per_occurrence_limit=rng.choice(_LIMITS),
        details=rand_details(rng, typed=typed),
        loss_details=rand_details(rng, typed=typed),
    )


def vary(rng, kw, attr, typed):
    """a copy of kw differing (really differing) in exactly `attr`"""
    new = dict(kw)
    for _ in range(50):
        if attr in _STR_POOL:
            new[attr] = rng.choice(_STR_POOL[attr])
        elif attr == "per_occurrence_limit":
            new[attr] = rng.choice(_LIMITS)
        else:
            d = dict(kw[attr])
            if d and rng.random() < 0.5:
                k = rng.choice(sorted(d))
                d[k] = rand_detail_value(rng, typed.get(k, "str"))
            else:
                k = rng.choice(_DETAIL_KEYS)
                kind = typed.setdefault(k, rng.choice(["str", "int", "float"]))
                d[k] = rand_detail_value(rng, kind)
            new[attr] = d
        if new[attr] != kw[attr] or (new[attr] is None) != (kw[attr] is None):
            # note 0 == False == 0.0 in Python: require a difference Python sees
            if Metadata(**new) != Metadata(**kw):
                return new
    return None


def rand_metas(rng, n, single_attr=True):
    """n distinct Metadata. With single_attr each differs from the first in ONE attribute
    (drawn from all eight, incl. only loss_details, None vs '', limit None vs number)."""
    typed = {}
    base = base_meta_kwargs(rng, typed)
    metas, seen = [Metadata(**base)], {Metadata(**base)}
    tries = 0
    while len(metas) < n and tries < 200:
        tries += 1
        attr = rng.choice(ATTRS)
        src = base if single_attr else rng.choice([base] + [m.__dict__ for m in metas])
        kw = vary(rng, dict(src), attr, typed)
        if kw is None:
            continue
        m = Metadata(**kw)
        if m not in seen and all(m != o for o in metas):
            seen.add(m)
            metas.append(m)
    return metas


# ---- values -------------------------------------------------------------------------------

def dyadic(rng, lo=0, hi=4096, bits=3):
    return rng.randrange(lo * (1 << bits), hi * (1 << bits)) / (1 << bits)


def rand_value(rng, kind, n_samples=4, lo=0, hi=4096):
    if kind == "int":
        return rng.randrange(lo, hi)
    if kind == "float":
        return float(dyadic(rng, lo, hi))
    if kind == "iarr":
        return np.array([rng.randrange(lo, hi) for _ in range(n_samples)], dtype=np.int64)
    if kind == "farr":
        return np.array([dyadic(rng, lo, hi) for _ in range(n_samples)], dtype=np.float64)
    if kind == "none":
        return None
    raise ValueError(kind)


FIELDS = ["paid_loss", "reported_loss", "earned_premium", "open_claims", "reported_claims"]


# ---- period layouts -------------------------------------------------------------------------

def layout_regular(rng, res=None, n_periods=None, n_lags=None, start_year=None, shape=None):
    """month-aligned periods of `res` months, evaluation lags multiples of `res` from period end.
    returns list of (ps, pe, [evals])"""
    res = res or rng.choice([1, 3, 6, 12])
    n_periods = n_periods or rng.randrange(1, 5)
    n_lags = n_lags or rng.randrange(1, 5)
    y0 = start_year or rng.randrange(1995, 2030)
    m0 = rng.choice([1] if res == 12 else list(range(1, 13, res)))
    shape = shape or rng.choice(["square", "triangle", "ragged"])
    start = D(y0, m0, 1)
    rows = []
    for i in range(n_periods):
        ps = add_months_int(start, i * res)
        pe = add_months_int(ps, res - 1, end=True)
        if shape == "square":
            lags = range(n_lags)
        elif shape == "triangle":
            lags = range(max(1, n_periods - i)) if n_periods - i < n_lags else range(n_lags)
            lags = range(max(1, min(n_lags, n_periods - i)))
        else:
            lags = sorted(rng.sample(range(n_lags), rng.randrange(1, n_lags + 1)))
        evals = [add_months_int(pe, k * res, end=True) for k in lags]
        rows.append((ps, pe, evals))
    return rows


def layout_daily(rng, n_periods=None, n_evals=None):
    """day-level, possibly irregular, possibly overlapping periods"""
    n_periods = n_periods or rng.randrange(1, 4)
    n_evals = n_evals or rng.randrange(1, 4)
    base = D(rng.randrange(1990, 2035), rng.randrange(1, 13), rng.randrange(1, 29))
    rows, cur = [], base
    for _ in range(n_periods):
        ps = cur + datetime.timedelta(days=rng.randrange(0, 40))
        pe = ps + datetime.timedelta(days=rng.randrange(0, 120))
        evs, e = [], max(ps, pe - datetime.timedelta(days=rng.randrange(0, 20)))
        for _ in range(n_evals):
            e = e + datetime.timedelta(days=rng.randrange(1, 200))
            evs.append(e)
        rows.append((ps, pe, evs))
        cur = pe + datetime.timedelta(days=rng.randrange(-10, 30))
        if cur < base:
            cur = base
    return rows


# ---- cells / triangles ----------------------------------------------------------------------

def cells_from_layout(rng, rows, meta, kind="C", fields=None, vkind="int", n_samples=4,
                      same_fields=True):
    """cumulative-like cells for one slice. kind: 'C' Cell, 'U' CumulativeCell, 'I' Incremental
    (prev chain built from the row)."""
    fields = fields or ["paid_loss", "reported_loss"]
    out = []
    for ps, pe, evals in rows:
        prev = ps - datetime.timedelta(days=1)
        for ev in evals:
            fs = fields if same_fields else [f for f in fields if rng.random() < 0.7] or fields[:1]
            vals = {f: rand_value(rng, vkind, n_samples) for f in fs}
            if kind == "I":
                out.append(IncrementalCell(ps, pe, prev, ev, vals, meta))
                prev = ev
            elif kind == "U":
                out.append(CumulativeCell(ps, pe, ev, vals, meta))
            else:
                out.append(Cell(ps, pe, ev, vals, meta))
    return out


def rand_cells(rng, n_slices=None, layout=None, kind=None, vkind=None, fields=None,
               same_layout=None, single_attr=True, n_samples=4, max_cells=None):
    """a list of cells (unsorted: shuffled) for a random multi-slice triangle"""
    n_slices = n_slices or rng.choice([1, 1, 2, 2, 3, 4])
    layout = layout or rng.choice(["regular", "regular", "ragged", "daily"])
    kind = kind or rng.choice(["C", "U", "I"])
    vkind = vkind or rng.choice(["int", "float", "iarr", "farr"])
    same_layout = rng.random() < 0.5 if same_layout is None else same_layout
    metas = rand_metas(rng, n_slices, single_attr=single_attr)

    def mk_rows():
        if layout == "daily":
            return layout_daily(rng)
        return layout_regular(rng, shape="ragged" if layout == "ragged" else None)

    rows = mk_rows()
    cells = []
    subset_mode = same_layout and rng.random() < 0.4
    for m in metas:
        r = rows if same_layout else mk_rows()
        if subset_mode:
            # same periods, each slice observes its own subset of the evaluation dates (so incremental
            # cells of different slices share coordinates but not prev_evaluation_date)
            r = [(ps, pe, sorted(rng.sample(evs, rng.randrange(1, len(evs) + 1)))) for ps, pe, evs in r]
        cells += cells_from_layout(rng, r, m, kind=kind, fields=fields, vkind=vkind, n_samples=n_samples)
    if max_cells and len(cells) > max_cells:
        cells = rng.sample(cells, max_cells)
    rng.shuffle(cells)
    return cells


def nested_detail_metas(rng, n):
    """metadata whose details / loss_details are nested key sets over a shared pool (some entries
    common to all slices, extra keys sorting before and after the common ones)"""
    pool = {"coverage": "BI", "state": "NY", "k": 1, "s": "x", "product": 2.5, "aa": "first", "zz": "last"}
    common = rng.sample(sorted(pool), rng.randrange(1, 3))
    out, seen = [], set()
    for _ in range(n * 4):
        extra = [k for k in sorted(pool) if k not in common and rng.random() < 0.35]
        d = {k: pool[k] for k in common + extra}
        which = rng.choice(["details", "loss_details"])
        m = Metadata(**{which: d}) if rng.random() < 0.7 else Metadata(details=d, loss_details={k: pool[k] for k in common})
        if m not in seen:
            seen.add(m)
            out.append(m)
        if len(out) == n:
            break
    return out


def describe(cells):
    """small dict describing a generated case (for the input-distribution histogram)"""
    if not cells:
        return {"slices": 0, "cells": 0}
    return {
        "slices": len({c.metadata for c in cells}),
        "cells": len(cells),
        "kind": type(cells[0]).__name__,
        "vkind": type(next(iter(cells[0].values.values()), None)).__name__ if cells[0].values else "empty",
    }
