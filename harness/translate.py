"""Translator: regenerates lean/Bermuda/Generated/*.lean from /repo's CURRENT source on every run
(DESIGN §2.3a). Table-like parts of the code (format constants, rule tables, attribute orders,
quantile levels, group-by keys) are read by `ast` and, where an entry's meaning is a closure or a
comparison, by probing the live object. Property theorems are stated over these definitions, so
`lake build` re-proves them against what the code says now.

A section that cannot be extracted (source shape changed) yields `ok := false`; the theorems of
the properties that depend on it then fail to build, which triggers the failing-input search.
"""
from __future__ import annotations

import ast
import datetime
import os
import struct
import sys
from fractions import Fraction

import common

GEN_DIR = os.path.join(common.LEAN, "Bermuda", "Generated")


def lstr(s) -> str:
    return '"' + s.replace("\\", "\\\\").replace('"', '\\"') + '"'


def llist(items, f=lstr) -> str:
    return "[" + ", ".join(f(x) for x in items) + "]"


def lrat(x) -> str:
    fr = Fraction(x).limit_denominator(10**6) if isinstance(x, float) else Fraction(x)
    return f"(({fr.numerator} : Rat) / {fr.denominator})"


def src(rel):
    return open(os.path.join(common.REPO, rel)).read()


# --------------------------------------------------------------------------------------
def sec_order():
    """priority order of the attributes in Metadata.__lt__ / Cell.__lt__ / IncrementalCell.__lt__,
    obtained by PROBING: for attributes i, j build a (i small, j large) and b (i large, j small);
    `a < b` says i outranks j. Also where None sorts for strings and for the limit, and the tuples
    fed to the hashes (by AST)."""
    from bermuda import Cell, IncrementalCell, Metadata

    lo_hi = {
        "risk_basis": ("A", "B"), "country": ("A", "B"), "currency": ("A", "B"),
        "reinsurance_basis": ("A", "B"), "loss_definition": ("A", "B"),
        "per_occurrence_limit": (1.0, 2.0),
        "details": ({"k": 1}, {"k": 2}), "loss_details": ({"k": 1}, {"k": 2}),
    }
    attrs = list(lo_hi)

    def mk(**kw):
        base = {a: lo_hi[a][0] for a in attrs}
        base.update(kw)
        return Metadata(**base)

    wins = {a: 0 for a in attrs}
    consistent = True
    for i in attrs:
        # each attribute is actually compared, in the right direction, against `other`
        a, b = mk(**{i: lo_hi[i][0]}), mk(**{i: lo_hi[i][1]})
        if not (a < b) or (b < a):
            consistent = False
        for j in attrs:
            if i == j:
                continue
            a = mk(**{i: lo_hi[i][0], j: lo_hi[j][1]})
            b = mk(**{i: lo_hi[i][1], j: lo_hi[j][0]})
            if (a < b) and not (b < a):
                wins[i] += 1
    order = sorted(attrs, key=lambda a: -wins[a])
    if sorted(wins.values()) != list(range(len(attrs))):
        consistent = False
    # None placement
    none_first = all(
        (mk(**{a: None}) < mk(**{a: ""})) and not (mk(**{a: ""}) < mk(**{a: None}))
        for a in attrs[:5]
    )
    lim_none_last = (mk(per_occurrence_limit=1e300) < mk(per_occurrence_limit=None)) and not (
        mk(per_occurrence_limit=None) < mk(per_occurrence_limit=1e300))
    # cells
    d = datetime.date
    m = Metadata()
    m2 = Metadata(country="ZZ")

    def cell(ps=d(2000, 1, 1), pe=d(2000, 12, 31), ev=d(2001, 12, 31), md=m, prev=None):
        if prev is None:
            return Cell(ps, pe, ev, {}, md)
        return IncrementalCell(ps, pe, prev, ev, {}, md)

    def cell_order(incremental):
        names = ["metadata", "period_start", "period_end", "evaluation_date"] + (
            ["prev_evaluation_date"] if incremental else [])
        lo = dict(metadata=m, period_start=d(2000, 1, 1), period_end=d(2000, 12, 31),
                  evaluation_date=d(2001, 12, 31), prev_evaluation_date=d(2000, 6, 30))
        hi = dict(metadata=m2, period_start=d(2000, 2, 1), period_end=d(2001, 1, 31),
                  evaluation_date=d(2002, 1, 31), prev_evaluation_date=d(2000, 7, 31))

        def mkc(sel):
            v = {n: (hi[n] if n in sel else lo[n]) for n in lo}
            return cell(v["period_start"], v["period_end"], v["evaluation_date"], v["metadata"],
                        v["prev_evaluation_date"] if incremental else None)

        w = {n: 0 for n in names}
        ok = True
        for i in names:
            if not (mkc(set()) < mkc({i})) or (mkc({i}) < mkc(set())):
                ok = False
            for j in names:
                if i != j and (mkc({j}) < mkc({i})) and not (mkc({i}) < mkc({j})):
                    w[i] += 1
        return sorted(names, key=lambda n: -w[n]), ok and sorted(w.values()) == list(range(len(names)))

    c_order, c_ok = cell_order(False)
    i_order, i_ok = cell_order(True)

    # hash tuples by AST: names of attributes referenced in the tuple handed to hash(...)
    def hash_attrs(rel, cls):
        tree = ast.parse(src(rel))
        for node in ast.walk(tree):
            if isinstance(node, ast.ClassDef) and node.name == cls:
                for fn in node.body:
                    if isinstance(fn, ast.FunctionDef) and fn.name == "__hash__":
                        return sorted({n.attr for n in ast.walk(fn) if isinstance(n, ast.Attribute)
                                       and isinstance(n.value, ast.Name) and n.value.id == "self"})
        return []

    return f"""
def metadataLtPriority : List String := {llist(order)}
def metadataLtConsistent : Bool := {str(consistent).lower()}
def metadataNoneSortsFirst : Bool := {str(none_first).lower()}
def limitNoneSortsLast : Bool := {str(lim_none_last).lower()}
def cellLtPriority : List String := {llist(c_order)}
def cellLtConsistent : Bool := {str(c_ok).lower()}
def incrementalLtPriority : List String := {llist(i_order)}
def incrementalLtConsistent : Bool := {str(i_ok).lower()}
def metadataHashAttrs : List String := {llist(hash_attrs("bermuda/base/metadata.py", "Metadata"))}
def cellHashAttrs : List String := {llist(hash_attrs("bermuda/base/cell.py", "Cell"))}
def incrementalHashAttrs : List String := {llist(hash_attrs("bermuda/base/incremental.py", "IncrementalCell"))}
"""


# --------------------------------------------------------------------------------------
def sec_binary():
    """constants of io/binary.py (evaluated) and every struct format string used by the writer and
    the reader, with the function it occurs in (AST)."""
    import importlib

    b = importlib.import_module("bermuda.io.binary")
    names = ["MAGIC", "VERSION", "STRING", "INT", "FLOAT", "BOOL", "NONE", "DATE", "INT_ARRAY",
             "FLOAT_ARRAY", "DICT_END", "METADATA", "CELL", "CUMULATIVE_CELL", "INCREMENTAL_CELL"]
    out = []
    for n in names:
        v = getattr(b, n)
        out.append(f"def {n.lower()}Bytes : List Nat := {llist(list(v), str)}")

    def formats(rel):
        tree = ast.parse(src(rel))
        res = []
        for fn in ast.walk(tree):
            if isinstance(fn, ast.FunctionDef):
                for node in ast.walk(fn):
                    if (isinstance(node, ast.Call) and isinstance(node.func, ast.Attribute)
                            and node.func.attr in ("pack", "unpack", "calcsize")
                            and node.args and isinstance(node.args[0], ast.Constant)
                            and isinstance(node.args[0].value, str)):
                        res.append((fn.name, node.func.attr, node.args[0].value))
        return sorted(set(res))

    def fmt_list(items):
        return "[" + ", ".join(f"({lstr(a)}, {lstr(b_)}, {lstr(c)})" for a, b_, c in items) + "]"

    out.append(f"def writerFormats : List (String × String × String) := {fmt_list(formats('bermuda/io/binary_output.py'))}")
    out.append(f"def readerFormats : List (String × String × String) := {fmt_list(formats('bermuda/io/binary_input.py'))}")
    return "\n" + "\n".join(out) + "\n"


# --------------------------------------------------------------------------------------
class _Rec(dict):
    """recording mapping handed to a summarize rule: remembers the keys read"""

    def __init__(self, data):
        super().__init__(data)
        self.reads = []

    def __getitem__(self, k):
        self.reads.append(k)
        return super().__getitem__(k)


def sec_summarize():
    """SUMMARIZE_DEFAULTS as OBSERVED: each closure is called with a recording mapping holding
    distinct primes per key, so late binding is seen as Python sees it. kind: 'sum' when the result
    equals the plain sum of one key, 'wavg' when it equals sum(v*w)/sum(w) of (value,weight) keys,
    'wavglog' for the exp/log variant."""
    import math

    import numpy as np
    import importlib

    S = importlib.import_module("bermuda.utils.summarize")

    names = sorted(S.SUMMARIZE_DEFAULTS)
    universe = sorted(set(names) | {"reported_loss", "earned_premium"})
    primes = [2, 3, 5, 7, 11, 13, 17, 19, 23, 29, 31, 37, 41, 43, 47, 53, 59, 61, 67, 71, 73, 79,
              83, 89, 97, 101, 103, 107, 109, 113, 127, 131, 137, 139, 149, 151, 157, 163, 167,
              173, 179, 181, 191, 193, 197, 199, 211, 223, 227, 229, 233, 239, 241, 251, 257, 263]
    data = {}
    for i, k in enumerate(universe):
        data[k] = [float(primes[2 * i]), float(primes[2 * i + 1])]
    rules = []
    for n in names:
        rec = _Rec(data)
        try:
            res = float(S.SUMMARIZE_DEFAULTS[n](rec))
        except Exception:  # noqa: BLE001
            rules.append((n, "error", []))
            continue
        reads = list(dict.fromkeys(rec.reads))
        kind = "unknown"
        if len(reads) == 1 and res == sum(data[reads[0]]):
            kind = "sum"
        elif len(reads) == 2:
            v, w = data[reads[0]], data[reads[1]]
            if abs(res - sum(a * b for a, b in zip(v, w)) / sum(w)) < 1e-9:
                kind = "wavg"
            else:
                ev = [math.exp(a) for a in v]
                if abs(res - math.log(sum(a * b for a, b in zip(ev, w)) / sum(w))) < 1e-9:
                    kind = "wavglog"
        rules.append((n, kind, reads))
    body = ",\n  ".join(f"({lstr(n)}, {lstr(k)}, {llist(r)})" for n, k, r in rules)
    non_loss = sorted(S.NON_LOSS_METRICS)
    return f"""
/-- (field, observed kind, keys read in order) for every entry of SUMMARIZE_DEFAULTS -/
def summarizeRules : List (String × String × List String) := [
  {body}]
def nonLossMetrics : List String := {llist(non_loss)}
"""


def sec_currency():
    import importlib

    C = importlib.import_module("bermuda.utils.currency")

    return f"\ndef currencyFields : List String := {llist(list(C.CURRENCY_FIELDS))}\n"


def sec_frame():
    """data_frame_input: METADATA_COLUMNS, INDEX_COLUMNS, and the group-by key lists (AST: the list
    expressions passed to df.groupby in the two *_data_frame_to_triangle functions; names that are
    module constants are expanded)."""
    import importlib

    F = importlib.import_module("bermuda.io.data_frame_input")

    tree = ast.parse(src("bermuda/io/data_frame_input.py"))
    consts = {"METADATA_COLUMNS": list(F.METADATA_COLUMNS), "INDEX_COLUMNS": list(F.INDEX_COLUMNS),
              "INDEX_CUM_COLUMNS": list(F.INDEX_CUM_COLUMNS)}

    def expand(node):
        if isinstance(node, ast.List):
            out = []
            for e in node.elts:
                if isinstance(e, ast.Constant):
                    out.append(e.value)
                else:
                    out.append("<expr>")
            return out
        if isinstance(node, ast.BinOp) and isinstance(node.op, ast.Add):
            return expand(node.left) + expand(node.right)
        if isinstance(node, ast.Name):
            return consts.get(node.id, [f"${node.id}"])
        return ["<expr>"]

    keys = []
    for fn in ast.walk(tree):
        if isinstance(fn, ast.FunctionDef) and fn.name in ("wide_data_frame_to_triangle", "long_data_frame_to_triangle"):
            for node in ast.walk(fn):
                if (isinstance(node, ast.Call) and isinstance(node.func, ast.Attribute)
                        and node.func.attr == "groupby" and node.args):
                    keys.append((fn.name, expand(node.args[0])))
    body = ",\n  ".join(f"({lstr(f)}, {llist(k)})" for f, k in keys)
    return f"""
def metadataColumns : List String := {llist(consts['METADATA_COLUMNS'])}
def indexColumns : List String := {llist(consts['INDEX_COLUMNS'])}
/-- every df.groupby key list in the two data-frame readers; `$name` = a local variable -/
def groupByKeys : List (String × List String) := [
  {body}]
"""


def sec_plot():
    import dataclasses

    import importlib

    P = importlib.import_module("bermuda.plot")

    q = P.FieldSummary.quantiles()
    fields = [f.name for f in dataclasses.fields(P.FieldSummary)]
    metrics = sorted(P.COMMON_METRIC_DICT) if hasattr(P, "COMMON_METRIC_DICT") else []
    return f"""
def quantileLevels : List Rat := {llist(q, lrat)}
def fieldSummaryFields : List String := {llist(fields)}
def commonMetrics : List String := {llist(metrics)}
"""


SECTIONS = {
    "Order": sec_order,
    "Binary": sec_binary,
    "Summarize": sec_summarize,
    "Currency": sec_currency,
    "Frame": sec_frame,
    "Plot": sec_plot,
}


def regenerate(only=None):
    os.makedirs(GEN_DIR, exist_ok=True)
    notes = {}
    for name, fn in SECTIONS.items():
        if only and name not in only:
            continue
        try:
            body = fn()
            ok = True
        except Exception as e:  # noqa: BLE001
            body = f"\n-- extraction failed: {type(e).__name__}: {str(e)[:200]}\n"
            ok = False
        text = (f"-- GENERATED by harness/translate.py from {common.REPO} -- do not edit\n"
                f"namespace Bermuda.Generated.{name}\n"
                f"def ok : Bool := {str(ok).lower()}\n{body}\nend Bermuda.Generated.{name}\n")
        path = os.path.join(GEN_DIR, f"{name}.lean")
        old = open(path).read() if os.path.exists(path) else None
        if old != text:
            with open(path, "w") as f:
                f.write(text)
        notes[name] = {"ok": ok, "changed": old != text}
    return notes


if __name__ == "__main__":
    print(regenerate(sys.argv[1:] or None))
