"""C02's own translator: the hash DEPENDENCY table of Metadata / Cell / CumulativeCell /
IncrementalCell, obtained DYNAMICALLY (no AST): for every component that `==` looks at, and for the
representation details `==` does not look at (dict insertion order, int vs float, Cell vs
CumulativeCell), build several random objects, change exactly that one thing and record whether
`hash` changes:  "all" (every probe changed the hash), "none" (no probe did), "mixed", "error"
(hash raised).  Written to lean/Bermuda/Generated/HashDeps.lean; `Properties/C02.lean: tables_hash`
is stated over it, so `lake build` re-proves on every run that the hash depends on exactly the
components of the model's hash key — however the source computes it.

Deterministic output: only the verdicts are written (string hashes are salted per process, but
whether two different strings hash alike is not, short of a 2^-64 collision).
"""
from __future__ import annotations

import datetime
import os
import random

import common
from translate import GEN_DIR, llist, lstr

N_PROBES = 6
D = datetime.date
ONE = datetime.timedelta(days=1)

META_ATTRS = ["risk_basis", "country", "currency", "reinsurance_basis", "loss_definition",
              "per_occurrence_limit", "details", "loss_details"]


def _rand_str(rng):
    return "".join(rng.choice("ABCDEFGHJKLMNPQRSTUVWXYZ") for _ in range(rng.randrange(2, 6)))


def _rand_meta_kwargs(rng):
    return dict(
        risk_basis=_rand_str(rng), country=_rand_str(rng), currency=_rand_str(rng),
        reinsurance_basis=_rand_str(rng), loss_definition=_rand_str(rng),
        per_occurrence_limit=float(rng.randrange(1, 10**6)),
        details={"coverage": _rand_str(rng), "state": rng.randrange(2, 50)},
        loss_details={"peril": _rand_str(rng), "layer": rng.randrange(2, 50)},
    )


def _meta_changes(rng, kw):
    """component -> kwargs differing from kw in exactly that component"""
    out = {}
    for a in META_ATTRS[:5]:
        out[a] = {**kw, a: kw[a] + "x"}
    out["per_occurrence_limit"] = {**kw, "per_occurrence_limit": kw["per_occurrence_limit"] + 1}
    for a, k_str, k_num in (("details", "coverage", "state"), ("loss_details", "peril", "layer")):
        d = kw[a]
        out[a] = {**kw, a: {**d, k_num: d[k_num] + 1}}
        out[a + "_key"] = {**kw, a: {(k + "_x" if k == k_str else k): v for k, v in d.items()}}
        out[a + "_order"] = {**kw, a: dict(reversed(list(d.items())))}
        out[a + "_number_type"] = {**kw, a: {**d, k_num: float(d[k_num])}}
    out["per_occurrence_limit_number_type"] = {**kw, "per_occurrence_limit": int(kw["per_occurrence_limit"])}
    return out


def _verdict(pairs):
    res = []
    for a, b in pairs:
        try:
            res.append(hash(a) != hash(b))
        except Exception:  # noqa: BLE001
            return "error"
    return "all" if all(res) else "none" if not any(res) else "mixed"


def probe():
    import numpy as np
    from bermuda import Cell, CumulativeCell, IncrementalCell, Metadata

    rng = random.Random(20260930)
    rows = []

    # ---- Metadata ------------------------------------------------------------------------
    acc = {}
    for _ in range(N_PROBES):
        kw = _rand_meta_kwargs(rng)
        for comp, kw2 in _meta_changes(rng, kw).items():
            acc.setdefault(comp, []).append((Metadata(**kw), Metadata(**kw2)))
    for comp, pairs in acc.items():
        rows.append(("Metadata", comp, _verdict(pairs)))

    # ---- cells -----------------------------------------------------------------------------
    def build(cls, ps, pe, ev, prev, values, meta):
        if cls is IncrementalCell:
            return IncrementalCell(ps, pe, prev, ev, values, meta)
        return cls(ps, pe, ev, values, meta)

    for cls in (Cell, CumulativeCell, IncrementalCell):
        acc = {}
        for _ in range(N_PROBES):
            y, m = rng.randrange(1995, 2030), rng.randrange(1, 12)
            ps, pe = D(y, m, 2), D(y, m, 27)
            prev = pe + ONE * rng.randrange(30, 60)
            ev = prev + ONE * rng.randrange(30, 60)
            kw = _rand_meta_kwargs(rng)
            meta = Metadata(**kw)
            n = rng.randrange(2, 5)
            values = {
                "paid_loss": rng.randrange(1, 4000),
                "reported_loss": rng.randrange(1, 4000) + 0.5,
                "samples": np.array([rng.randrange(1, 4000) for _ in range(n)], dtype=np.int64),
                "open_claims": None,
            }
            base = build(cls, ps, pe, ev, prev, values, meta)

            def put(comp, **over):
                a = dict(ps=ps, pe=pe, ev=ev, prev=prev, values=values, meta=meta, cls=cls)
                a.update(over)
                acc.setdefault(comp, []).append(
                    (base, build(a["cls"], a["ps"], a["pe"], a["ev"], a["prev"], a["values"], a["meta"])))

            put("period_start", ps=ps - ONE)
            put("period_end", pe=pe + ONE)
            put("evaluation_date", ev=ev + ONE)
            if cls is IncrementalCell:
                put("prev_evaluation_date", prev=prev - ONE)
            for comp, kw2 in _meta_changes(rng, kw).items():
                put("metadata:" + comp, meta=Metadata(**kw2))
            put("value_scalar", values={**values, "paid_loss": values["paid_loss"] + 1})
            el = values["samples"].copy()
            el[rng.randrange(n)] += 1
            put("value_array_element", values={**values, "samples": el})
            put("value_array_length", values={**values, "samples": values["samples"][:-1].copy()})
            put("value_none_vs_zero", values={**values, "open_claims": 0})
            put("field_name", values={(k + "_x" if k == "paid_loss" else k): v for k, v in values.items()})
            put("field_added", values={**values, "zz_extra": 0})
            put("values_order", values=dict(reversed(list(values.items()))))
            put("value_scalar_number_type", values={**values, "paid_loss": float(values["paid_loss"])})
            put("value_array_dtype", values={**values, "samples": values["samples"].astype(np.float64)})
            if cls is IncrementalCell:
                put("class_basis", cls=CumulativeCell)
            else:
                put("class_cell_vs_cumulative", cls=CumulativeCell if cls is Cell else Cell)
                put("class_basis", cls=IncrementalCell)
        for comp, pairs in acc.items():
            rows.append((cls.__name__, comp, _verdict(pairs)))
    return rows


def regenerate():
    try:
        rows, ok = probe(), True
    except Exception as e:  # noqa: BLE001  (source shape changed so much that probing fails)
        rows, ok = [("probe-failed", type(e).__name__, "error")], False
    body = ",\n  ".join(f"({lstr(c)}, {lstr(k)}, {lstr(v)})" for c, k, v in rows)
    text = f"""-- GENERATED by harness/translate_c02.py from the live `hash` of the implementation under test -- do not edit
namespace Bermuda.Generated.HashDeps
def ok : Bool := {str(ok).lower()}

/-- (class, component changed — exactly that one —, does `hash` change: all | none | mixed | error) -/
def table : List (String × String × String) := [
  {body}]

end Bermuda.Generated.HashDeps
"""
    os.makedirs(GEN_DIR, exist_ok=True)
    path = os.path.join(GEN_DIR, "HashDeps.lean")
    if not os.path.exists(path) or open(path).read() != text:
        with open(path, "w") as f:
            f.write(text)
    return {"HashDeps": len(rows)}


if __name__ == "__main__":
    print(regenerate())
    for r in probe():
        print(r)
