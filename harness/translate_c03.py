"""C03 translator: regenerates lean/Bermuda/Generated/Accum.lean from /repo's CURRENT source (AST).

For every function of the anchor list and every WRITE TARGET in it
    x += e            (augmented assignment to a name: in place when x is an ndarray)
    x[k] += e / x.a += e
    x[k] = e          (subscript store)
    x.update(..) / x.append(..) / x.extend(..) / x.pop(..) / x.setdefault(..) / x.sort() / x.clear()
the translator records how the root name `x` is INITIALISED inside the function:

    literal   a number / None / string constant          total = 0
    fresh     a new container: {..}, [..], comprehension, dict(..), list(..), defaultdict(..), np.zeros(..)
    copy      copy.deepcopy(..), copy.copy(..), x.copy()
    computed  the result of an arithmetic expression or of a call (a new object for numpy operands)
    param     an expression REACHING A PARAMETER: the parameter itself, p[i], p.attr, p.values,
              a loop variable ranging over a parameter, a name bound to one of these
    unknown   anything else

`targetsFresh` (Model/Heap.lean) holds when no target has a `param`/`unknown` initialiser. The
frame theorems of Properties/C03.lean take `targetsFresh` as their hypothesis and
`pattern_<fn>.targetsFresh = true` is discharged by `decide` over this file.
"""
from __future__ import annotations

import ast
import os

import common
from translate import GEN_DIR, lstr, src

# (file, qualified function name)
ANCHORS = [
    ("bermuda/utils/summarize.py", "_conforming_sum"),
    ("bermuda/utils/summarize.py", "_conforming_weighted_average"),
    ("bermuda/utils/summarize.py", "summarize_cell_values"),
    ("bermuda/utils/summarize.py", "blend_cells"),
    ("bermuda/utils/summarize.py", "blend_samples"),
    ("bermuda/utils/summarize.py", "_linear_blend"),
    ("bermuda/utils/summarize.py", "_mixture_blend"),
    ("bermuda/utils/disaggregate.py", "_weight_cell_values"),
    ("bermuda/utils/basis.py", "_values_add"),
    ("bermuda/utils/basis.py", "_values_diff"),
    ("bermuda/utils/basis.py", "to_incremental"),
    ("bermuda/utils/basis.py", "to_cumulative"),
    ("bermuda/utils/basis.py", "_accident_quarter_to_policy_year_slice"),
    ("bermuda/utils/basis.py", "monthly_ep_to_quarterly_ep"),
    ("bermuda/utils/merge.py", "_merge_cell_pair"),
    ("bermuda/utils/merge.py", "_overwrite_values"),
    ("bermuda/utils/merge.py", "coalesce"),
    ("bermuda/utils/thin.py", "_thin_cell"),
    ("bermuda/utils/currency.py", "_convert_cell_currency"),
    ("bermuda/utils/aggregate.py", "_aggregate_period"),
    ("bermuda/utils/fields.py", "add_statics"),
    ("bermuda/base/cell.py", "Cell._base_replace"),
    ("bermuda/base/cell.py", "Cell.replace"),
    ("bermuda/base/cell.py", "Cell.select"),
    ("bermuda/base/cell.py", "Cell.derive_fields"),
    ("bermuda/base/cell.py", "Cell.derive_metadata"),
    ("bermuda/base/cell.py", "Cell.add_statics"),
    ("bermuda/io/data_frame_input.py", "long_data_frame_to_triangle"),
]

FRESH_CALLS = {"dict", "list", "set", "tuple", "defaultdict", "OrderedDict", "zeros", "ones", "empty", "array",
               "full", "zeros_like", "ones_like", "empty_like", "arange", "sorted"}
COPY_CALLS = {"deepcopy", "copy"}
WRITE_METHODS = {"update", "append", "extend", "pop", "popitem", "setdefault", "sort", "clear", "insert",
                 "remove", "fill", "put", "resize", "itemset", "__setitem__", "__iadd__"}


def find_function(tree, qual):
    parts = qual.split(".")
    body = tree.body
    node = None
    for p in parts:
        node = next((n for n in body if isinstance(n, (ast.FunctionDef, ast.ClassDef)) and n.name == p), None)
        if node is None:
            return None
        body = node.body
    return node if isinstance(node, ast.FunctionDef) else None


def live_function(rel, qual):
    """the function object the name is bound to NOW (an alias, a moved or wrapped function still
    resolves), parsed from its own source; None when that is not possible"""
    import importlib
    import inspect
    import textwrap
    try:
        obj = importlib.import_module(rel[:-3].replace("/", "."))
        for part in qual.split("."):
            obj = getattr(obj, part)
        obj = inspect.unwrap(obj)
        if isinstance(obj, (staticmethod, classmethod)):
            obj = obj.__func__
        tree = ast.parse(textwrap.dedent(inspect.getsource(obj)))
        fn = next((n for n in tree.body if isinstance(n, ast.FunctionDef)), None)
        if fn is not None:
            fn._first_line = obj.__code__.co_firstlineno
        return fn
    except Exception:  # noqa: BLE001
        return None


def root_name(node):
    while isinstance(node, (ast.Subscript, ast.Attribute)):
        node = node.value
    return node.id if isinstance(node, ast.Name) else None


class Analyser:
    def __init__(self, fn: ast.FunctionDef):
        self.fn = fn
        a = fn.args
        self.params = {p.arg for p in a.posonlyargs + a.args + a.kwonlyargs}
        if a.vararg:
            self.params.add(a.vararg.arg)
        if a.kwarg:
            self.params.add(a.kwarg.arg)
        # bindings: name -> list of initialiser classes (all assignments in the function, own scope only)
        self.bind = {}
        self.own_nodes = list(self._own(fn))
        for _ in range(4):      # propagate through name-to-name bindings (fixpoint from scratch each pass)
            self.new = {}
            self._collect()
            self.bind = self.new

    def _own(self, fn):
        """nodes of the function body, not descending into nested function definitions / lambdas"""
        stack = list(fn.body)
        while stack:
            n = stack.pop()
            yield n
            for c in ast.iter_child_nodes(n):
                if isinstance(c, (ast.FunctionDef, ast.AsyncFunctionDef, ast.Lambda, ast.ClassDef)):
                    continue
                stack.append(c)

    def classify(self, e):
        if e is None:
            return "literal"
        if isinstance(e, ast.Constant):
            return "literal"
        if isinstance(e, (ast.Dict, ast.List, ast.Set, ast.ListComp, ast.DictComp, ast.SetComp, ast.GeneratorExp,
                          ast.Tuple, ast.JoinedStr)):
            return "fresh"
        if isinstance(e, ast.Call):
            f = e.func
            fname = f.attr if isinstance(f, ast.Attribute) else (f.id if isinstance(f, ast.Name) else None)
            if fname in COPY_CALLS:
                return "copy"
            if fname in FRESH_CALLS:
                return "fresh"
            return "computed"
        if isinstance(e, (ast.BinOp, ast.UnaryOp, ast.Compare, ast.BoolOp)):
            if isinstance(e, ast.BoolOp):
                cs = [self.classify(v) for v in e.values]
                return "param" if "param" in cs else ("unknown" if "unknown" in cs else "computed")
            return "computed"
        if isinstance(e, ast.IfExp):
            cs = [self.classify(e.body), self.classify(e.orelse)]
            return "param" if "param" in cs else ("unknown" if "unknown" in cs else cs[0])
        if isinstance(e, (ast.Name, ast.Subscript, ast.Attribute, ast.Starred)):
            r = root_name(e.value if isinstance(e, ast.Starred) else e)
            if r is None:
                return "unknown"
            if r in self.params:
                return "param"
            bs = self.bind.get(r)
            if not bs:
                return "unknown"
            if isinstance(e, ast.Name):
                return "param" if "param" in bs else ("unknown" if "unknown" in bs else bs[0])
            # an element / attribute of a local: reaches a parameter if the local does, or if the local is a
            # container (fresh) whose elements we do not track -> decided by element stores below
            return "param" if "param" in bs else ("unknown" if "unknown" in bs else "element")
        return "unknown"

    def _bind(self, target, cls):
        if isinstance(target, ast.Name):
            self.new.setdefault(target.id, [])
            if cls not in self.new[target.id]:
                self.new[target.id].append(cls)
        elif isinstance(target, (ast.Tuple, ast.List)):
            for t in target.elts:
                self._bind(t, cls)

    def _collect(self):
        for n in self.own_nodes:
            if isinstance(n, ast.Assign):
                c = self.classify(n.value)
                for t in n.targets:
                    self._bind(t, "computed" if c == "element" else c)
            elif isinstance(n, ast.AnnAssign) and n.value is not None:
                c = self.classify(n.value)
                self._bind(n.target, "computed" if c == "element" else c)
            elif isinstance(n, (ast.For, ast.comprehension)):
                c = self.classify_iter(n.iter)
                self._bind(n.target, c)
            elif isinstance(n, ast.With):
                for it in n.items:
                    if it.optional_vars is not None:
                        self._bind(it.optional_vars, "computed")
            elif isinstance(n, ast.NamedExpr):
                self._bind(n.target, self.classify(n.value))

    def classify_iter(self, it):
        """class of a loop variable ranging over `it`"""
        if isinstance(it, ast.Call):
            f = it.func
            fname = f.attr if isinstance(f, ast.Attribute) else (f.id if isinstance(f, ast.Name) else None)
            if fname in ("zip", "enumerate", "reversed", "sorted", "items", "values", "keys", "iterrows", "groupby"):
                inner = [self.classify_iter(a) for a in it.args]
                if isinstance(f, ast.Attribute):
                    inner.append(self.classify_iter(f.value))
                if "param" in inner:
                    return "param"
                return "unknown" if "unknown" in inner else "computed"
            if fname == "range":
                return "literal"
            return "computed"
        c = self.classify(it)
        return "param" if c == "param" else ("unknown" if c == "unknown" else "computed")

    def element_inits(self, root):
        """classes of the values stored by `root[k] = e` in this function"""
        out = []
        for n in self.own_nodes:
            if isinstance(n, ast.Assign):
                for t in n.targets:
                    if isinstance(t, ast.Subscript) and root_name(t) == root:
                        c = self.classify(n.value)
                        out.append("computed" if c == "element" else c)
        return out

    def fresh_element_container(self, root):
        """defaultdict(float|int|list) / dict of literals: elements are fresh scalars"""
        for n in self.own_nodes:
            if isinstance(n, (ast.Assign, ast.AnnAssign)):
                tg = n.targets if isinstance(n, ast.Assign) else [n.target]
                if any(isinstance(t, ast.Name) and t.id == root for t in tg) and isinstance(n.value, ast.Call):
                    f = n.value.func
                    fname = f.attr if isinstance(f, ast.Attribute) else (f.id if isinstance(f, ast.Name) else None)
                    if fname == "defaultdict" and n.value.args and isinstance(n.value.args[0], ast.Name) \
                            and n.value.args[0].id in ("float", "int", "list", "dict"):
                        return True
        return False

    def targets(self):
        res = []

        def inits_of(root):
            if root is None:
                return ["unknown"]
            if root in self.params and root not in self.bind:
                return ["param"]
            bs = list(self.bind.get(root, []))
            if root in self.params:
                bs.append("param")
            return bs or ["unknown"]

        for n in sorted(self.own_nodes, key=lambda x: (getattr(x, "lineno", 0), getattr(x, "col_offset", 0))):
            if isinstance(n, ast.AugAssign):
                r = root_name(n.target)
                if isinstance(n.target, ast.Name):
                    res.append((r, "aug", inits_of(r)))
                else:
                    ins = inits_of(r)
                    if not self.fresh_element_container(r):
                        ins = ins + (self.element_inits(r) or [])
                    res.append((r, "elemAug", ins))
            elif isinstance(n, ast.Assign):
                for t in n.targets:
                    if isinstance(t, (ast.Subscript, ast.Attribute)):
                        r = root_name(t)
                        if isinstance(t, ast.Attribute) and r == "self":
                            continue         # constructor-style attribute initialisation of the object itself
                        res.append((r, "store", inits_of(r)))
            elif isinstance(n, ast.Expr) and isinstance(n.value, ast.Call) and isinstance(n.value.func, ast.Attribute) \
                    and n.value.func.attr in WRITE_METHODS:
                r = root_name(n.value.func.value)
                res.append((r, "method:" + n.value.func.attr, inits_of(r)))
        return res


def lean_name(qual):
    return "pattern_" + qual.replace(".", "_")


def regenerate():
    os.makedirs(GEN_DIR, exist_ok=True)
    defs, ok, listing = [], True, []
    for rel, qual in ANCHORS:
        fn = live_function(rel, qual)          # dynamic: whatever the name is bound to in the live module
        if fn is None:
            try:
                fn = find_function(ast.parse(src(rel)), qual)   # static fallback
            except Exception:  # noqa: BLE001
                fn = None
        if fn is None:
            ok = False
            defs.append(f"/-- {rel}:{qual} NOT FOUND -/\ndef {lean_name(qual)} : Pattern := "
                        f"⟨{lstr(qual)}, [⟨\"<missing>\", \"missing\", [.unknown]⟩]⟩")
            continue
        ts = Analyser(fn).targets()
        body = ", ".join(f"⟨{lstr(r or '?')}, {lstr(k)}, [{', '.join('.' + i for i in ins)}]⟩" for r, k, ins in ts)
        defs.append(f"/-- {rel}:{getattr(fn, '_first_line', fn.lineno)} -/\ndef {lean_name(qual)} : Pattern := ⟨{lstr(qual)}, [{body}]⟩")
        listing.append(lean_name(qual))
    text = (f"-- GENERATED by harness/translate_c03.py from {common.REPO} -- do not edit\n"
            f"import Bermuda.Model.Heap\n"
            f"namespace Bermuda.Generated.Accum\nopen Bermuda.Heap\n"
            f"def ok : Bool := {str(ok).lower()}\n\n" + "\n\n".join(defs) +
            f"\n\ndef all : List Pattern := [{', '.join(listing)}]\n\nend Bermuda.Generated.Accum\n")
    path = os.path.join(GEN_DIR, "Accum.lean")
    old = open(path).read() if os.path.exists(path) else None
    if old != text:
        with open(path, "w") as f:
            f.write(text)
    return {"Accum": {"ok": ok, "changed": old != text, "functions": len(listing)}}


if __name__ == "__main__":
    print(regenerate())
    print(open(os.path.join(GEN_DIR, "Accum.lean")).read())
