"""C03 translator (round "c03b"): Python AST of /repo  ->  HeapIR programs (lean/Bermuda/Generated/HeapIR.lean).

Run on every check. For every function / method / module-level lambda of the TARGET files the body is
translated into the small imperative language of `lean/Bermuda/Model/HeapIR.lean` (heap effects only:
allocation, aliasing, loads, stores, in-place updates, calls, nondeterministic control flow).
`Properties/C03.lean` proves `all_disciplined : disciplined Generated.HeapIR.program = true` by
`decide +kernel`, and `frame_of_discipline` (proved once) turns that into the frame property for every
translated function, at every call depth, for every branch choice and iteration count.

PARTS
  1. IR + a Python MIRROR of the Lean discipline (`absExec`), used to choose the allocation levels, the
     declared result classes (`retCls`) and to classify failures; Lean re-checks everything.
  2. LEVEL INFERENCE (points-to over allocation sites) - hints only, checked by Lean.
  3. the AST translator with its TABLES OF SUMMARIES for library calls (the trusted base, listed in
     `trusted_summaries()` and written into the evidence).
  4. emission of Generated/HeapIR.lean.

CLASSIFICATION of a translated function
  disciplined     the mirror accepts it -> member of `program`, re-proved by Lean.
  VIOLATING       a store / in-place update / mutating call whose target may be (reachable from) a
                  parameter or a global. Stays in `program`, so `all_disciplined` stops building and the
                  check reports it (the fingerprint search then looks for a concrete failing input).
  notDisciplined  the analysis is too coarse (level typing of nested new containers) or the function
                  calls code that is neither translated nor in the reviewed tables, or it is in the
                  reviewed allow-list NOT_DISCIPLINED below. Covered by the fingerprint correspondence only.
  untranslated    a construct the translator does not handle (reason recorded).
"""
from __future__ import annotations

import ast
import os
import sys

import common
from translate import GEN_DIR, lstr

# ======================================================================================
# 1. IR and the mirror of the Lean discipline
# ======================================================================================

S, A = ("S",), ("A",)            # Cls.scalar, Cls.any ; Cls.lv t = ("L", t) ; t = ("sh", k) | ("deep",) | ("num",)
DEEP, NUM, EXT, NUMS = ("deep",), ("num",), ("ext",), ("nums",)


def SH(k):
    return ("sh", k)


def LV(t):
    return ("L", t)


def lvl_elem(t):
    if t[0] == "sh":
        return None if t[1] == 0 else SH(t[1] - 1)
    if t == DEEP:
        return DEEP
    if t == NUMS:
        return NUM
    return None


def lvl_sub(a, b):
    return a == b or (a == NUM and b != EXT)


def cls_le(c, d):
    if c == S or d == A:
        return True
    if c[0] == "L" and d[0] == "L":
        return lvl_sub(c[1], d[1])
    return False


def cls_join(c, d):
    if cls_le(c, d):
        return d
    if cls_le(d, c):
        return c
    return A


def storable(t, c):
    e = lvl_elem(t)
    return True if e is None else cls_le(c, LV(e))


def mergeable(t, c):
    e = lvl_elem(t)
    return True if e is None else cls_le(c, LV(t))


def load_cls(c):
    if c == S:
        return S
    if c == A:
        return A
    t = c[1]
    if t == NUM:
        return S
    e = lvl_elem(t)
    return A if e is None else LV(e)


class St:
    """one IR statement. op + operands; `line` = source line (diagnostics); `site` for alloc"""
    __slots__ = ("op", "a", "line", "site", "note", "inv")

    def __init__(self, op, *a, line=0, site=None, note=None):
        self.op, self.a, self.line, self.site, self.note = op, a, line, site, note
        self.inv = None          # loop: the invariant found by the mirror (emitted, checked by Lean)


def seq(stmts):
    stmts = [s for s in stmts if s.op != "skip"]
    if not stmts:
        return St("skip")
    if len(stmts) == 1:
        return stmts[0]
    return St("seq", stmts)


# --- abstract environments: dict var -> cls, missing = S ------------------------------

def env_get(a, x):
    return a.get(x, S)


def env_set(a, x, c):
    b = dict(a)
    if c == S:
        b.pop(x, None)
    else:
        b[x] = c
    return b


def env_join(a, b):
    out = {}
    for k in set(a) | set(b):
        c = cls_join(a.get(k, S), b.get(k, S))
        if c != S:
            out[k] = c
    return out


def env_le(a, b):
    return all(cls_le(c, b.get(k, S)) for k, c in a.items())


def ojoin(a, b):
    if a is None:
        return b
    if b is None or a is b:
        return a
    return env_join(a, b)


LOOP_FUEL = 12


class Mirror:
    """absExec of Model/HeapIR.lean. `level(site)` gives the level of an allocation site; failures are
    collected as (kind, line, text) with kind 'write' (target may be a parameter), 'level' (new object, but
    its level typing does not admit the value) or 'unknown' (untranslated code receives an object)."""

    def __init__(self, sums, rc, level, collect=True, tgt_of=None, wps=None):
        self.sums, self.rc, self.level = sums, rc, level
        self.tgt_of = tgt_of
        self.wps = wps or (lambda g: ())
        self.fails = []
        self.rets = []
        self.collect = collect
        self.in_try = 0          # the exceptional exit is only consumed by `try`: tracked inside try bodies only

    def fail(self, kind, st, text):
        if self.collect:
            if kind == "write" and self.tgt_of is not None:
                t = self.tgt_of(st)
                if t is not None and "ANY" not in t:
                    if "DYN" in t:
                        kind, text = "unknown", "write into the result of a call the analysis cannot see through: " + text
                    else:
                        # the points-to analysis says the target is an object created in this call: the class lattice
                        # lost it (join of unlike levels). Not a write through a parameter.
                        kind, text = "level", "target is a new object, but its class was lost: " + text
            self.fails.append((kind, st.line, text, st))

    def prim(self, ok, a, a2):
        return (ok, a2, a if self.in_try else None, None)

    def run(self, st, a):
        """-> (ok, norm, exc, brk)"""
        op, x = st.op, st.a
        if op == "skip":
            return self.prim(True, a, a)
        if op == "alloc":
            var, kind, ys = x
            t = self.level(st.site)
            ok = True
            if kind == "dict":
                ok = t != NUM and t != EXT
            elif kind == "arr":
                ok = t != EXT
            elif kind == "lit":
                ok = t != NUM and t != EXT and all(storable(t, env_get(a, y)) for y in ys)
            elif kind == "union":
                ok = t != NUM and t != EXT and all(mergeable(t, env_get(a, y)) for y in ys)
            elif kind == "deep":
                ok = t == DEEP
            if not ok:
                self.fail("level", st, f"new object of level {t} built from {[env_get(a, y) for y in ys]}")
            return self.prim(ok, a, env_set(a, var, LV(t)))
        if op == "bind":
            return self.prim(True, a, env_set(a, x[0], env_get(a, x[1])))
        if op == "const":
            return self.prim(True, a, env_set(a, x[0], S))
        if op == "arith":
            return self.prim(True, a, env_set(a, x[0], LV(NUM)))
        if op == "havoc":
            return self.prim(True, a, env_set(a, x[0], A))
        if op == "load":
            return self.prim(True, a, env_set(a, x[0], load_cls(env_get(a, x[1]))))
        if op == "store":
            cx, cv = env_get(a, x[0]), env_get(a, x[1])
            if cx == S:
                ok = True
            elif cx == A:
                ok = False
                self.fail("write", st, st.note or "store through a reference that may reach a parameter/global")
            else:
                ok = storable(cx[1], cv)
                if not ok:
                    self.fail("level", st, f"store of {cv} into new object of level {cx[1]}")
            return self.prim(ok, a, a)
        if op == "merge":
            cx, cv = env_get(a, x[0]), env_get(a, x[1])
            if cx == S:
                ok = True
            elif cx == A:
                ok = False
                self.fail("write", st, st.note or "update/extend of an object that may reach a parameter/global")
            else:
                ok = mergeable(cx[1], cv)
                if not ok:
                    self.fail("level", st, f"merge of {cv} into new object of level {cx[1]}")
            return self.prim(ok, a, a)
        if op == "shrink":
            ok = env_get(a, x[0]) != A
            if not ok:
                self.fail("write", st, st.note or "in-place change of an object that may reach a parameter/global")
            return self.prim(ok, a, a)
        if op == "aug":
            cx, cv = env_get(a, x[0]), env_get(a, x[1])
            if cx == S:
                return self.prim(True, a, env_set(a, x[0], LV(NUM)))
            if cx == A:
                self.fail("write", st, st.note or "augmented assignment on a reference that may reach a parameter/global")
                return self.prim(False, a, a)
            ok = mergeable(cx[1], cv) and cx[1] != EXT
            if not ok:
                self.fail("level", st, f"augmented assignment: {cv} into new object of level {cx[1]}")
            return self.prim(ok, a, a)
        if op == "call":
            var, f, args = x
            ok = True
            for j in self.wps(f):
                c = env_get(a, args[j]) if j < len(args) else S
                if st.note == "unaligned" or not (c == S or (c[0] == "L" and lvl_elem(c[1]) is None)):
                    ok = False
            if not ok:
                self.fail("write", st, f"an object that may be protected is handed to a parameter that `{f}` writes")
            return self.prim(ok, a, env_set(a, var, self.sums(f)))
        if op == "unknown":
            ok = all(env_get(a, y) == S for y in x[0])
            if not ok:
                self.fail("unknown", st, st.note or "call of code that is not translated / not in the reviewed tables")
            return self.prim(ok, a, a)
        if op == "seq":
            ok, cur, exc, brk = True, a, None, None
            for s in x[0]:
                o1, n1, e1, b1 = self.run(s, cur)
                ok = ok and o1
                exc, brk = ojoin(exc, e1), ojoin(brk, b1)
                if n1 is None:
                    return (ok, None, exc, brk)
                cur = n1
            return (ok, cur, exc, brk)
        if op == "ite":
            o1, n1, e1, b1 = self.run(x[0], a)
            o2, n2, e2, b2 = self.run(x[1], a)
            return (o1 and o2, ojoin(n1, n2), ojoin(e1, e2), ojoin(b1, b2))
        if op == "loop":
            inv = a
            keep = self.collect
            self.collect = False
            for _ in range(LOOP_FUEL):
                _, n1, _, _ = self.run(x[0], inv)
                if n1 is None or env_le(n1, inv):
                    break
                inv = env_join(inv, n1)
            self.collect = keep
            st.inv = inv
            o1, n1, e1, b1 = self.run(x[0], inv)
            stable = env_le(a, inv) and (n1 is None or env_le(n1, inv))
            if not stable:
                self.fail("level", st, "loop invariant not reached within the fuel")
            return (o1 and stable, inv, e1, b1)
        if op == "block":
            o1, n1, e1, b1 = self.run(x[0], a)
            return (o1, ojoin(n1, b1), e1, None)
        if op == "brk":
            return (True, None, None, a)
        if op == "try":
            self.in_try += 1
            o1, n1, e1, b1 = self.run(x[0], a)
            self.in_try -= 1
            if e1 is None:
                return (o1, n1, e1, b1)
            o2, n2, e2, b2 = self.run(x[1], e1)
            return (o1 and o2, ojoin(n1, n2), e2, ojoin(b1, b2))
        if op == "ret":
            c = env_get(a, x[0])
            self.rets.append(c)
            ok = cls_le(c, self.rc)
            if not ok:
                self.fail("level", st, f"returned class {c} not within declared {self.rc}")
            return (ok, None, None, None)
        if op == "raise":
            return (True, None, a if self.in_try else None, None)
        raise AssertionError(op)


# Lean's `seq` is binary; the mirror's n-ary `seq` is its right/balanced nesting: `absExec` of a nested
# seq equals the left-to-right fold above (ok conjunction, exits joined in order; join is used
# associatively on identical operands), except that Lean stops at `norm = none` in the same way.

# ======================================================================================
# 2. level inference (hints; Lean checks the result)
# ======================================================================================

class Levels:
    """points-to over the allocation sites of ONE function (flow-sensitive in the variables, one global
    contents map per site), then levels from the contents graph"""

    def __init__(self, fn, ret_cls_of, wps=None):
        self.fn = fn
        self.ret_cls_of = ret_cls_of
        self.wps = wps or (lambda g: ())
        self.written = set()     # positions of unprotected parameters whose object this function (or a callee) writes
        self.cont = {}         # site -> set of atoms ('ANY' | site)
        self.fixed = {}        # site -> level (results of calls, deepcopy, arithmetic)
        self.msrc = {}         # site -> sites whose entries were merged into it
        self.changed = True
        self.in_try = 0
        self.tgt = {}          # id(write statement) -> atoms its target may be
        self.forced = {}       # site -> level imposed by the repair loop

    def addc(self, site, atoms):
        old = self.cont.get(site, frozenset())
        new = old | frozenset(atoms)
        if new != old:
            self.cont[site] = new
            self.changed = True

    def addm(self, site, atoms):
        new = {a for a in atoms if a not in ("ANY", "DYN") and a[0] != "EXT"} - self.msrc.get(site, set())
        if new:
            self.msrc.setdefault(site, set()).update(new)
            self.changed = True

    def contents_of(self, atoms):
        out = set()
        for at in atoms:
            if at in ("ANY", "DYN"):
                out.add(at)
            elif at[0] == "EXT":
                out.add("ANY")           # what an unprotected object contains may be anything
            else:
                out |= self.cont.get(at, frozenset())
        return out

    def pseudo(self, key, t):
        """site chain for a value of fixed level t"""
        site = ("fx", key, t)
        self.fixed[site] = t
        e = lvl_elem(t)
        if t == NUM or t == DEEP or t == NUMS:
            pass
        elif e is None:
            self.addc(site, {"ANY"})
        else:
            self.addc(site, {self.pseudo(key, e)})
        return site

    @staticmethod
    def ejoin(a, b):
        if a is None:
            return b
        if b is None:
            return a
        if a is b:
            return a
        out = dict(a)
        for k, v in b.items():
            o = out.get(k)
            out[k] = v if o is None else (o | v)
        return out

    def run(self, st, env):
        """-> (norm, exc, brk) environments: var -> frozenset of atoms (missing = immutable value)"""
        op, x = st.op, st.a
        E = frozenset()

        def P(v):
            return env.get(v, E)

        def setv(v, atoms):
            e2 = dict(env)
            e2[v] = frozenset(atoms)
            return e2
        if op == "skip":
            return env, (env if self.in_try else None), None
        if op == "alloc":
            var, kind, ys = x
            site = st.site
            if kind == "arr":
                self.fixed[site] = NUM
            elif kind == "deep":
                self.fixed[site] = DEEP
            elif kind == "lit":
                for y in ys:
                    self.addc(site, P(y))
            elif kind == "union":
                for y in ys:
                    self.addc(site, self.contents_of(P(y)))
                    self.addm(site, P(y))
            return setv(var, {site}), (env if self.in_try else None), None
        if op == "bind":
            return setv(x[0], P(x[1])), (env if self.in_try else None), None
        if op == "const":
            return setv(x[0], E), (env if self.in_try else None), None
        if op == "arith":
            site = ("fx", id(st), NUM)
            self.fixed[site] = NUM
            return setv(x[0], {site}), (env if self.in_try else None), None
        if op == "havoc":
            # the result of a callback / dynamically chosen callee / untranslated call is kept apart from "reaches a
            # parameter": a write into it is reported as lost coverage, not as a violation
            return setv(x[0], {"DYN" if st.note == "dyn" else "ANY"}), (env if self.in_try else None), None
        if op == "load":
            return setv(x[0], self.contents_of(P(x[1]))), (env if self.in_try else None), None
        if op in ("store", "merge", "aug", "shrink"):
            self.tgt[id(st)] = self.tgt.get(id(st), frozenset()) | P(x[0])
            self.written |= {at[1] for at in P(x[0]) if at[0] == "EXT"}
        if op == "store":
            for s in P(x[0]):
                if s not in ("ANY", "DYN") and s[0] != "EXT":
                    self.addc(s, P(x[1]))
            return env, (env if self.in_try else None), None
        if op in ("merge", "aug"):
            if op == "aug" and not P(x[0]):
                site = ("fx", id(st), NUM)
                self.fixed[site] = NUM
                return setv(x[0], {site}), (env if self.in_try else None), None
            for s in P(x[0]):
                if s not in ("ANY", "DYN") and s[0] != "EXT":
                    self.addc(s, self.contents_of(P(x[1])))
                    self.addm(s, P(x[1]))
            return env, (env if self.in_try else None), None
        if op in ("shrink", "unknown"):
            return env, (env if self.in_try else None), None
        if op == "call":
            var, f, cargs = x
            for j in self.wps(f):
                if j < len(cargs):
                    self.tgt[id(st)] = self.tgt.get(id(st), frozenset()) | P(cargs[j])
                    self.written |= {at[1] for at in P(cargs[j]) if at[0] == "EXT"}
            c = self.ret_cls_of(f)
            if c == A:
                return setv(var, {"ANY"}), (env if self.in_try else None), None
            if c == S:
                return setv(var, E), (env if self.in_try else None), None
            return setv(var, {self.pseudo(id(st), c[1])}), (env if self.in_try else None), None
        if op == "seq":
            cur, exc, brk = env, None, None
            for s in x[0]:
                n1, e1, b1 = self.run(s, cur)
                exc, brk = self.ejoin(exc, e1), self.ejoin(brk, b1)
                if n1 is None:
                    return None, exc, brk
                cur = n1
            return cur, exc, brk
        if op == "ite":
            n1, e1, b1 = self.run(x[0], env)
            n2, e2, b2 = self.run(x[1], env)
            return self.ejoin(n1, n2), self.ejoin(e1, e2), self.ejoin(b1, b2)
        if op == "loop":
            inv = env
            for _ in range(20):
                n1, e1, b1 = self.run(x[0], inv)
                nxt = self.ejoin(inv, n1)
                if nxt == inv:
                    break
                inv = nxt
            n1, e1, b1 = self.run(x[0], inv)
            return inv, e1, b1
        if op == "block":
            n1, e1, b1 = self.run(x[0], env)
            return self.ejoin(n1, b1), e1, None
        if op == "brk":
            return None, None, env
        if op == "try":
            self.in_try += 1
            n1, e1, b1 = self.run(x[0], env)
            self.in_try -= 1
            if e1 is None:
                return n1, e1, b1
            n2, e2, b2 = self.run(x[1], e1)
            return self.ejoin(n1, n2), e2, self.ejoin(b1, b2)
        if op == "ret":
            return None, None, None
        if op == "raise":
            return None, (env if self.in_try else None), None
        raise AssertionError(op)

    def solve(self):
        env0 = {p: frozenset({"ANY"}) for p in self.fn.params}
        for pos in getattr(self.fn, "unprot", ()):
            env0[self.fn.params[pos]] = frozenset({("EXT", pos)})
        n = 0
        while self.changed and n < 12:
            self.changed = False
            self.run(self.fn.body, env0)
            n += 1
        return self.assign()

    def assign(self):
        sites = set(self.cont) | set(self.fixed) | set(self.msrc)
        for atoms in list(self.cont.values()) + list(self.msrc.values()):
            sites |= {a for a in atoms if a not in ("ANY", "DYN") and a[0] != "EXT"}
        level, state = {}, {}
        for s_, t_ in self.forced.items():
            level[s_] = t_
            state[s_] = False

        def paramfree(s, stack=()):
            # nothing but new containers / numbers below s
            if s in state:
                return state[s]
            if s in stack:
                return True
            if s in self.fixed:
                r = self.fixed[s] in (DEEP, NUM, NUMS)
            else:
                r = all(c not in ("ANY", "DYN") and c[0] != "EXT" and paramfree(c, stack + (s,)) for c in self.cont.get(s, ()))
            state[s] = r
            return r

        def lvl(s, stack=()):
            if s in level:
                return level[s]
            if s in self.fixed:
                level[s] = self.fixed[s]
                return level[s]
            if s in stack:
                return SH(0)
            if paramfree(s):
                return None            # flexible: decided top-down
            cs = self.cont.get(s, ())
            if "ANY" in cs or "DYN" in cs or any(c[0] == "EXT" for c in cs):
                r = SH(0)
            else:
                ls = {lvl(c, stack + (s,)) for c in cs}
                ls.discard(None)
                ls.discard(NUM)
                if len(ls) == 1:
                    (l0,) = ls
                    r = DEEP if l0 == DEEP else (SH(l0[1] + 1) if l0[1] < 3 else SH(0))
                else:
                    r = SH(0)
            level[s] = r
            return r

        for s in sites:
            lvl(s)
        # flexible (parameter-free) sites can take any level whose entry constraints their entries can meet
        hmemo = {}

        def height(s, stack=()):
            if s in hmemo:
                return hmemo[s]
            if s in stack:
                return 99
            if s in self.fixed:
                return 0 if self.fixed[s] == NUM else 99
            hs = [height(c, stack + (s,)) for c in self.cont.get(s, ()) if c not in ("ANY", "DYN") and c[0] != "EXT"]
            hs = [h for h in hs if h != 0]
            r = 1 if not hs else (99 if max(hs) >= MAX_SH else 1 + max(hs))
            hmemo[s] = r
            return r

        self.given = set()        # flexible sites whose level was imposed by a container they are stored in
        self.natural = {}

        def give(s, t, imposed=True):
            if s in level:
                return
            level[s] = t
            if imposed:
                self.given.add(s)
            e = lvl_elem(t)
            if e is not None:
                for c in self.cont.get(s, ()):
                    if c not in ("ANY", "DYN") and c[0] != "EXT":
                        give(c, e)
                for c in self.msrc.get(s, ()):
                    give(c, t)

        for s in list(sites):
            if s in level:
                t = level[s]
                e = lvl_elem(t)
                if e is not None:
                    for c in self.cont.get(s, ()):
                        if c not in ("ANY", "DYN") and c[0] != "EXT" and c not in level:
                            give(c, e)
                    for c in self.msrc.get(s, ()):
                        if c not in level:
                            give(c, t)
        rest = sorted((s for s in sites if s not in level), key=lambda s: -height(s))
        for s in rest:
            h = height(s)
            give(s, DEEP if h >= 99 else (NUMS if h <= 1 else SH(h)), imposed=False)
        for s in sites:
            if s not in self.fixed and s not in self.forced:
                h = height(s) if paramfree(s) else None
                if h is not None:
                    self.natural[s] = DEEP if h >= 99 else (NUMS if h <= 1 else SH(h))
        return level


# ======================================================================================
# 4. emission
# ======================================================================================

def lean_lvl(t):
    if t[0] == "sh":
        return f"(.sh {t[1]})"
    return {DEEP: ".deep", NUM: ".num", EXT: ".ext", NUMS: ".nums"}[t]


def lean_cls(c):
    if c == S:
        return ".scalar"
    if c == A:
        return ".any"
    return f"(.lv {lean_lvl(c[1])})"


def lean_vars(vs):
    return "[" + ", ".join(str(v) for v in vs) + "]"


def lean_stmt(st, level, index_of):
    op, x = st.op, st.a
    if op == "skip":
        return ".skip"
    if op == "alloc":
        var, kind, ys = x
        t = lean_lvl(level(st.site))
        if kind == "dict":
            al = ".dict"
        elif kind == "arr":
            al = ".arr"
        elif kind == "lit":
            al = "(.lit [" + ", ".join(f'("", {y})' for y in ys) + "])"
        elif kind == "union":
            al = f"(.union {lean_vars(ys)})"
        else:
            al = f"(.deep {ys[0]})"
        return f"(.alloc {var} {t} {al})"
    if op in ("bind", "aug", "merge"):
        return f"(.{op} {x[0]} {x[1]})"
    if op in ("const", "arith", "havoc", "shrink", "ret"):
        return f"(.{op} {x[0]})"
    if op == "load":
        return f"(.load {x[0]} {x[1]} .dyn)"
    if op == "store":
        return f"(.store {x[0]} .dyn {x[1]})"
    if op == "call":
        return f"(.call {x[0]} {index_of(x[1])} {lean_vars(x[2])})"
    if op == "unknown":
        return f"(.unknown {lean_vars(x[0])})"
    if op == "seq":
        items = x[0]

        def bal(lo, hi):
            if hi - lo == 1:
                return lean_stmt(items[lo], level, index_of)
            mid = (lo + hi) // 2
            return f"(.seq {bal(lo, mid)} {bal(mid, hi)})"
        return bal(0, len(items))
    if op in ("ite", "try"):
        name = ".ite" if op == "ite" else ".«try»"
        return f"({name} {lean_stmt(x[0], level, index_of)} {lean_stmt(x[1], level, index_of)})"
    if op == "loop":
        inv = st.inv or {}
        n = (max(inv) + 1) if inv else 0
        return f"(.loop [{', '.join(lean_cls(inv.get(i, S)) for i in range(n))}] {lean_stmt(x[0], level, index_of)})"
    if op == "block":
        return f"(.block {lean_stmt(x[0], level, index_of)})"
    if op == "brk":
        return ".brk"
    if op == "raise":
        return ".raise"
    raise AssertionError(op)


# ======================================================================================
# 3. the AST translator
# ======================================================================================

# ---- 3a. TABLES OF SUMMARIES (trusted base; reviewed by hand) -------------------------
# kind of result:
#   scalar       immutable value (number, str, date, bool, None, class, function, exception object)
#   num          a number or a NEW array; nothing is written
#   shallow      a NEW container holding (some of) the entries of the container arguments
#   shallow_any  a NEW object that may hold references to the arguments and to anything they reach
#   elem         an element of the first argument (or an immutable value)
#   alias        the first argument itself, something inside it, or a new array
# Nothing in these tables writes into an argument, with the exceptions listed in LIB_WRITES /
# METHOD_WRITES / the keyword rules (`out=`, `inplace=`, `overwrite_input=`, `copy=False`).

BUILTIN_SUMMARY = {
    "scalar": ["len", "isinstance", "issubclass", "callable", "hash", "repr", "str", "int", "float", "bool", "abs",
               "round", "any", "all", "id", "type", "ord", "chr", "print", "format", "hasattr", "range", "slice",
               "divmod", "pow", "bytes", "complex", "object", "NotImplementedError", "Exception", "ValueError",
               "TypeError", "KeyError", "IndexError", "AttributeError", "RuntimeError", "StopIteration",
               "AssertionError", "ZeroDivisionError", "OSError", "IOError", "FileNotFoundError", "Warning",
               "UserWarning", "DeprecationWarning", "input", "open", "super", "memoryview", "bytearray",
               "property", "staticmethod", "classmethod", "vars_readonly"],
    "num": ["sum"],
    "shallow": ["list", "tuple", "set", "frozenset", "dict", "sorted", "reversed", "filter", "zip", "enumerate"],
    "shallow_any": ["map"],
    "elem": ["min", "max", "next"],
    "alias": ["iter", "getattr", "vars"],
}

LIB_SUMMARY = {
    "scalar": [
        "numpy.isscalar", "numpy.ndim", "numpy.shape", "numpy.size", "numpy.array_equal", "numpy.allclose",
        "numpy.issubdtype", "numpy.dtype", "numpy.random.seed", "numpy.float64", "numpy.int64", "numpy.isclose_scalar",
        "pandas.isna", "pandas.isnull", "pandas.Period", "pandas.Timestamp",
        "re.fullmatch", "re.compile", "re.sub", "re.match", "re.search", "re.findall", "re.split",
        "datetime.date", "datetime.datetime", "datetime.timedelta", "datetime.datetime.strptime", "datetime.date.today",
        "datetime.datetime.now", "datetime.date.fromisoformat", "datetime.datetime.fromisoformat",
        "datetime.date.fromordinal", "dateutil.relativedelta.relativedelta", "calendar.monthrange", "calendar.isleap",
        "struct.pack", "struct.unpack", "struct.calcsize", "struct.Struct", "json.dumps", "json.dump", "warnings.warn", "typing.get_args",
        "typing.cast", "os.path.join", "os.path.expanduser", "os.path.exists", "os.path.splitext", "os.path.basename",
        "os.path.dirname", "os.remove", "os.makedirs", "pathlib.Path", "math.floor", "math.ceil", "math.sqrt",
        "math.log", "math.exp", "math.isnan", "math.isclose", "math.gcd", "math.fsum", "math.prod", "math.isfinite",
        "math.pow", "math.log10", "math.copysign", "math.trunc", "math.fabs", "math.modf",
        "string.capwords", "collections.namedtuple", "functools.wraps", "functools.cache", "functools.lru_cache",
        "functools.cached_property", "functools.reduce_scalar", "dataclasses.dataclass", "dataclasses.field",
        "dataclasses.fields", "dataclasses.is_dataclass", "babel.numbers.get_currency_symbol", "zlib.compress",
        "zlib.decompress", "zlib.crc32", "gzip.open", "io.BytesIO", "io.StringIO", "tempfile.NamedTemporaryFile",
        "operator.itemgetter", "operator.attrgetter", "altair.renderers.enable", "altair.theme.register",
        "altair.data_transformers.disable_max_rows", "altair.data_transformers.enable", "uuid.uuid4", "textwrap.dedent",
        "html.escape", "inspect.signature", "bisect.bisect_left", "bisect.bisect_right", "bisect.bisect",
        "sys.exit", "time.time", "abc.abstractmethod", "gzip.GzipFile", "io.BufferedReader", "io.BufferedWriter",
        "awswrangler.s3.upload", "awswrangler.s3.to_csv", "awswrangler.s3.download", "boto3.client", "boto3.Session",
        "pandas.api.types.is_datetime64_any_dtype", "pandas.api.types.is_numeric_dtype", "pandas.api.types.is_string_dtype",
        "pandas.api.types.is_object_dtype", "pandas.api.types.is_float_dtype", "pandas.api.types.is_integer_dtype",
    ],
    "num": [
        "numpy.sum", "numpy.mean", "numpy.median", "numpy.std", "numpy.var", "numpy.min", "numpy.max", "numpy.amin",
        "numpy.amax", "numpy.quantile", "numpy.percentile", "numpy.array", "numpy.zeros", "numpy.ones", "numpy.empty",
        "numpy.full", "numpy.zeros_like", "numpy.ones_like", "numpy.empty_like", "numpy.full_like", "numpy.arange",
        "numpy.linspace", "numpy.concatenate", "numpy.repeat", "numpy.tile", "numpy.exp", "numpy.log", "numpy.log10",
        "numpy.log1p", "numpy.expm1", "numpy.sqrt", "numpy.floor", "numpy.ceil", "numpy.diff", "numpy.interp",
        "numpy.maximum", "numpy.minimum", "numpy.searchsorted", "numpy.all", "numpy.any", "numpy.isnan", "numpy.isinf",
        "numpy.isfinite", "numpy.isclose", "numpy.where", "numpy.cumsum", "numpy.cumprod", "numpy.prod", "numpy.dot",
        "numpy.outer", "numpy.abs", "numpy.absolute", "numpy.round", "numpy.around", "numpy.clip", "numpy.argsort",
        "numpy.sort", "numpy.unique", "numpy.stack", "numpy.vstack", "numpy.hstack", "numpy.column_stack",
        "numpy.nan_to_num", "numpy.nanmean", "numpy.nansum", "numpy.nanmax", "numpy.nanmin", "numpy.average",
        "numpy.power", "numpy.multiply", "numpy.add", "numpy.subtract", "numpy.divide", "numpy.true_divide",
        "numpy.sign", "numpy.argmax", "numpy.argmin", "numpy.count_nonzero", "numpy.nonzero", "numpy.flatnonzero",
        "numpy.take", "numpy.delete", "numpy.insert", "numpy.append", "numpy.copy", "numpy.matmul", "numpy.cov",
        "numpy.corrcoef", "numpy.histogram", "numpy.bincount", "numpy.digitize", "numpy.frombuffer_copy",
        "numpy.random.choice", "numpy.random.gamma", "numpy.random.lognormal", "numpy.random.normal",
        "numpy.random.uniform", "numpy.random.rand", "numpy.random.randn", "numpy.random.randint",
        "numpy.random.permutation", "numpy.random.exponential", "numpy.random.beta", "numpy.random.poisson",
        "numpy.random.binomial", "scipy.stats.trim_mean", "scipy.stats.rankdata",
    ],
    "shallow": [
        "toolz.keyfilter", "toolz.valfilter", "toolz.itemfilter", "toolz.merge", "toolz.concat", "toolz.unique",
        "toolz.take", "toolz.drop", "toolz.partition_all", "toolz.sliding_window", "toolz.interleave",
        "collections.OrderedDict", "itertools.chain", "itertools.chain.from_iterable", "itertools.islice",
        "itertools.product", "itertools.combinations", "itertools.groupby", "itertools.zip_longest",
        "itertools.accumulate_refs", "itertools.repeat", "itertools.tee", "frozendict.frozendict", "copy.copy",
        "collections.Counter", "collections.deque", "collections.ChainMap", "types.MappingProxyType",
        "types.SimpleNamespace",
    ],
    "shallow_any": [
        "pandas.DataFrame", "pandas.Series", "pandas.PeriodIndex", "pandas.to_datetime", "pandas.concat",
        "pandas.DatetimeIndex", "pandas.Index", "pandas.MultiIndex.from_tuples", "pandas.read_csv", "pandas.merge",
        "pandas.to_numeric", "pandas.date_range", "pandas.period_range",
        "toolz.valmap", "toolz.keymap", "toolz.itemmap", "toolz.mapcat", "toolz.map", "toolz.reduceby",
        "toolz.countby", "toolz.frequencies", "toolz.pluck",
        "functools.partial", "toolz.partial", "toolz.curry", "toolz.compose", "functools.reduce", "awswrangler.s3.read_csv", "chainladder.Triangle", "scipy.interpolate.interp1d", "numpy.random.default_rng",
        "numpy.random.RandomState", "numpy.vectorize", "json.load", "json.loads", "pickle.loads",
        "chainladder.Triangle",
    ],
    "elem": ["toolz.first", "toolz.last", "toolz.second", "toolz.nth", "toolz.get", "toolz.get_in", "random.choice"],
    "alias": ["numpy.asarray", "numpy.asanyarray", "numpy.atleast_1d", "numpy.atleast_2d", "numpy.squeeze",
              "numpy.ravel", "numpy.reshape", "numpy.transpose", "numpy.ascontiguousarray", "numpy.broadcast_to",
              "numpy.expand_dims", "numpy.moveaxis", "numpy.swapaxes", "numpy.real", "toolz.identity",
              "numpy.frombuffer", "numpy.nditer"],
}
LIB_PREFIX_SUMMARY = [("altair.", "shallow_any")]        # chart builders: new chart objects around their arguments
# library functions that WRITE: dotted name -> index of the written argument
LIB_WRITES = {"numpy.put": 0, "numpy.place": 0, "numpy.copyto": 0, "numpy.fill_diagonal": 0, "numpy.putmask": 0,
              "numpy.random.shuffle": 0, "random.shuffle": 0, "numpy.ndarray.sort": 0, "numpy.ndarray.fill": 0,
              "heapq.heappush": 0, "heapq.heappop": 0, "heapq.heapify": 0, "bisect.insort": 0,
              "bisect.insort_left": 0, "bisect.insort_right": 0, "setattr": 0, "delattr": 0,
              "object.__setattr__": 0, "object.__delattr__": 0, "operator.setitem": 0, "operator.delitem": 0,
              "operator.iadd": 0, "operator.imul": 0}
# keywords that turn a pure library function into a writer of the given argument
WRITE_KEYWORDS = {"out": "kw", "overwrite_input": 0, "inplace": "recv", "copy": "alias"}

# methods that write their RECEIVER (method name -> IR statement)
METHOD_WRITES = {
    "append": "store", "add": "store", "insert": "store", "appendleft": "store", "__setitem__": "store",
    "extend": "merge", "update": "merge", "extendleft": "merge", "__ior__": "merge", "__iadd__": "merge",
    "difference_update": "shrink", "intersection_update": "shrink", "symmetric_difference_update": "merge",
    "pop": "shrink", "popitem": "shrink", "popleft": "shrink", "remove": "shrink", "discard": "shrink",
    "clear": "shrink", "sort": "shrink", "reverse": "shrink", "fill": "shrink", "resize": "shrink",
    "put": "shrink", "itemset": "shrink", "partition": "shrink", "setflags": "shrink", "byteswap_inplace": "shrink",
    "setdefault": "store", "__delitem__": "shrink", "move_to_end": "shrink", "rotate": "shrink",
}
# methods that write their FIRST ARGUMENT (generator / random state methods)
METHOD_WRITES_ARG0 = {"shuffle"}

METHOD_SUMMARY = {
    "scalar": ["lower", "upper", "strip", "lstrip", "rstrip", "split", "rsplit", "splitlines", "startswith",
               "endswith", "format", "capwords", "capitalize", "zfill", "ljust", "rjust", "center", "isdigit",
               "isalpha", "isnumeric", "count", "find", "rfind", "group", "groups", "span", "sub", "fullmatch", "match",
               "search", "findall", "strftime", "isoformat", "date", "toordinal", "weekday", "timetuple", "timestamp",
               "to_timestamp", "to_pydatetime", "total_seconds", "item", "tobytes", "pack", "unpack", "pack_into_none", "hex", "decode", "issubset",
               "issuperset", "isdisjoint", "index", "is_integer", "bit_length", "as_integer_ratio", "conjugate",
               "write", "writelines", "flush", "close", "seek", "tell", "read", "readline", "readlines", "__hash__",
               "__eq__", "__ne__", "__lt__", "__le__", "__gt__", "__ge__", "__len__", "__contains__", "__repr__",
               "__str__", "peek", "readinto_none", "expanduser", "exists", "with_suffix", "resolve_path", "upload", "title_str"],
    "num": ["astype", "sum", "mean", "min", "max", "std", "var", "any", "all", "argsort", "cumsum", "cumprod", "round",
            "prod", "dot", "nonzero", "argmax", "argmin", "flatten", "tolist", "choice", "uniform", "normal", "gamma",
            "lognormal", "integers", "random", "permutation", "exponential", "beta", "poisson", "binomial",
            "standard_normal", "isna", "isnull", "notna", "quantile", "median", "repeat", "searchsorted", "to_list", "nunique", "trim_mean"],
    "shallow": ["items", "keys", "values", "copy", "difference", "union", "intersection", "symmetric_difference",
                "most_common", "elements", "__or__", "__and__"],
    "shallow_any": ["apply", "iterrows", "itertuples", "groupby", "reset_index", "set_index", "rename", "drop",
                    "to_csv", "to_dict", "to_frame", "to_records", "assign", "merge_frames", "pivot", "pivot_table",
                    "melt", "sort_values", "sort_index", "dropna", "fillna", "agg", "aggregate_frames", "transform",
                    "map", "applymap", "explode", "stack", "unstack", "head", "tail", "sample", "astype_frame", "loc",
                    "iloc", "isin", "between", "to_period", "dt", "partial", "val_to_dev", "dev_to_val", "to_frame_cl",
                    # altair builders
                    "encode", "mark_area", "mark_bar", "mark_boxplot", "mark_circle", "mark_errorbar", "mark_line",
                    "mark_point", "mark_rect", "mark_rule", "mark_text", "mark_tick", "mark_errorband", "properties",
                    "interactive", "configure_axis", "configure_legend", "configure_mark", "configure_view",
                    "configure_title", "configure_concat", "configure_facet", "configure_header", "resolve_scale",
                    "resolve_legend", "resolve_axis", "transform_filter", "transform_calculate", "transform_loess",
                    "transform_fold", "transform_aggregate", "transform_window", "transform_regression",
                    "add_params", "add_selection", "facet", "repeat_chart", "title", "legend", "axis", "scale",
                    "then", "otherwise", "bin", "tooltip", "sort_enc", "stack_enc", "when", "to_json", "save",
                    "to_dict_chart", "resolve_indices", "impute", "band", "format_enc", "labelExpr", "type_enc"],
    "elem": [],
    "elemdef": ["get"],
    "alias": ["reshape", "ravel", "squeeze", "transpose", "view", "swapaxes", "to_numpy", "__getitem__",
              "__iter__", "__next__", "__enter__", "result", "clip_array", "join_path"],
}
# `x.join(parts)` on a str and `x.replace(..)` on a str/date are immutable-value methods; they are offered as
# alternatives next to bermuda methods of the same name
METHOD_SUMMARY["scalar"] += ["join", "replace", "title"]

# methods called on builtin type names
BUILTIN_DOTTED = {"dict.fromkeys": "shallow_any", "str.join": "scalar", "str.maketrans": "scalar", "int.from_bytes": "scalar",
                  "float.fromhex": "scalar", "bytes.fromhex": "scalar", "str.format": "scalar", "str.lower": "scalar",
                  "str.upper": "scalar", "dict.get": "alias", "dict.items": "shallow", "dict.keys": "shallow",
                  "dict.values": "shallow", "list.copy": "shallow", "dict.copy": "shallow", "set.union": "shallow",
                  "set.intersection": "shallow", "frozenset.union": "shallow", "object.__new__": "shallow_any",
                  "object.__repr__": "scalar", "object.__hash__": "scalar", "object.__eq__": "scalar",
                  "type.__call__": "shallow_any"}
_BUILTIN = {n: k for k, ns in BUILTIN_SUMMARY.items() for n in ns}
_LIB = {n: k for k, ns in LIB_SUMMARY.items() for n in ns}
_METH = {}
for _k, _ns in METHOD_SUMMARY.items():
    for _n in _ns:
        _METH.setdefault(_n, _k)

# attributes stored as entries of the object itself; all other attributes are stored in a box (see Builder.attr_load)
DIRECT_ATTRS = {"values", "_values"}

# callees assumed PURE although not translated: callable parameters / callable values taken from containers
# (`func_or_val(cell)`, `metric(cell)`, `summary_fns[k](values)`): the property presumes pure callbacks, and a
# library function reached this way is translated and checked on its own.

# reviewed allow-list: qualified name -> reason the function is not in `program` although a 'write' is reported
NOT_DISCIPLINED = {
    "bermuda.io.binary_input:_BodyRawIO.readinto":
        "io.RawIOBase.readinto fills the caller's buffer by contract (not a Triangle/Cell/Metadata argument)",
    "bermuda.io.binary_input:_open_s3_stream": "assigns the module-level lazy S3 client cache `_S3`",
    "bermuda.matrix.matrix:Matrix.__setitem__": "`__setitem__` is a mutator of its receiver by contract (Matrix)",
}

# reviewed FALSE ALARMS of the analysis: functions of /repo that the discipline rejects although they write nothing
# that existed before the call (reason given in NOT_DISCIPLINED). A call of one of them is summarised like a pure
# library call (result: anything). They stay covered by the fingerprint correspondence.
REVIEWED_PURE = {}

NOT_DISCIPLINED.update({k: "reviewed false alarm, summarised as pure: " + v for k, v in REVIEWED_PURE.items()})

LIBRARY_MODULE_ROOTS = {"numpy", "pandas", "altair", "toolz", "datetime", "math", "warnings", "dataclasses", "copy",
                        "itertools", "functools", "json", "re", "os", "struct", "zlib", "gzip", "io", "sys",
                        "operator", "bisect", "random", "calendar", "collections", "scipy", "dateutil", "typing",
                        "string", "babel", "frozendict", "tempfile", "pathlib", "chainladder", "abc", "enum",
                        "textwrap", "uuid", "html", "inspect", "time", "pickle", "types", "heapq", "__future__",
                        "importlib", "sparse", "awswrangler", "boto3", "pyarrow", "tqdm", "logging", "contextlib"}


def trusted_summaries():
    """what the evidence lists as the trusted base of the translator"""
    return {
        "pure_results": {k: sorted(set(BUILTIN_SUMMARY.get(k, []) + LIB_SUMMARY.get(k, []))) for k in
                         ("scalar", "num", "shallow", "shallow_any", "elem", "alias")},
        "assumed_annotations_validated_at_run_time": ASSUMED_ANNOTATIONS,
        "pure_methods": METHOD_SUMMARY,
        "prefix_rules": LIB_PREFIX_SUMMARY,
        "writers_of_argument": LIB_WRITES,
        "writers_of_receiver": METHOD_WRITES,
        "writers_of_first_argument_methods": sorted(METHOD_WRITES_ARG0),
        "write_keywords": WRITE_KEYWORDS,
        "reviewed_pure_functions_of_repo": REVIEWED_PURE,
        "unprotected_parameter_annotations": sorted(UNPROTECTED_ANNOTATIONS),
        "attributes_stored_directly_in_the_object (all others: boxed)": sorted(DIRECT_ATTRS),
        "mutators_by_contract_outside_the_program": {k: v for k, v in NOT_DISCIPLINED.items() if k not in REVIEWED_PURE},
        "immutable_annotations": sorted(IMMUTABLE_ANNOTATIONS),
    }


# ---- 3b. modules, classes, functions --------------------------------------------------

class Untranslatable(Exception):
    pass


class ClassInfo:
    def __init__(self, name, mod, node):
        self.name, self.mod, self.node = name, mod, node
        self.bases = []
        self.methods = {}        # name -> key
        self.props = set()
        self.is_exception = False


class FnRec:
    def __init__(self, key, mod, cls, name, node, kind):
        self.key, self.mod, self.cls, self.name, self.node, self.kind = key, mod, cls, name, node, kind
        self.params, self.body, self.nvars, self.varnames = [], None, 0, {}
        self.cached = False
        self.status, self.reason = "pending", ""
        self.ret = S
        self.levels = {}
        self.fails = []
        self.line = getattr(node, "lineno", 0)
        self.callees = set()
        self.ret_args = set()
        self.attached = False
        self.unprot = []          # positions (in params) of parameters annotated with an unprotected type


class ModInfo:
    def __init__(self, rel, tree):
        self.rel = rel
        self.name = rel[:-3].replace("/", ".")
        if self.name.endswith(".__init__"):
            self.name = self.name[:-9]
        self.tree = tree
        self.imports, self.funcs, self.classes, self.consts = {}, {}, {}, set()
        self.scalar_consts = set()     # module constants that hold an immutable value (number, str, compiled pattern, Struct)


def returned_params(node):
    """names of parameters that are returned as they are (`return p`, p never assigned in the function): the
    translator lets the CALLER perform this return (`x = f(a)` becomes `x = call f(a)  or  x = a`), so that the
    callee's declared result class is not forced to `any`"""
    if isinstance(node, ast.Lambda):
        return set()
    a = node.args
    params = [p.arg for p in a.posonlyargs + a.args + a.kwonlyargs]
    assigned = set()
    for n in ast.walk(node):
        if isinstance(n, ast.Name) and isinstance(n.ctx, (ast.Store, ast.Del)):
            assigned.add(n.id)
        elif isinstance(n, (ast.Global, ast.Nonlocal)):
            assigned |= set(n.names)
    out = set()
    stack = list(node.body)
    while stack:
        n = stack.pop()
        if isinstance(n, ast.Return) and isinstance(n.value, ast.Name) and n.value.id in params \
                and n.value.id not in assigned:
            out.add(n.value.id)
        for c in ast.iter_child_nodes(n):
            if not isinstance(c, (ast.FunctionDef, ast.Lambda, ast.ClassDef)):
                stack.append(c)
    return out


# annotations of parameters that are NOT protected by the property (the property protects Triangle / Cell /
# Metadata arguments and everything they reach); unannotated or anything else: protected
UNPROTECTED_ANNOTATIONS = {"DataFrame"}


def unprotected_annotation(ann):
    if ann is None:
        return False
    if isinstance(ann, ast.Constant) and isinstance(ann.value, str):
        try:
            return unprotected_annotation(ast.parse(ann.value, mode="eval").body)
        except SyntaxError:
            return False
    if isinstance(ann, (ast.Name, ast.Attribute)):
        d = dotted(ann) or ""
        return d.split(".")[-1] in UNPROTECTED_ANNOTATIONS
    if isinstance(ann, ast.BinOp) and isinstance(ann.op, ast.BitOr):
        sides = [ann.left, ann.right]
        rest = [x for x in sides if not (isinstance(x, ast.Constant) and x.value is None)]
        return len(rest) == 1 and unprotected_annotation(rest[0])
    if isinstance(ann, ast.Subscript) and (dotted(ann.value) or "").split(".")[-1] == "Optional":
        return unprotected_annotation(ann.slice)
    return False


# parameters WITHOUT an annotation in the source whose type the translator assumes (written like an annotation).
# harness/c03.py wraps these functions and checks the assumption on every call made during the run.
ASSUMED_ANNOTATIONS = {
    "bermuda.date_utils:standardize_resolution": {"resolution": "tuple[int, str]"},
    "bermuda.date_utils:resolution_delta": {"resolution": "tuple[int, str]"},
}


def container_of_immutables(ann):
    """dict[K, float] / list[int] / Sequence[str] / ... (| None): the object is protected like any other, but what is
    taken out of it is an immutable value"""
    if ann is None:
        return False
    if isinstance(ann, ast.Constant) and isinstance(ann.value, str):
        try:
            return container_of_immutables(ast.parse(ann.value, mode="eval").body)
        except SyntaxError:
            return False
    if isinstance(ann, ast.BinOp) and isinstance(ann.op, ast.BitOr):
        sides = [x for x in (ann.left, ann.right) if not (isinstance(x, ast.Constant) and x.value is None)]
        return len(sides) == 1 and container_of_immutables(sides[0])
    if isinstance(ann, ast.Subscript):
        base = (dotted(ann.value) or "").split(".")[-1]
        args = ann.slice.elts if isinstance(ann.slice, ast.Tuple) else [ann.slice]
        if base == "Optional":
            return container_of_immutables(ann.slice)
        if base in ("dict", "Dict", "Mapping", "list", "List", "Sequence", "Iterable", "set", "Set", "frozenset",
                    "defaultdict", "OrderedDict"):
            return all(immutable_annotation(x) for x in args)
    return False


def ir_param_names(node, kind):
    """names of the IR parameters of a function, in the order of `Fn.params` (without `self` of a constructor)"""
    a = node.args
    names = [p.arg for p in a.posonlyargs + a.args]
    if a.vararg:
        names.append(a.vararg.arg)
    names += [p.arg for p in a.kwonlyargs]
    if a.kwarg:
        names.append(a.kwarg.arg)
    if kind in ("init", "postinit") and not isinstance(node, ast.Lambda) and names:
        names = names[1:]
    return names


IMMUTABLE_ANNOTATIONS = {"int", "float", "str", "bool", "bytes", "complex", "date", "datetime", "None", "NoneType",
                         "timedelta", "Literal"}


def immutable_annotation(ann):
    """int / float / str / bool / date / None, Optional / Union / `|` of these, Literal[..], tuples of these"""
    if ann is None:
        return False
    if isinstance(ann, ast.Constant):
        if ann.value is None:
            return True
        if isinstance(ann.value, str):
            try:
                return immutable_annotation(ast.parse(ann.value, mode="eval").body)
            except SyntaxError:
                return False
        return False
    if isinstance(ann, ast.Name):
        return ann.id in IMMUTABLE_ANNOTATIONS
    if isinstance(ann, ast.Attribute):
        return ann.attr in ("date", "datetime", "timedelta") and dotted(ann) in (
            "datetime.date", "datetime.datetime", "datetime.timedelta", "dt.date")
    if isinstance(ann, ast.BinOp) and isinstance(ann.op, ast.BitOr):
        return immutable_annotation(ann.left) and immutable_annotation(ann.right)
    if isinstance(ann, ast.Subscript):
        base = dotted(ann.value) or ""
        base = base.split(".")[-1]
        if base == "Literal":
            return True
        args = ann.slice.elts if isinstance(ann.slice, ast.Tuple) else [ann.slice]
        if base in ("Optional", "Union", "tuple", "Tuple"):
            return all(immutable_annotation(x) or (isinstance(x, ast.Constant) and x.value is Ellipsis) for x in args)
    return False


def dotted(n):
    if isinstance(n, ast.Name):
        return n.id
    if isinstance(n, ast.Attribute):
        d = dotted(n.value)
        return None if d is None else d + "." + n.attr
    return None


def root_of(n):
    while isinstance(n, (ast.Attribute, ast.Subscript, ast.Call)):
        n = n.value if not isinstance(n, ast.Call) else n.func
    return n.id if isinstance(n, ast.Name) else None


class World:
    def __init__(self, repo):
        self.repo = repo
        self.mods = {}
        self.fns = {}               # key -> FnRec
        self.classes = {}           # class name -> ClassInfo
        self.funcs_by_name = {}
        self.methods_by_name = {}
        self.props_by_name = {}
        self.untranslated_files = []

    def load(self):
        pkg = os.path.join(self.repo, "bermuda")
        rels = []
        for d, _, fs in os.walk(pkg):
            for f in sorted(fs):
                if f.endswith(".py"):
                    rel = os.path.relpath(os.path.join(d, f), self.repo)
                    if "/tests" in rel or rel.endswith("__about__.py"):
                        continue
                    rels.append(rel)
        for rel in sorted(rels):
            try:
                tree = ast.parse(open(os.path.join(self.repo, rel)).read())
            except SyntaxError as e:
                self.untranslated_files.append((rel, f"syntax error: {e}"))
                continue
            m = ModInfo(rel, tree)
            self.mods[rel] = m
            self.scan(m)
        self.attach_methods()
        for f in self.fns.values():
            f.ret_args = returned_params(f.node)
            if not isinstance(f.node, ast.Lambda):
                a = f.node.args
                anns = {p.arg: p.annotation for p in a.posonlyargs + a.args + a.kwonlyargs}
                names = ir_param_names(f.node, f.kind)
                f.unprot = [i for i, nme in enumerate(names) if unprotected_annotation(anns.get(nme))]
        for c in self.classes.values():
            for k in c.methods.values():
                f = self.fns[k]
                if f.kind == "property":
                    self.props_by_name.setdefault(f.name, []).append(k)
                elif f.name not in ("__init__", "__post_init__"):
                    self.methods_by_name.setdefault(f.name, []).append(k)

    def scan(self, m):
        def decos(node):
            out = []
            for d in node.decorator_list:
                n = dotted(d.func if isinstance(d, ast.Call) else d) or ""
                out.append(n.split(".")[-1])
            return out

        def add_fn(node, cls, kind=None):
            name = node.name if not isinstance(node, ast.Lambda) else f"<lambda@{node.lineno}:{node.col_offset}>"
            key = f"{m.name}:{cls.name + '.' if cls else ''}{name}"
            n = 2
            while key in self.fns:
                key = f"{m.name}:{cls.name + '.' if cls else ''}{name}#{n}"
                n += 1
            ds = decos(node) if not isinstance(node, ast.Lambda) else []
            if kind is None:
                kind = "function"
                if cls is not None:
                    kind = "method"
                    if name == "__init__":
                        kind = "init"
                    if name == "__post_init__":
                        kind = "postinit"
                    if "property" in ds or "cached_property" in ds:
                        kind = "property"
                    if "staticmethod" in ds:
                        kind = "static"
                    if "classmethod" in ds:
                        kind = "classmethod"
                    if any(d.endswith("setter") for d in ds):
                        kind = "method"
            f = FnRec(key, m, cls, name, node, kind)
            f.cached = any(d in ("cache", "lru_cache", "cached_property") for d in ds)
            self.fns[key] = f
            return f

        def lambdas_in(expr, cls):
            for sub in ast.walk(expr):
                if isinstance(sub, ast.Lambda):
                    add_fn(sub, cls, kind="lambda")

        for node in m.tree.body:
            if isinstance(node, ast.Import):
                for a in node.names:
                    m.imports[a.asname or a.name.split(".")[0]] = ("mod", a.name if a.asname else a.name.split(".")[0])
            elif isinstance(node, ast.ImportFrom):
                if node.level:
                    parts = m.name.split(".")
                    if not m.rel.endswith("__init__.py"):
                        parts = parts[:-1]
                    parts = parts[:len(parts) - (node.level - 1)]
                    base = ".".join(parts + ([node.module] if node.module else []))
                else:
                    base = node.module or ""
                for a in node.names:
                    m.imports[a.asname or a.name] = ("obj", base, a.name)
            elif isinstance(node, ast.FunctionDef):
                f = add_fn(node, None)
                m.funcs[node.name] = f.key
                self.funcs_by_name.setdefault(node.name, []).append(f.key)
            elif isinstance(node, ast.ClassDef):
                c = ClassInfo(node.name, m, node)
                c.bases = [dotted(b).split(".")[-1] for b in node.bases if dotted(b)]
                m.classes[node.name] = c
                self.classes.setdefault(node.name, c)
                for sub in node.body:
                    if isinstance(sub, ast.FunctionDef):
                        f = add_fn(sub, c)
                        c.methods[sub.name] = f.key
                    elif isinstance(sub, (ast.Assign, ast.AnnAssign)) and sub.value is not None:
                        # `values = property(lambda self: self._values)`: a plain attribute load
                        tg = sub.targets[0] if isinstance(sub, ast.Assign) else sub.target
                        if isinstance(tg, ast.Name):
                            c.props.add(tg.id)
                        lambdas_in(sub.value, c)
            elif isinstance(node, (ast.Assign, ast.AnnAssign)):
                tgs = node.targets if isinstance(node, ast.Assign) else [node.target]
                for t in tgs:
                    for nn in ast.walk(t):
                        if isinstance(nn, ast.Name):
                            m.consts.add(nn.id)
                if node.value is not None:
                    lambdas_in(node.value, None)

    def attach_methods(self):
        """`Triangle.thin = wraps(thin)(lambda self, *a, **k: thin(self, *a, **k))` at module level"""
        for m in self.mods.values():
            for node in m.tree.body:
                if not isinstance(node, ast.Assign) or len(node.targets) != 1:
                    continue
                t = node.targets[0]
                if not (isinstance(t, ast.Attribute) and isinstance(t.value, ast.Name) and t.value.id in self.classes):
                    continue
                c = self.classes[t.value.id]
                lam = next((n for n in ast.walk(node.value) if isinstance(n, ast.Lambda)), None)
                key = None
                if lam is not None:
                    key = next((k for k, f in self.fns.items() if f.node is lam), None)
                else:
                    # `Triangle.from_json = staticmethod(wraps(json_to_triangle)(json_to_triangle))` / a plain alias
                    for n in ast.walk(node.value):
                        if isinstance(n, ast.Name) and n.id in self.funcs_by_name:
                            key = self.funcs_by_name[n.id][0]
                if key is not None:
                    names = {n.id for n in ast.walk(node.value) if isinstance(n, ast.Name)}
                    is_prop = bool(names & {"property", "cached_property"})
                    f = self.fns[key]
                    kind = "property" if is_prop else ("static" if "staticmethod" in names else "method")
                    rec = FnRec(key + "@" + c.name + "." + t.attr, f.mod, None, t.attr, f.node, kind)
                    rec.attached = True
                    self.fns[rec.key] = rec
                    c.methods[t.attr] = rec.key

    def is_exception_class(self, name, seen=()):
        c = self.classes.get(name)
        if c is None:
            return name.endswith("Error") or name.endswith("Warning") or name in ("Exception", "BaseException")
        if name in seen:
            return False
        return any(self.is_exception_class(b, seen + (name,)) for b in c.bases)

    def find_method(self, cname, meth, seen=()):
        c = self.classes.get(cname)
        if c is None or cname in seen:
            return None
        if meth in c.methods:
            return c.methods[meth]
        for b in c.bases:
            k = self.find_method(b, meth, seen + (cname,))
            if k:
                return k
        return None

    def family(self, cname):
        out = [cname]
        changed = True
        while changed:
            changed = False
            for c in self.classes.values():
                if c.name not in out and any(b in out for b in c.bases):
                    out.append(c.name)
                    changed = True
        return out

    def is_bermuda_module(self, dotted_mod):
        return dotted_mod == "bermuda" or dotted_mod.startswith("bermuda.") or dotted_mod.startswith(".")


def stmt_vars(st):
    """variables a primitive statement mentions"""
    op, x = st.op, st.a
    if op == "alloc":
        return [x[0]] + list(x[2])
    if op in ("bind", "load", "store", "merge", "aug"):
        return [x[0], x[1]]
    if op in ("const", "arith", "havoc", "shrink", "ret"):
        return [x[0]]
    if op == "call":
        return [x[0]] + list(x[2])
    if op == "unknown":
        return list(x[0])
    return []


def compact_vars(f):
    """renumber the unnamed temporaries so that temporaries with disjoint live ranges share a number (the
    abstract environments of the Lean check are lists indexed by variable number). Named variables and
    parameters keep a number of their own. A temporary used inside a loop but first set before it stays
    reserved up to the end of that loop."""
    named = set(f.varnames) | set(f.params)
    first, last, loops = {}, {}, []
    pos = [0]

    def walk(st):
        op, x = st.op, st.a
        if op == "seq":
            for s_ in x[0]:
                walk(s_)
        elif op in ("ite", "try"):
            walk(x[0])
            walk(x[1])
        elif op == "loop":
            a = pos[0]
            walk(x[0])
            loops.append((a, pos[0]))
        elif op == "block":
            walk(x[0])
        else:
            pos[0] += 1
            for v in stmt_vars(st):
                first.setdefault(v, pos[0])
                last[v] = pos[0]
    walk(f.body)
    temps = [v for v in first if v not in named]
    for v in temps:
        changed = True
        while changed:
            changed = False
            for a, b in loops:
                # set before the loop, used inside it (or set inside and used in a later round): keep to the loop's end
                if first[v] <= a < last[v] < b or (a < first[v] and last[v] <= b and False):
                    last[v] = b
                    changed = True
    ren = {}
    nxt = 0
    for v in sorted(named):
        ren[v] = nxt
        nxt += 1
    free, active = [], []         # active: (end, number)
    for v in sorted(temps, key=lambda v: first[v]):
        active.sort()
        while active and active[0][0] < first[v]:
            free.append(active.pop(0)[1])
        if free:
            free.sort()
            n = free.pop(0)
        else:
            n = nxt
            nxt += 1
        ren[v] = n
        active.append((last[v], n))

    def R(v):
        return ren.get(v, v)

    def rn(st):
        op, x = st.op, st.a
        if op == "seq":
            return St("seq", [rn(s_) for s_ in x[0]], line=st.line)
        if op in ("ite", "try"):
            return St(op, rn(x[0]), rn(x[1]), line=st.line)
        if op in ("loop", "block"):
            return St(op, rn(x[0]), line=st.line)
        if op == "alloc":
            return St(op, R(x[0]), x[1], [R(y) for y in x[2]], line=st.line, site=st.site, note=st.note)
        if op in ("bind", "load", "store", "merge", "aug"):
            return St(op, R(x[0]), R(x[1]), line=st.line, note=st.note)
        if op in ("const", "arith", "havoc", "shrink", "ret"):
            return St(op, R(x[0]), line=st.line, note=st.note)
        if op == "call":
            return St(op, R(x[0]), x[1], [R(y) for y in x[2]], line=st.line, note=st.note)
        if op == "unknown":
            return St(op, [R(y) for y in x[0]], line=st.line, note=st.note)
        return st
    f.body = rn(f.body)
    f.params = [R(p) for p in f.params]
    f.varnames = {R(v): n for v, n in f.varnames.items()}
    f.nvars = nxt


# ---- 3c. one function body -> IR ------------------------------------------------------

NUMERIC_OPS = (ast.Sub, ast.Div, ast.FloorDiv, ast.Mod, ast.Pow, ast.MatMult, ast.LShift, ast.RShift)
CONTAINER_DISPLAY = (ast.List, ast.Tuple, ast.Set, ast.Dict, ast.ListComp, ast.SetComp, ast.DictComp, ast.GeneratorExp)
SCALAR_FACTORIES = {"float", "int", "str", "bool", "complex"}


class Builder:
    def __init__(self, world, rec):
        self.w, self.f, self.m = world, rec, rec.mod
        self.vars, self.scopes = {}, []
        self.n = 0
        self.nsites = 0
        self.cur = []
        self.line = rec.line
        self.nested = 0
        self.defaultdicts = {}
        self.globals_decl = set()
        self.gen_var = None
        self.self_var = None
        self.rebinding_names = set()
        self._star = False
        self.ctor_depth = 0
        self.imm_elems = set()     # parameters annotated as containers of immutable values (never reassigned)

    # -- variables ---------------------------------------------------------------------
    def tmp(self, name=None):
        v = self.n
        self.n += 1
        if name:
            self.f.varnames[v] = name
        return v

    def lookup(self, name):
        for sc in reversed(self.scopes):
            if name in sc:
                return sc[name]
        return self.vars.get(name)

    def site(self):
        self.nsites += 1
        return ("s", self.f.key, self.nsites)

    def emit(self, op, *a, note=None, site=None):
        self.cur.append(St(op, *a, line=self.line, site=site, note=note))

    def capture(self, fn):
        saved, self.cur = self.cur, []
        fn()
        out, self.cur = seq(self.cur), saved
        return out

    def alloc(self, kind, ys=(), name=None):
        x = self.tmp(name)
        self.emit("alloc", x, kind, list(ys), site=self.site())
        return x

    def const(self):
        x = self.tmp()
        self.emit("const", x)
        return x

    def havoc(self, dyn=False):
        x = self.tmp()
        self.emit("havoc", x, note="dyn" if dyn else None)
        return x

    def arith(self):
        x = self.tmp()
        self.emit("arith", x)
        return x

    def choice(self, alts):
        """alts: list of thunks, each emits statements; nondeterministic choice between them"""
        if len(alts) == 1:
            alts[0]()
            return
        blocks = [self.capture(t) for t in alts]
        st = blocks[-1]
        for b in reversed(blocks[:-1]):
            st = St("ite", b, st, line=self.line)
        self.cur.append(st)

    # -- entry -------------------------------------------------------------------------
    def build(self):
        node, f = self.f.node, self.f
        a = node.args
        names = [p.arg for p in a.posonlyargs + a.args]
        if a.vararg:
            names.append(a.vararg.arg)
        names += [p.arg for p in a.kwonlyargs]
        if a.kwarg:
            names.append(a.kwarg.arg)
        params = []
        for i, nme in enumerate(names):
            v = self.tmp(nme)
            self.vars[nme] = v
            if f.kind in ("init", "postinit") and i == 0 and not isinstance(node, ast.Lambda):
                self.self_var = v
            else:
                params.append(v)
        self.G = self.tmp("<globals>")
        params.append(self.G)
        f.params = params
        if isinstance(node, ast.Lambda):
            body = self.capture(lambda: self.emit("ret", self.ev(node.body)))
        else:
            self.collect_locals(node)
            is_gen = any(isinstance(n, (ast.Yield, ast.YieldFrom)) for n in self.own_nodes(node))

            anns = {p.arg: p.annotation for p in a.posonlyargs + a.args + a.kwonlyargs}
            for nme, txt in ASSUMED_ANNOTATIONS.get(f.key.split("@")[0], {}).items():
                if nme in anns and anns[nme] is None:
                    anns[nme] = ast.parse(txt, mode="eval").body
            assigned = {n.id for n in ast.walk(node) if isinstance(n, ast.Name) and isinstance(n.ctx, (ast.Store, ast.Del))}
            self.imm_elems = {nme for nme, ann in anns.items() if container_of_immutables(ann) and nme not in assigned}

            def whole():
                for nme, ann in anns.items():
                    if immutable_annotation(ann) and self.vars[nme] in params:
                        self.emit("const", self.vars[nme])      # annotated as an immutable value
                if f.kind in ("init", "postinit"):
                    self.emit("alloc", self.self_var, "dict", [], site=self.site())
                    if f.kind == "postinit":
                        self.emit("store", self.self_var, self.havoc())   # the fields the dataclass __init__ has set
                if is_gen:
                    self.gen_var = self.alloc("dict", name="<generator>")
                self.stmts(node.body)
                if f.kind in ("init", "postinit"):
                    self.emit("ret", self.self_var)
                elif is_gen:
                    self.emit("ret", self.gen_var)
            body = self.capture(whole)
        f.body = body
        f.nvars = self.n
        compact_vars(f)
        return f

    def own_nodes(self, fn):
        stack = list(fn.body)
        while stack:
            n = stack.pop()
            yield n
            for c in ast.iter_child_nodes(n):
                if isinstance(c, (ast.FunctionDef, ast.AsyncFunctionDef, ast.Lambda, ast.ClassDef)):
                    continue
                stack.append(c)

    def collect_locals(self, fn, scope=None):
        tgt = self.vars if scope is None else scope
        for n in self.own_nodes(fn):
            if isinstance(n, ast.Global):
                self.globals_decl |= set(n.names)
            if isinstance(n, (ast.ListComp, ast.SetComp, ast.DictComp, ast.GeneratorExp)):
                continue
        comp_targets = set()
        for n in self.own_nodes(fn):
            if isinstance(n, ast.comprehension):
                for nn in ast.walk(n.target):
                    if isinstance(nn, ast.Name):
                        comp_targets.add(id(nn))
        for n in self.own_nodes(fn):
            if isinstance(n, ast.Name) and isinstance(n.ctx, (ast.Store, ast.Del)) and id(n) not in comp_targets:
                if n.id not in tgt and n.id not in self.globals_decl:
                    tgt[n.id] = self.tmp(n.id)
            elif isinstance(n, (ast.FunctionDef, ast.ClassDef)) and n is not fn:
                pass
            elif isinstance(n, ast.ExceptHandler) and n.name and n.name not in tgt:
                tgt[n.name] = self.tmp(n.name)
            elif isinstance(n, (ast.Import, ast.ImportFrom)):
                for al in n.names:
                    nm = (al.asname or al.name).split(".")[0]
                    self.local_imports()[nm] = ("mod", al.name) if isinstance(n, ast.Import) else \
                        ("obj", self.rel_base(n), al.name)
        for n in fn.body if hasattr(fn, "body") and isinstance(fn.body, list) else []:
            pass
        # names that only ever hold objects of translated classes without in-place operators
        if scope is None:
            origin = {}
            for n in self.own_nodes(fn):
                if isinstance(n, ast.Assign):
                    for t in n.targets:
                        for nn in ([t] if isinstance(t, ast.Name) else [z for z in ast.walk(t) if isinstance(z, ast.Name)]):
                            ok = isinstance(t, ast.Name) and isinstance(n.value, ast.Call) \
                                and isinstance(n.value.func, ast.Name) and n.value.func.id in self.w.classes \
                                and not any(self.w.find_method(c, m) for c in self.w.family(n.value.func.id)
                                            for m in ("__iadd__", "__ior__"))
                            origin.setdefault(nn.id, []).append(ok)
                elif isinstance(n, (ast.AnnAssign, ast.For, ast.comprehension, ast.With, ast.NamedExpr)):
                    tg = getattr(n, "target", None)
                    if tg is not None:
                        for nn in ast.walk(tg):
                            if isinstance(nn, ast.Name):
                                origin.setdefault(nn.id, []).append(False)
            a = fn.args
            for prm in a.posonlyargs + a.args + a.kwonlyargs:
                origin.setdefault(prm.arg, []).append(False)
            self.rebinding_names = {k for k, v in origin.items() if v and all(v)}
        # nested function names are locals too
        for n in ast.walk(fn):
            if isinstance(n, ast.FunctionDef) and n is not fn and n.name not in tgt:
                tgt[n.name] = self.tmp(n.name)

    def local_imports(self):
        if not hasattr(self, "_limports"):
            self._limports = {}
        return self._limports

    def rel_base(self, node):
        m = self.m
        if node.level:
            parts = m.name.split(".")
            if not m.rel.endswith("__init__.py"):
                parts = parts[:-1]
            parts = parts[:len(parts) - (node.level - 1)]
            return ".".join(parts + ([node.module] if node.module else []))
        return node.module or ""

    def import_of(self, name):
        return self.local_imports().get(name) or self.m.imports.get(name)

    # -- statements --------------------------------------------------------------------
    def stmts(self, body):
        for s in body:
            self.stmt(s)

    def stmt(self, s):
        self.line = getattr(s, "lineno", self.line)
        if isinstance(s, ast.Expr):
            self.ev(s.value)
        elif isinstance(s, ast.Assign):
            v = self.ev(s.value)
            self.note_defaultdict(s.targets, s.value)
            for t in s.targets:
                self.assign(t, v)
        elif isinstance(s, ast.AnnAssign):
            if s.value is not None:
                v = self.ev(s.value)
                self.note_defaultdict([s.target], s.value)
                self.assign(s.target, v)
        elif isinstance(s, ast.AugAssign):
            v = self.ev(s.value)
            t = s.target
            merging = isinstance(s.op, (ast.Add, ast.BitOr, ast.BitXor))

            def inplace(x, note):
                """`x op= v` on the variable x"""
                if merging:
                    self.emit("aug", x, v, note=note)
                else:
                    # -=, *=, /=, //=, %=, **=, @=, &=, >>=, <<= never add entries: in-place change of the numbers of an
                    # array / removal or repetition of entries, or rebinding to a new number / array
                    self.choice([lambda: self.emit("shrink", x, note=note), lambda: self.emit("arith", x)])
            if isinstance(t, ast.Name) and self.lookup(t.id) is not None and t.id in self.rebinding_names and merging:
                # every value the name ever holds is an object of a translated class without __iadd__/__ior__:
                # `x += v` is `x = x + v`
                x = self.lookup(t.id)
                r = self.tmp()
                self.choice([lambda: self.emit("arith", r),
                             lambda: self.emit("alloc", r, "union", [x, v], site=self.site())])
                for key in self.w.methods_by_name.get("__add__", []) + self.w.methods_by_name.get("__or__", []):
                    self.f.callees.add(key)
                self.emit("bind", x, r)
            elif isinstance(t, ast.Name):
                x = self.lookup(t.id)
                if x is None:
                    g = self.tmp()
                    self.emit("load", g, self.G)
                    inplace(g, f"augmented assignment to global `{t.id}`")
                else:
                    inplace(x, f"`{t.id} op= ...` on an object that may reach a parameter")
            else:
                o = self.ev(t.value)
                if isinstance(t, ast.Subscript):
                    self.ev_index(t.slice)
                    cur = self.load_item(t.value, o)
                else:
                    cur = self.attr_load(o, t.attr)
                inplace(cur, f"`{self.src(t)} op= ...`: in-place update of an element that may belong to a parameter")
                if isinstance(t, ast.Subscript):
                    self.emit("store", o, cur, note=f"`{self.src(t)} op= ...`: store into an object that may reach a parameter")
                else:
                    self.attr_store(o, t.attr, cur, f"`{self.src(t)} op= ...`: store into an object that may reach a parameter")
        elif isinstance(s, ast.For):
            desc = self.iter_setup(s.iter)

            def body():
                self.iter_bind(s.target, desc)
                self.stmts(s.body)
            b = self.capture(body)
            self.cur.append(St("loop", St("block", b, line=self.line), line=self.line))
            if s.orelse:
                self.choice([lambda: None, lambda: self.stmts(s.orelse)])
        elif isinstance(s, ast.While):
            def body():
                self.ev(s.test)
                self.stmts(s.body)
            b = self.capture(body)
            self.cur.append(St("loop", St("block", b, line=self.line), line=self.line))
            self.ev(s.test)
            if s.orelse:
                self.choice([lambda: None, lambda: self.stmts(s.orelse)])
        elif isinstance(s, ast.If):
            self.ev(s.test)
            self.choice([lambda: self.stmts(s.body), lambda: self.stmts(s.orelse)])
        elif isinstance(s, ast.Return):
            if self.nested:
                if s.value is not None:
                    self.ev(s.value)
                self.emit("brk")
            elif self.f.kind in ("init", "postinit"):
                self.emit("ret", self.self_var)
            elif isinstance(s.value, ast.Name) and s.value.id in self.f.ret_args:
                self.emit("ret", self.const())          # `return <parameter>`: performed by the caller (see returned_params)
            elif self.gen_var is not None:
                self.emit("ret", self.gen_var)
            else:
                v = self.ev(s.value) if s.value is not None else self.const()
                self.emit("ret", v)
        elif isinstance(s, ast.Raise):
            if s.exc is not None:
                self.ev(s.exc)
            if s.cause is not None:
                self.ev(s.cause)
            self.emit("raise")
        elif isinstance(s, ast.Try):
            def handlers():
                alts = []
                for h in s.handlers:
                    def one(h=h):
                        if h.type is not None:
                            self.ev(h.type)
                        if h.name:
                            self.emit("const", self.lookup(h.name))
                        self.stmts(h.body)
                    alts.append(one)
                if not alts:
                    alts = [lambda: self.emit("raise")]
                self.choice(alts)
            tb = self.capture(lambda: (self.stmts(s.body), self.stmts(s.orelse)))
            hb = self.capture(handlers)
            if s.finalbody:
                fin = self.capture(lambda: self.stmts(s.finalbody))
                inner = St("try", tb, hb, line=self.line)
                self.cur.append(St("try", inner, seq([fin, St("raise")]), line=self.line))
                self.cur.append(self.capture(lambda: self.stmts(s.finalbody)))
            else:
                self.cur.append(St("try", tb, hb, line=self.line))
        elif isinstance(s, ast.With):
            for it in s.items:
                v = self.ev(it.context_expr)
                if it.optional_vars is not None:
                    self.assign(it.optional_vars, v)
            self.stmts(s.body)
        elif isinstance(s, ast.Assert):
            self.ev(s.test)
            if s.msg is not None:
                self.ev(s.msg)
        elif isinstance(s, ast.Delete):
            for t in s.targets:
                if isinstance(t, ast.Name):
                    x = self.lookup(t.id)
                    if x is not None:
                        self.emit("const", x)
                elif isinstance(t, (ast.Subscript, ast.Attribute)):
                    o = self.ev(t.value)
                    if isinstance(t, ast.Subscript):
                        self.ev_index(t.slice)
                    self.emit("shrink", o, note=f"`del {self.src(t)}` on an object that may reach a parameter")
        elif isinstance(s, (ast.Pass, ast.Global, ast.Nonlocal, ast.Import, ast.ImportFrom)):
            pass
        elif isinstance(s, (ast.Break, ast.Continue)):
            self.emit("brk")
        elif isinstance(s, ast.FunctionDef):
            self.inline_callable(s)
            x = self.lookup(s.name)
            if x is not None:
                self.emit("const", x)
        elif isinstance(s, ast.ClassDef):
            raise Untranslatable(f"nested class definition at line {s.lineno}")
        else:
            raise Untranslatable(f"statement {type(s).__name__} at line {getattr(s, 'lineno', '?')}")

    def src(self, node):
        try:
            return ast.unparse(node)[:60]
        except Exception:  # noqa: BLE001
            return "<expr>"

    def note_defaultdict(self, targets, value):
        if isinstance(value, ast.Call):
            d = dotted(value.func) or ""
            if d.split(".")[-1] == "defaultdict":
                fac = value.args[0] if value.args else None
                kind = "container"
                if fac is None or (isinstance(fac, ast.Name) and fac.id in SCALAR_FACTORIES):
                    kind = "scalar"
                elif isinstance(fac, ast.Lambda) and isinstance(fac.body, ast.Constant):
                    kind = "scalar"
                for t in targets:
                    if isinstance(t, ast.Name):
                        self.defaultdicts[t.id] = kind

    def assign(self, target, v):
        if isinstance(target, ast.Name):
            x = self.lookup(target.id)
            if x is None:
                self.emit("store", self.G, v, note=f"assignment to global `{target.id}`")
            else:
                self.emit("bind", x, v)
        elif isinstance(target, (ast.Tuple, ast.List)):
            for e in target.elts:
                if isinstance(e, ast.Starred):
                    self.assign(e.value, self.alloc("union", [v]))
                else:
                    t = self.tmp()
                    self.emit("load", t, v)
                    self.assign(e, t)
        elif isinstance(target, ast.Attribute):
            o = self.ev(target.value)
            self.attr_store(o, target.attr, v,
                            f"`{self.src(target)} = ...`: attribute store on an object that may reach a parameter")
        elif isinstance(target, ast.Subscript):
            o = self.ev(target.value)
            self.ev_index(target.slice)
            self.emit("store", o, v, note=f"`{self.src(target)} = ...`: item store into an object that may reach a parameter")
        elif isinstance(target, ast.Starred):
            self.assign(target.value, v)
        else:
            raise Untranslatable(f"assignment target {type(target).__name__}")

    # -- iteration ---------------------------------------------------------------------
    def iter_setup(self, it):
        if isinstance(it, ast.Call):
            f = it.func
            if isinstance(f, ast.Name) and self.lookup(f.id) is None and f.id not in self.m.funcs \
                    and self.import_of(f.id) is None:
                if f.id == "zip":
                    for kw in it.keywords:
                        self.ev(kw.value)
                    return ("zip", [self.iter_setup(a) for a in it.args])
                if f.id == "enumerate" and it.args:
                    for kw in it.keywords:
                        self.ev(kw.value)
                    for extra in it.args[1:]:
                        self.ev(extra)
                    return ("enum", self.iter_setup(it.args[0]))
                if f.id in ("reversed", "sorted", "list", "tuple", "set", "iter") and len(it.args) == 1:
                    for kw in it.keywords:
                        self.ev(kw.value)
                    return self.iter_setup(it.args[0])
                if f.id == "range":
                    for a in it.args:
                        self.ev(a)
                    return ("scalar",)
            if isinstance(f, ast.Attribute) and not it.args and not it.keywords and f.attr in ("items", "keys", "values") \
                    and f.attr not in self.w.methods_by_name:
                if self.is_imm_container(f.value):
                    self.ev(f.value)
                    return ("zip", [("scalar",), ("scalar",)]) if f.attr == "items" else ("scalar",)
                return ({"items": "items", "keys": "keys", "values": "vals"}[f.attr], self.ev(f.value))
        if self.is_imm_container(it):
            self.ev(it)
            return ("scalar",)
        return ("seq", self.ev(it))

    def iter_next(self, desc):
        k = desc[0]
        if k == "seq":
            t = self.tmp()
            self.emit("load", t, desc[1])
            return t
        if k == "scalar":
            return self.const()
        if k == "keys":
            return self.havoc()
        if k == "vals":
            t = self.tmp()
            self.emit("load", t, desc[1])
            return t
        if k == "items":
            kk = self.havoc()
            t = self.tmp()
            self.emit("load", t, desc[1])
            return self.alloc("lit", [kk, t])
        if k == "enum":
            return self.alloc("lit", [self.const(), self.iter_next(desc[1])])
        if k == "zip":
            return self.alloc("lit", [self.iter_next(d) for d in desc[1]])
        raise AssertionError(k)

    def iter_bind(self, target, desc):
        k = desc[0]
        if isinstance(target, (ast.Tuple, ast.List)) and not any(isinstance(e, ast.Starred) for e in target.elts):
            n = len(target.elts)
            if k == "zip" and n == len(desc[1]):
                for e, d in zip(target.elts, desc[1]):
                    self.iter_bind(e, d)
                return
            if k == "enum" and n == 2:
                self.assign(target.elts[0], self.const())
                self.iter_bind(target.elts[1], desc[1])
                return
            if k == "items" and n == 2:
                self.assign(target.elts[0], self.havoc())
                t = self.tmp()
                self.emit("load", t, desc[1])
                self.assign(target.elts[1], t)
                return
        self.assign(target, self.iter_next(desc))

    def comprehension(self, node, store_elt):
        """x = fresh container; nested loops; store_elt(x) emits the stores of one element"""
        x = self.alloc("dict")
        self.scopes.append({})

        def gen(i):
            if i == len(node.generators):
                store_elt(x)
                return
            g = node.generators[i]
            desc = self.iter_setup(g.iter)
            for nn in ast.walk(g.target):
                if isinstance(nn, ast.Name):
                    self.scopes[-1][nn.id] = self.tmp(nn.id)

            def body():
                self.iter_bind(g.target, desc)

                def rest():
                    gen(i + 1)
                if g.ifs:
                    for c in g.ifs:
                        self.ev(c)
                    self.choice([lambda: None, rest])
                else:
                    rest()
            b = self.capture(body)
            self.cur.append(St("loop", b, line=self.line))
        gen(0)
        self.scopes.pop()
        return x

    def inline_callable(self, node):
        """a lambda / nested def: its body is analysed where it is created, any number of times, with arbitrary
        arguments (it sees the enclosing function's variables)"""
        a = node.args
        names = [p.arg for p in a.posonlyargs + a.args + a.kwonlyargs]
        if a.vararg:
            names.append(a.vararg.arg)
        if a.kwarg:
            names.append(a.kwarg.arg)
        for d in list(a.defaults) + [d for d in a.kw_defaults if d is not None]:
            self.ev(d)
        scope = {}
        for nme in names:
            scope[nme] = self.tmp(nme)
        if isinstance(node, ast.FunctionDef):
            self.collect_locals(node, scope)
        self.scopes.append(scope)

        def body():
            for nme in names:
                self.emit("havoc", scope[nme])
            if isinstance(node, ast.Lambda):
                self.ev(node.body)
            else:
                self.nested += 1
                self.stmts(node.body)
                self.nested -= 1
        b = self.capture(body)
        self.scopes.pop()
        line = self.line
        self.cur.append(St("ite", St("skip"), St("loop", St("block", b, line=line), line=line), line=line))

    # -- expressions -------------------------------------------------------------------
    def is_numeric_expr(self, e):
        if isinstance(e, ast.Constant):
            return isinstance(e.value, (int, float, complex)) and not isinstance(e.value, bool)
        if isinstance(e, ast.UnaryOp):
            return isinstance(e.op, (ast.USub, ast.UAdd)) and self.is_numeric_expr(e.operand)
        if isinstance(e, ast.BinOp):
            if isinstance(e.op, NUMERIC_OPS):
                return True
            return self.is_numeric_expr(e.left) or self.is_numeric_expr(e.right)
        if isinstance(e, ast.Call):
            kind = self.lib_kind(e.func)
            if isinstance(e.func, ast.Name) and e.func.id in ("str", "repr", "format"):
                return False
            return kind in ("num", "scalar")
        return False

    def is_imm_container(self, e):
        return isinstance(e, ast.Name) and e.id in self.imm_elems and not any(e.id in sc for sc in self.scopes)

    def ev_index(self, sl):
        if isinstance(sl, ast.Slice):
            for p in (sl.lower, sl.upper, sl.step):
                if p is not None:
                    self.ev(p)
        elif isinstance(sl, ast.Tuple):
            for e in sl.elts:
                self.ev_index(e)
        else:
            self.ev(sl)

    def is_view_index(self, sl):
        if isinstance(sl, ast.Slice):
            return True
        if isinstance(sl, ast.Tuple):
            return any(self.is_view_index(e) or isinstance(e, ast.Constant) and e.value is Ellipsis for e in sl.elts)
        return isinstance(sl, ast.Constant) and sl.value is Ellipsis

    def load_item(self, recv_expr, o):
        """o[k] where recv_expr may be a name bound to a defaultdict"""
        x = self.tmp()
        kind = self.defaultdicts.get(recv_expr.id) if isinstance(recv_expr, ast.Name) else None
        if kind == "scalar":
            self.choice([lambda: self.emit("load", x, o), lambda: self.emit("const", x)])
        elif kind == "container":
            def missing():
                self.emit("alloc", x, "dict", [], site=self.site())
                self.emit("store", o, x, note="defaultdict: missing key creates and stores a new container")
            self.choice([lambda: self.emit("load", x, o), missing])
        else:
            self.emit("load", x, o)
        return x

    def attr_load(self, o, attr):
        """`o.attr`. REPRESENTATION of objects in the IR: an attribute of DIRECT_ATTRS is an entry of the object itself,
        every other attribute sits in a one-entry BOX that is an entry of the object (so that an object built around
        a new values dict and arbitrary other attributes has entries of one level: boxes and the dict)."""
        x = self.tmp()

        def plain():
            if attr in DIRECT_ATTRS:
                self.emit("load", x, o)
            elif attr == "__dict__":
                # the attribute dict: a new dict holding what the object's entries / boxes hold
                self.emit("alloc", x, "dict", [], site=self.site())
                b = self.tmp()
                self.emit("load", b, o)
                self.emit("store", x, b)
                v = self.tmp()
                self.emit("load", v, b)
                self.emit("store", x, v)
            else:
                b = self.tmp()
                self.emit("load", b, o)
                self.emit("load", x, b)
        props = self.w.props_by_name.get(attr, [])
        if props:
            alts = [plain]
            for k in props:
                alts.append(lambda k=k: self.call_fn(x, k, [o]))
            self.choice(alts)
        else:
            plain()
        return x

    def attr_store(self, o, attr, v, note):
        if attr in DIRECT_ATTRS:
            self.emit("store", o, v, note=note)
        else:
            b = self.alloc("lit", [v])
            self.emit("store", o, b, note=note)

    def global_value(self, name):
        """a name that is not a local variable, used as a value"""
        imp = self.import_of(name)
        if imp is None and name in self.m.scalar_consts and name not in self.globals_decl:
            return self.const()
        if imp is not None or name in self.m.funcs or name in self.m.classes or name in self.w.classes \
                or (name not in self.m.consts and name not in self.globals_decl):
            if imp is not None and imp[0] == "obj" and self.w.is_bermuda_module(imp[1]) \
                    and imp[2] not in self.w.funcs_by_name and imp[2] not in self.w.classes:
                x = self.tmp()               # a constant imported from another bermuda module
                self.emit("load", x, self.G)
                return x
            return self.const()              # function / class / module / builtin: immutable
        x = self.tmp()
        self.emit("load", x, self.G)
        return x

    def ev(self, e):
        self.line = getattr(e, "lineno", self.line)
        if isinstance(e, ast.Constant):
            return self.const()
        if isinstance(e, ast.Name):
            x = self.lookup(e.id)
            return x if x is not None else self.global_value(e.id)
        if isinstance(e, ast.JoinedStr):
            for v in e.values:
                if isinstance(v, ast.FormattedValue):
                    self.ev(v.value)
            return self.const()
        if isinstance(e, ast.FormattedValue):
            self.ev(e.value)
            return self.const()
        if isinstance(e, ast.Attribute):
            r = root_of(e)
            if r is not None and self.lookup(r) is None:
                d = dotted(e)
                imp = self.import_of(r)
                if d is not None and (imp is not None and not (imp[0] == "obj" and self.w.is_bermuda_module(imp[1])
                                                              and imp[2] not in self.w.classes)
                                      or r in self.w.classes or r in self.m.classes):
                    return self.const()          # np.nan, datetime.date.max, Metadata.<classattr>
            o = self.ev(e.value)
            return self.attr_load(o, e.attr)
        if isinstance(e, ast.Subscript):
            o = self.ev(e.value)
            self.ev_index(e.slice)
            if self.is_imm_container(e.value) and not self.is_view_index(e.slice):
                return self.const()          # an element of a container annotated as holding immutable values
            if self.is_view_index(e.slice):
                x = self.tmp()
                self.choice([lambda: self.emit("bind", x, o),
                             lambda: self.emit("alloc", x, "union", [o], site=self.site())])
                return x
            return self.load_item(e.value, o)
        if isinstance(e, ast.Call):
            return self.call(e)
        if isinstance(e, ast.BinOp):
            l, r = self.ev(e.left), self.ev(e.right)
            if isinstance(e.op, NUMERIC_OPS) or self.is_numeric_expr(e.left) or self.is_numeric_expr(e.right):
                return self.arith()          # a number / immutable value on either side: not a container concatenation
            if isinstance(e.op, ast.Mult) and not isinstance(e.left, CONTAINER_DISPLAY) \
                    and not isinstance(e.right, CONTAINER_DISPLAY):
                return self.arith()
            if isinstance(e.left, (ast.JoinedStr,)) or isinstance(e.right, (ast.JoinedStr,)) or \
                    (isinstance(e.left, ast.Constant) and isinstance(e.left.value, str)) or \
                    (isinstance(e.right, ast.Constant) and isinstance(e.right.value, str)):
                return self.const()
            # `+`, `|`, `&`, `^` (and list * n): a number / new array, or a new container with the operands' entries
            x = self.tmp()
            self.choice([lambda: self.emit("arith", x),
                         lambda: self.emit("alloc", x, "union", [l, r], site=self.site())])
            return x
        if isinstance(e, ast.UnaryOp):
            self.ev(e.operand)
            return self.const() if isinstance(e.op, ast.Not) else self.arith()
        if isinstance(e, ast.Compare):
            self.ev(e.left)
            for c in e.comparators:
                self.ev(c)
            # `a < b` on arrays gives a new boolean array
            return self.arith()
        if isinstance(e, ast.BoolOp):
            vs = [self.ev(v) for v in e.values]
            x = self.tmp()
            self.choice([lambda v=v: self.emit("bind", x, v) for v in vs])
            return x
        if isinstance(e, ast.IfExp):
            self.ev(e.test)
            x = self.tmp()
            self.choice([lambda: self.emit("bind", x, self.ev(e.body)), lambda: self.emit("bind", x, self.ev(e.orelse))])
            return x
        if isinstance(e, ast.Dict):
            spreads = [self.ev(v) for k, v in zip(e.keys, e.values) if k is None]
            x = self.alloc("union", spreads) if spreads else self.alloc("dict")
            for k, v in zip(e.keys, e.values):
                if k is not None:
                    self.ev(k)
                    vv = self.ev(v)
                    self.emit("store", x, vv)
            return x
        if isinstance(e, (ast.List, ast.Tuple, ast.Set)):
            plain, stars = [], []
            for el in e.elts:
                if isinstance(el, ast.Starred):
                    stars.append(self.ev(el.value))
                else:
                    plain.append(self.ev(el))
            if not e.elts and isinstance(e, ast.Tuple):
                return self.const()
            x = self.alloc("lit", plain) if plain else self.alloc("dict")
            for s_ in stars:
                self.emit("merge", x, s_)
            return x
        if isinstance(e, (ast.ListComp, ast.SetComp, ast.GeneratorExp)):
            return self.comprehension(e, lambda x: self.emit("store", x, self.ev(e.elt)))
        if isinstance(e, ast.DictComp):
            def st(x):
                self.ev(e.key)
                self.emit("store", x, self.ev(e.value))
            return self.comprehension(e, st)
        if isinstance(e, ast.Lambda):
            self.inline_callable(e)
            return self.const()
        if isinstance(e, ast.NamedExpr):
            v = self.ev(e.value)
            self.assign(e.target, v)
            return v
        if isinstance(e, ast.Starred):
            return self.ev(e.value)
        if isinstance(e, ast.Yield):
            v = self.ev(e.value) if e.value is not None else self.const()
            if self.gen_var is not None:
                self.emit("store", self.gen_var, v)
            return self.havoc()
        if isinstance(e, ast.YieldFrom):
            v = self.ev(e.value)
            if self.gen_var is not None:
                self.emit("merge", self.gen_var, v)
            return self.havoc()
        if isinstance(e, ast.Slice):
            self.ev_index(e)
            return self.const()
        raise Untranslatable(f"expression {type(e).__name__} at line {getattr(e, 'lineno', '?')}")

    # -- calls -------------------------------------------------------------------------
    def call_fn(self, x, key, args, pos=None, kws=None, star=False):
        self.f.callees.add(key)
        callee = self.w.fns[key]
        note = None
        if callee.unprot and not isinstance(callee.node, ast.Lambda):
            # the callee may write the object of an unprotected parameter: the IR arguments must line up with its
            # parameters (positional, then by keyword; a missing argument is the default: an immutable placeholder)
            names = ir_param_names(callee.node, callee.kind)
            if pos is None or star or len(pos) > len(names):
                note = "unaligned"
            else:
                aligned = []
                for i, nme in enumerate(names):
                    if i < len(pos):
                        aligned.append(pos[i])
                    elif kws and nme in kws:
                        aligned.append(kws[nme][0])
                    else:
                        aligned.append(self.const())
                args = aligned + [v for v in args if v not in aligned]
        cands = []
        if callee.ret_args and not isinstance(callee.node, ast.Lambda):
            a = callee.node.args
            names = [p.arg for p in a.posonlyargs + a.args]
            if callee.kind in ("init", "postinit"):
                names = names[1:]
            for nm in callee.ret_args:
                v = None
                if pos is not None:
                    if kws and nm in kws:
                        v = kws[nm][0]
                    elif nm in names and names.index(nm) < len(pos):
                        v = pos[names.index(nm)]
                cands += [v] if v is not None else list(args)
        cands = sorted(set(cands))
        if cands:
            self.choice([lambda: self.emit("call", x, key, list(args), note=note)] +
                        [lambda v=v: self.emit("bind", x, v) for v in cands])
        else:
            self.emit("call", x, key, list(args), note=note)

    def lib_name(self, func):
        """full dotted library name of a callee expression, or None"""
        d = dotted(func)
        if d is None:
            return None
        r = d.split(".")[0]
        if self.lookup(r) is not None:
            return None
        imp = self.import_of(r)
        if imp is None:
            return None
        rest = d.split(".")[1:]
        if imp[0] == "mod":
            base = imp[1]
        else:
            if self.w.is_bermuda_module(imp[1]):
                return None
            base = imp[1] + "." + imp[2]
        return ".".join([base] + rest)

    def lib_kind(self, func):
        full = self.lib_name(func)
        if full is None:
            if isinstance(func, ast.Name) and self.lookup(func.id) is None and func.id not in self.m.funcs \
                    and func.id not in self.w.classes and func.id not in self.m.consts:
                return _BUILTIN.get(func.id)
            return None
        if full in _LIB:
            return _LIB[full]
        for pre, k in LIB_PREFIX_SUMMARY:
            if full.startswith(pre):
                return k
        return None

    def summary(self, kind, x, objs):
        """bind x to the result of a pure call of the given kind over the object arguments `objs`"""
        if kind == "scalar":
            self.emit("const", x)
        elif kind == "num":
            self.emit("arith", x)
        elif kind == "shallow":
            self.emit("alloc", x, "union", list(objs), site=self.site())
        elif kind == "shallow_any":
            self.emit("alloc", x, "dict", [], site=self.site())
            h = self.havoc()
            self.emit("store", x, h)
        elif kind == "elem":
            alts = [lambda: self.emit("const", x)]
            if objs:
                alts.append(lambda: self.emit("load", x, objs[0]))
                for o in objs:
                    alts.append(lambda o=o: self.emit("bind", x, o))
            self.choice(alts)
        elif kind == "elemdef":
            # an entry of the first object, or one of the other arguments (the default), or an immutable value
            alts = [lambda: self.emit("const", x)]
            if objs:
                alts.append(lambda: self.emit("load", x, objs[0]))
                for o in objs[1:]:
                    alts.append(lambda o=o: self.emit("bind", x, o))
            self.choice(alts)
        elif kind == "alias":
            alts = [lambda: self.emit("arith", x)]
            if objs:
                alts.append(lambda: self.emit("load", x, objs[0]))
            for o in objs:
                alts.append(lambda o=o: self.emit("bind", x, o))
            self.choice(alts)
        else:
            raise AssertionError(kind)

    def eval_args(self, call):
        pos, kws = [], {}
        self._star = any(isinstance(a, ast.Starred) for a in call.args) or any(kw.arg is None for kw in call.keywords)
        for a in call.args:
            if isinstance(a, ast.Starred):
                v = self.ev(a.value)
                t = self.tmp()
                self.emit("load", t, v)
                pos.append(t)
            else:
                pos.append(self.ev(a))
        extra = []
        for kw in call.keywords:
            v = self.ev(kw.value)
            if kw.arg is None:
                t = self.tmp()
                self.emit("load", t, v)
                extra.append(t)
            else:
                kws[kw.arg] = (v, kw.value)
        return pos, kws, extra

    def keyword_writes(self, recv, pos, kws, what):
        """`out=`, `overwrite_input=`, `inplace=`, `copy=False`: returns True when the result may alias an argument"""
        alias = False
        for k, (v, node) in kws.items():
            off = isinstance(node, ast.Constant) and node.value in (False, None)
            if k == "out" and not (isinstance(node, ast.Constant) and node.value is None):
                self.emit("shrink", v, note=f"{what}(..., out=<object that may reach a parameter>)")
            elif k == "overwrite_input" and not off and pos:
                self.emit("shrink", pos[0], note=f"{what}(..., overwrite_input=...) may partition its input in place")
            elif k == "inplace" and not off:
                tgt = recv if recv is not None else (pos[0] if pos else None)
                if tgt is not None:
                    self.emit("shrink", tgt, note=f"{what}(..., inplace=...) changes its receiver")
            elif k == "copy" and isinstance(node, ast.Constant) and node.value is False:
                alias = True
        return alias

    def construct(self, x, cname, args, pos=None, kws=None):
        """`C(args)` for a translated class"""
        init = self.w.find_method(cname, "__init__")
        if self.w.is_exception_class(cname):
            self.emit("const", x)
            return
        if init is not None:
            fields = None
            if pos is not None and not self._star and self.ctor_depth < 3:
                mark = len(self.cur)
                try:
                    self.ctor_depth += 1
                    fields = self.ctor_fields(self.w.fns[init], pos, kws or {})
                finally:
                    self.ctor_depth -= 1
                if fields is None:
                    del self.cur[mark:]
            if fields is None:
                self.call_fn(x, init, args, pos, kws)
                return
            # the constructor runs (its checks; it is translated and checked on its own) ...
            t = self.tmp()
            self.call_fn(t, init, args, pos, kws)
            # ... and the new object holds exactly what its top-level `self.attr = E` statements put there
            entries = [v if attr in DIRECT_ATTRS else self.alloc("lit", [v]) for attr, v in fields]
            self.emit("alloc", x, "lit", entries, site=self.site())
            return
        # no __init__: a dataclass-like object holding its arguments (each in its box)
        entries = [self.alloc("lit", [v]) for v in args]
        self.emit("alloc", x, "lit", entries, site=self.site())
        post = self.w.find_method(cname, "__post_init__")
        if post is not None:
            t = self.tmp()
            self.call_fn(t, post, list(args))
            self.emit("merge", x, t)

    def ctor_fields(self, init, pos, kws):
        """[(attribute, variable)] a simple constructor stores into the new object, evaluated in the CALLER's context
        with the parameters bound to the call's arguments; None when the constructor is not simple (an attribute
        store that is not a top-level statement, `self` used other than as `self.attr`)"""
        node = init.node
        a = node.args
        if a.vararg or a.kwarg:
            return None
        self_name = (a.posonlyargs + a.args)[0].arg
        top_assigns = set()
        for st_ in node.body:
            if isinstance(st_, ast.Assign) and len(st_.targets) == 1 and isinstance(st_.targets[0], ast.Attribute) \
                    and isinstance(st_.targets[0].value, ast.Name) and st_.targets[0].value.id == self_name:
                top_assigns.add(id(st_.targets[0]))
        super_calls = []
        for n in ast.walk(node):
            if isinstance(n, ast.Attribute) and isinstance(n.value, ast.Name) and n.value.id == self_name:
                if isinstance(n.ctx, ast.Store) and id(n) not in top_assigns:
                    return None
        parents = {}
        for n in ast.walk(node):
            for c in ast.iter_child_nodes(n):
                parents[id(c)] = n
        for n in ast.walk(node):
            if isinstance(n, ast.Name) and n.id == self_name and not isinstance(parents.get(id(n)), ast.Attribute):
                return None
        names = [p.arg for p in (a.posonlyargs + a.args)][1:] + [p.arg for p in a.kwonlyargs]
        npos = len(a.posonlyargs + a.args) - 1
        if len(pos) > npos or any(k not in names for k in kws):
            return None
        saved_m, saved_f_cls = self.m, self.f.cls
        scope = {}
        defaults = dict(zip([p.arg for p in (a.posonlyargs + a.args)][-len(a.defaults):] if a.defaults else [], a.defaults))
        defaults.update({p.arg: d for p, d in zip(a.kwonlyargs, a.kw_defaults) if d is not None})
        self.m = init.mod
        try:
            for i, nme in enumerate(names):
                if i < len(pos):
                    scope[nme] = pos[i]
                elif nme in kws:
                    scope[nme] = kws[nme][0]
                elif nme in defaults:
                    scope[nme] = self.ev(defaults[nme])
                else:
                    return None
            self.scopes.append(scope)
            try:
                fields = []
                for st_ in node.body:
                    if isinstance(st_, ast.Assign) and id(st_.targets[0]) in top_assigns:
                        fields.append((st_.targets[0].attr, self.ev(st_.value)))
                    elif isinstance(st_, ast.Expr) and isinstance(st_.value, ast.Call) \
                            and isinstance(st_.value.func, ast.Attribute) and st_.value.func.attr == "__init__" \
                            and isinstance(st_.value.func.value, ast.Call) \
                            and isinstance(st_.value.func.value.func, ast.Name) and st_.value.func.value.func.id == "super":
                        call = st_.value
                        if any(isinstance(z, ast.Starred) for z in call.args) or any(k.arg is None for k in call.keywords):
                            return None
                        p2 = [self.ev(z) for z in call.args]
                        k2 = {k.arg: (self.ev(k.value), k.value) for k in call.keywords}
                        parent = None
                        for b in (init.cls.bases if init.cls else []):
                            key = self.w.find_method(b, "__init__")
                            if key:
                                parent = self.w.fns[key]
                                break
                        if parent is None:
                            continue
                        sub = self.ctor_fields(parent, p2, k2)
                        if sub is None:
                            return None
                        fields = sub + fields
                return fields
            finally:
                self.scopes.pop()
        finally:
            self.m = saved_m

    def call(self, e):
        f = e.func
        what = self.src(f)
        # super().method(...)
        if isinstance(f, ast.Attribute) and isinstance(f.value, ast.Call) and isinstance(f.value.func, ast.Name) \
                and f.value.func.id == "super" and self.f.cls is not None:
            pos, kws, extra = self.eval_args(e)
            args = pos + [v for v, _ in kws.values()] + extra
            x = self.tmp()
            key = None
            for b in self.f.cls.bases:
                key = self.w.find_method(b, f.attr)
                if key:
                    break
            if key is None:
                self.emit("const", x)        # object.__init__ and the like
            elif f.attr == "__init__" and self.self_var is not None:
                self.call_fn(x, key, args)
                self.emit("merge", self.self_var, x)
            else:
                me = self.lookup("self") if self.lookup("self") is not None else self.lookup("cls")
                self.call_fn(x, key, ([me] if me is not None else []) + args)
            return x
        # callee that is a plain name
        if isinstance(f, ast.Name):
            pos, kws, extra = self.eval_args(e)
            args = pos + [v for v, _ in kws.values()] + extra
            x = self.tmp()
            name = f.id
            if self.lookup(name) is not None:
                if name == "cls" and self.f.cls is not None:
                    self.choice([lambda c=c: self.construct(x, c, args, pos, kws) for c in self.w.family(self.f.cls.name)])
                else:
                    self.emit("havoc", x, note="dyn")        # callable parameter / local closure: pure callback
                return x
            return self.call_named(e, x, name, pos, kws, args, what)
        # recv.method(...) / module.function(...)
        if isinstance(f, ast.Attribute):
            full = self.lib_name(f)
            r = root_of(f)
            if full is not None:
                pos, kws, extra = self.eval_args(e)
                args = pos + [v for v, _ in kws.values()] + extra
                x = self.tmp()
                return self.call_library(x, full, pos, kws, args, what)
            d = dotted(f)
            if d in BUILTIN_DOTTED and self.lookup(r) is None and self.import_of(r) is None and r not in self.m.consts:
                pos, kws, extra = self.eval_args(e)
                args = pos + [v for v, _ in kws.values()] + extra
                x = self.tmp()
                if d == "dict.fromkeys":
                    # a new dict whose every value is the second argument (default None)
                    self.emit("alloc", x, "dict", [], site=self.site())
                    for v in pos[1:2]:
                        self.emit("store", x, v)
                    return x
                self.summary(BUILTIN_DOTTED[d], x, args)
                return x
            if d in LIB_WRITES and self.lookup(r) is None and self.import_of(r) is None:
                pos, kws, extra = self.eval_args(e)
                args = pos + [v for v, _ in kws.values()] + extra
                return self.call_library(self.tmp(), d, pos, kws, args, what)
            imp_r = self.import_of(r) if r is not None and self.lookup(r) is None else None
            if d is not None and imp_r is not None and len(d.split(".")) == 2 and (
                    (imp_r[0] == "obj" and self.w.is_bermuda_module(imp_r[1]) and imp_r[2] not in self.w.classes
                     and imp_r[2] not in self.w.funcs_by_name)
                    or (imp_r[0] == "mod" and self.w.is_bermuda_module(imp_r[1]))):
                pos, kws, extra = self.eval_args(e)
                args = pos + [v for v, _ in kws.values()] + extra
                x = self.tmp()
                ks = self.w.funcs_by_name.get(f.attr, [])
                modname = imp_r[2] if imp_r[0] == "obj" else imp_r[1].split(".")[-1]
                pref = [k for k in ks if k.split(":")[0].split(".")[-1] == modname]
                if f.attr in self.w.classes:
                    self.construct(x, f.attr, args, pos, kws)
                elif pref or ks:
                    self.choice([lambda k=k: self.call_fn(x, k, args, pos, kws, star=self._star) for k in (pref or ks)])
                else:
                    self.emit("unknown", args, note=f"call of `{what}`: not found in the translated modules")
                    self.emit("havoc", x, note="dyn")
                return x
            # Class.method(...) with a translated class
            if d is not None and r is not None and self.lookup(r) is None and len(d.split(".")) == 2 \
                    and (r in self.w.classes):
                pos, kws, extra = self.eval_args(e)
                args = pos + [v for v, _ in kws.values()] + extra
                x = self.tmp()
                key = self.w.find_method(r, f.attr)
                if key is not None:
                    self.call_fn(x, key, args, pos, kws, star=self._star)
                else:
                    self.emit("unknown", args, note=f"call of `{what}`: no such method in the translated class")
                    self.emit("havoc", x, note="dyn")
                return x
            # self.__class__(...) / type(self)(...)
            recv = self.ev(f.value)
            pos, kws, extra = self.eval_args(e)
            args = pos + [v for v, _ in kws.values()] + extra
            x = self.tmp()
            if self.is_imm_container(f.value) and f.attr == "get":
                self.choice([lambda: self.emit("const", x)] + [lambda v=v: self.emit("bind", x, v) for v in pos[1:]])
                return x
            if f.attr == "__class__":
                return self.construct_family(x, args)
            self.method_call(x, recv, f.attr, pos, kws, args, what)
            return x
        # anything else: type(x)(...), fns[k](...), f(a)(b)
        if isinstance(f, ast.Call) and isinstance(f.func, ast.Name) and f.func.id == "type" and self.lookup("type") is None:
            for a in f.args:
                self.ev(a)
            pos, kws, extra = self.eval_args(e)
            return self.construct_family(self.tmp(), pos + [v for v, _ in kws.values()] + extra)
        if isinstance(f, ast.Attribute) is False:
            self.ev(f)
        pos, kws, extra = self.eval_args(e)
        return self.havoc(dyn=True)          # dynamically chosen callee: pure callback / checked on its own

    def construct_family(self, x, args):
        if self.f.cls is not None:
            self.choice([lambda c=c: self.construct(x, c, args) for c in self.w.family(self.f.cls.name)])
        else:
            self.emit("havoc", x, note="dyn")
        return x

    def call_named(self, e, x, name, pos, kws, args, what):
        imp = self.import_of(name)
        # a function of this module / a translated class / an import from another bermuda module
        target = None
        if name in self.m.funcs and imp is None:
            target = ("fn", [self.m.funcs[name]])
        elif name in self.m.classes:
            target = ("cls", name)
        elif imp is not None and imp[0] == "obj" and self.w.is_bermuda_module(imp[1]):
            nm = imp[2]
            if nm in self.w.classes:
                target = ("cls", nm)
            elif nm in self.w.funcs_by_name:
                ks = self.w.funcs_by_name[nm]
                pref = [k for k in ks if k.split(":")[0] == imp[1] or k.split(":")[0].startswith(imp[1] + ".")]
                target = ("fn", pref or ks)
            elif self.w.is_exception_class(nm):
                self.emit("const", x)
                return x
            else:
                target = ("dyn",)              # a callable constant of another bermuda module
        elif imp is None and name in self.w.classes and name not in self.m.consts:
            target = ("cls", name)
        if target is not None:
            if target[0] == "fn":
                self.choice([lambda k=k: self.call_fn(x, k, args, pos, kws, star=self._star) for k in target[1]])
            elif target[0] == "cls":
                self.construct(x, target[1], args, pos, kws)
            else:
                self.emit("havoc", x, note="dyn")
            return x
        full = self.lib_name(e.func)
        if full is not None:
            return self.call_library(x, full, pos, kws, args, what)
        if name in self.m.consts or name in self.globals_decl:
            self.emit("havoc", x, note="dyn")              # module-level callable value (namedtuple class, function alias, table entry)
            return x
        if name == "defaultdict" or name == "dict" and not pos:
            self.emit("alloc", x, "dict", [], site=self.site())
            for v, _ in kws.values():
                self.emit("store", x, v)
            return x
        if name == "setattr" and len(pos) >= 3:
            self.emit("store", pos[0], pos[2], note="setattr(obj, ...) on an object that may reach a parameter")
            self.emit("const", x)
            return x
        if name == "delattr" and pos:
            self.emit("shrink", pos[0], note="delattr(obj, ...) on an object that may reach a parameter")
            self.emit("const", x)
            return x
        if name == "sum" and (len(pos) > 1 or "start" in kws):
            self.emit("alloc", x, "union", [], site=self.site())
            h = self.havoc()
            self.emit("store", x, h)
            return x
        if self.w.is_exception_class(name) and name not in _BUILTIN:
            self.emit("const", x)
            return x
        kind = _BUILTIN.get(name)
        if kind is not None:
            self.keyword_writes(None, pos, kws, what)
            self.summary(kind, x, pos)
            return x
        self.emit("unknown", args, note=f"call of `{what}`: not translated and not in the reviewed tables")
        self.emit("havoc", x, note="dyn")
        return x

    def call_library(self, x, full, pos, kws, args, what):
        last = full.split(".")[-1]
        if full in LIB_WRITES or ("." + last) in ():
            i = LIB_WRITES[full]
            if len(pos) > i:
                if full in ("setattr", "object.__setattr__", "operator.setitem") and len(pos) >= 3:
                    self.emit("store", pos[i], pos[2], note=f"`{what}` writes its first argument")
                else:
                    self.emit("shrink", pos[i], note=f"`{what}` changes its argument in place")
            self.emit("const", x)
            return x
        if full == "copy.deepcopy" and pos:
            self.emit("alloc", x, "deep", [pos[0]], site=self.site())
            return x
        if full == "dataclasses.replace" and pos:
            self.emit("alloc", x, "union", [pos[0]], site=self.site())
            for v, _ in kws.values():
                self.emit("store", x, v)
            # the dataclass may validate in __post_init__ (translated and checked on its own)
            return x
        if full == "collections.defaultdict":
            self.emit("alloc", x, "dict", [], site=self.site())
            return x
        if full == "toolz.groupby" and len(pos) >= 2:
            # dict of NEW lists holding the elements of the sequence
            self.emit("alloc", x, "dict", [], site=self.site())
            grp = self.tmp()

            def one():
                self.emit("alloc", grp, "union", [pos[1]], site=self.site())
                self.emit("store", x, grp)
            self.cur.append(St("loop", self.capture(one), line=self.line))
            return x
        kind = _LIB.get(full)
        if kind is None:
            for pre, k in LIB_PREFIX_SUMMARY:
                if full.startswith(pre):
                    kind = k
        if kind is None:
            self.emit("unknown", args, note=f"library call `{full}` is not in the reviewed tables")
            self.emit("havoc", x, note="dyn")
            return x
        alias = self.keyword_writes(None, pos, kws, what)
        if alias and kind in ("num", "shallow"):
            kind = "alias"
        self.summary(kind, x, args if kind in ("shallow", "alias", "elem") else pos)
        return x

    def method_call(self, x, recv, meth, pos, kws, args, what):
        alts = []
        for key in self.w.methods_by_name.get(meth, []):
            kind = self.w.fns[key].kind
            a = args if kind == "static" else [recv] + args
            pp = pos if kind == "static" else [recv] + pos
            alts.append(lambda key=key, a=a, pp=pp: self.call_fn(x, key, a, pp, kws, star=self._star))
        if meth in METHOD_WRITES:
            op = METHOD_WRITES[meth]

            def write():
                note = f"`{what}(...)` changes its receiver, which may reach a parameter"
                if op == "store":
                    vals = args if args else [self.const()]
                    for v in (vals[-1:] if meth in ("insert", "setdefault", "__setitem__") else vals):
                        self.emit("store", recv, v, note=note)
                elif op == "merge":
                    for v in pos:
                        self.emit("merge", recv, v, note=note)
                    for v, _ in kws.values():
                        self.emit("store", recv, v, note=note)
                else:
                    self.emit("shrink", recv, note=note)
                # result: None, the removed / existing element, or the default
                outs = [lambda: self.emit("const", x)]
                if meth in ("pop", "popitem", "popleft", "setdefault"):
                    outs.append(lambda: self.emit("load", x, recv))
                    for v in args:
                        outs.append(lambda v=v: self.emit("bind", x, v))
                self.choice(outs)
            alts.append(write)
        if meth in METHOD_WRITES_ARG0 and pos:
            def write0():
                self.emit("shrink", pos[0], note=f"`{what}(x)` reorders x in place")
                self.emit("const", x)
            alts.append(write0)
        kind = _METH.get(meth)
        if kind is not None:
            def pure():
                alias = self.keyword_writes(recv, pos, kws, what)
                k2 = "alias" if alias and kind in ("num", "shallow") else kind
                self.summary(k2, x, [recv] + (args if k2 in ("alias", "elem", "elemdef") else []))
            alts.append(pure)
        if not alts:
            def unk():
                self.emit("unknown", [recv] + args, note=f"method `{meth}` (in `{what}`) is not translated and not in the reviewed tables")
                self.emit("havoc", x, note="dyn")
            alts.append(unk)
        self.choice(alts)


# ---- 3d. whole program: summaries to a fixpoint, classification ------------------------

MAX_SH = 3


def cap(c):
    if c[0] == "L" and c[1][0] == "sh" and c[1][1] > MAX_SH:
        return A
    if c == LV(EXT):
        return A            # `writesOnlyFresh` does not admit the declared result class `lv ext`
    return c


class Program:
    def __init__(self, repo):
        self.w = World(repo)
        self.w.load()
        self.untranslated = []        # (key, reason)
        self.not_disciplined = []     # (key, reason)
        self.violating = []           # (key, [fails])
        self.program = []             # keys, in order
        self.ret = {}
        self.op_names = []            # names of the registry operations of harness/c03.py

    def translate_all(self):
        for key in sorted(self.w.fns):
            f = self.w.fns[key]
            try:
                lim = sys.getrecursionlimit()
                sys.setrecursionlimit(max(lim, 10000))
                Builder(self.w, f).build()
                f.status = "translated"
            except Untranslatable as e:
                f.status, f.reason = "untranslated", str(e)
                self.untranslated.append((key, str(e)))
            except RecursionError:
                f.status, f.reason = "untranslated", "expression nesting too deep"
                self.untranslated.append((key, f.reason))
            except Exception as e:  # noqa: BLE001  (a translator bug must not take the whole check down)
                f.status, f.reason = "untranslated", f"translator error: {type(e).__name__}: {e}"
                self.untranslated.append((key, f.reason))

    # calls into functions outside `program` behave like unknown code
    def prepared(self, f, inprog):
        def fix(st):
            op, x = st.op, st.a
            if op == "call" and x[1] not in inprog and x[1].split("@")[0] in REVIEWED_PURE:
                return St("havoc", x[0], line=st.line, note="dyn")
            if op == "call" and x[1] not in inprog:
                return seq([St("unknown", list(x[2]), line=st.line,
                               note=f"call of `{x[1]}`, which is not in the checked program"),
                            St("havoc", x[0], line=st.line, note="dyn")])
            if op == "seq":
                return St("seq", [fix(s) for s in x[0]], line=st.line)
            if op in ("ite", "try"):
                return St(op, fix(x[0]), fix(x[1]), line=st.line)
            if op in ("loop", "block"):
                return St(op, fix(x[0]), line=st.line)
            return st
        return fix(f.body)

    def analyse(self):
        fns = self.w.fns
        inprog = {k for k, f in fns.items() if f.status == "translated"}
        allow = {k: r for k, r in NOT_DISCIPLINED.items()}
        memo = {}
        for _round in range(12):
            bodies = {k: self.prepared(fns[k], inprog) for k in inprog}
            ret = {k: S for k in inprog}
            wp = {k: set() for k in inprog}        # positions of unprotected parameters the function writes
            levels = {}

            class Shim:
                pass

            def one(k, rc, collect):
                f = fns[k]
                sig = (k, rc, collect, tuple(sorted((g, ret.get(g), tuple(sorted(wp.get(g, ()))))
                                                    for g in f.callees if g in inprog)),
                       tuple(sorted(g for g in f.callees if g not in inprog)), tuple(sorted(wp[k])))
                hit = memo.get(sig)
                if hit is not None:
                    levels[k] = hit[0]
                    return hit[1]
                r = one_(k, rc, collect)
                memo[sig] = (levels[k], r)
                return r

            def one_(k, rc, collect):
                f = fns[k]
                sh = Shim()
                sh.params, sh.body, sh.unprot = f.params, bodies[k], f.unprot
                wps = lambda g: sorted(wp.get(g, ()))       # noqa: E731
                L = Levels(sh, lambda g: ret.get(g, A), wps)
                lv = L.solve()
                a0 = {p: A for p in f.params}
                for pos_ in wp[k]:
                    a0[f.params[pos_]] = LV(EXT)
                for _rep in range(6):
                    m = Mirror(lambda g: ret.get(g, A), rc, lambda s: lv.get(s, NUMS), collect=True,
                               tgt_of=lambda st: L.tgt.get(id(st)), wps=wps)
                    ok, norm, _, brk = m.run(bodies[k], a0)
                    # repair: a new object whose level does not admit what is put into it becomes `sh 0`
                    bad = set()
                    for kd, _ln, _tx, st in m.fails:
                        if kd != "level":
                            continue
                        if st.op == "alloc" and st.site not in L.fixed:
                            bad.add(st.site)
                        elif st.op in ("store", "merge", "aug"):
                            bad |= {s_ for s_ in L.tgt.get(id(st), ()) if s_ not in ("ANY", "DYN") and s_[0] != "EXT" and s_ not in L.fixed}
                    bad = {b for b in bad if L.forced.get(b) != SH(0)}
                    # a parameter-free container that was given its level by the object it is stored in, and whose
                    # elements are updated in place: it keeps its own level instead (the object around it becomes `sh 0`)
                    own = set()
                    for kd, _ln, _tx, st in m.fails:
                        if kd == "level" and st.op in ("aug", "store", "merge", "shrink"):
                            tg = {s_ for s_ in L.tgt.get(id(st), ()) if s_ not in ("ANY", "DYN")}
                            own |= {c_ for c_ in getattr(L, "given", ()) if c_ in L.natural and c_ not in L.forced
                                    and (L.cont.get(c_, frozenset()) & tg or not tg)}
                    if ok or not (bad or own):
                        break
                    if own:
                        for c_ in own:
                            L.forced[c_] = L.natural[c_]
                    else:
                        for b in bad:
                            L.forced[b] = SH(0)
                    lv = L.assign()
                levels[k] = lv
                if not collect:
                    m.fails = []
                m.written = set(L.written) & set(f.unprot)
                return m, ok, norm, brk

            for it in range(10):
                changed = False
                for k in sorted(inprog):
                    m, _, norm, brk = one(k, A, False)
                    c = S
                    for r in m.rets:
                        c = cls_join(c, r)
                    c = cap(c)
                    if fns[k].cached and c != S:
                        c = A                       # a cached result is shared between calls
                    if it >= 7 and c != ret[k]:
                        c = A
                    c = cls_join(ret[k], c) if it >= 7 else c
                    if c != ret[k]:
                        ret[k] = c
                        changed = True
                    if not m.written <= wp[k]:
                        wp[k] |= m.written
                        changed = True
                if not changed:
                    break
            removed = False
            self.violating, demote = [], []
            for k in sorted(inprog):
                m, ok, _, _ = one(k, ret[k], True)
                fns[k].fails = m.fails
                fns[k].ok = ok
                if ok:
                    continue
                kinds = {kd for kd, _, _, _ in m.fails}
                base = k.split("@")[0]
                if "write" in kinds and k not in allow and base not in allow:
                    self.violating.append((k, [f_[:3] for f_ in m.fails if f_[0] == "write"]))
                else:
                    why = allow.get(k) or allow.get(base) or "; ".join(sorted({f"{kd} (line {ln}): {tx}" for kd, ln, tx, _ in m.fails}))[:400]
                    demote.append((k, why))
            for k, why in demote:
                inprog.discard(k)
                self.not_disciplined.append((k, why))
                removed = True
            if not removed:
                break
        self.program = sorted(inprog)
        self.ret = ret
        self.wp = wp
        self.levels = levels
        self.bodies = bodies
        # final pass: loop invariants as Lean will check them (no memo: it annotates the statements)
        for k in self.program:
            lv = levels[k]
            m = Mirror(lambda g: ret.get(g, A), ret[k], lambda s_, lv=lv: lv.get(s_, NUMS), collect=False,
                       wps=lambda g: sorted(wp.get(g, ())))
            a0 = {p_: A for p_ in fns[k].params}
            for pos_ in wp[k]:
                a0[fns[k].params[pos_]] = LV(EXT)
            m.run(bodies[k], a0)
        return self

    def counts(self):
        tr = sum(1 for f in self.w.fns.values() if f.status == "translated")
        viol = {k for k, _ in self.violating}
        return {"functions": len(self.w.fns), "translated": tr,
                "disciplined": len([k for k in self.program if k not in viol]),
                "violating": len(viol), "notDisciplined": len(self.not_disciplined),
                "untranslated": len(self.untranslated)}

    def emit(self):
        """-> {file name: text}. The functions are spread over NCHUNK modules (built and checked in parallel by
        lake); every chunk proves its own functions disciplined against the literal list `sums`, HeapIR.lean
        assembles `program` and proves `summaries program = sums`."""
        idx = {k: i for i, k in enumerate(self.program)}
        head = "-- GENERATED by harness/translate_c03ir.py from " + self.w.repo + " -- do not edit\n"
        files = {}
        files["HeapIRSums.lean"] = (
            head + "import Bermuda.Model.HeapIR\nnamespace Bermuda.Generated.HeapIR\nopen Bermuda.HeapIR\n\n"
            "/-- declared result class and written unprotected parameters of every function of `program`, in order -/\n"
            "def sums : List Summary := [" + ", ".join(
                f"({lean_cls(self.ret[k])}, {lean_vars(sorted(self.wp[k]))})" for k in self.program) + "]\n\n"
            "end Bermuda.Generated.HeapIR\n")

        def size(st):
            if st.op == "seq":
                return 1 + sum(size(x) for x in st.a[0])
            if st.op in ("ite", "try"):
                return 1 + size(st.a[0]) + size(st.a[1])
            if st.op in ("loop", "block"):
                return 1 + size(st.a[0])
            return 1
        sizes = [size(self.bodies[k]) + 5 for k in self.program]
        total = sum(sizes) or 1
        bounds, acc, j = [0], 0, 1
        for i, sz in enumerate(sizes):
            acc += sz
            while j < NCHUNK and acc >= total * j / NCHUNK:
                bounds.append(i + 1)
                j += 1
        while len(bounds) < NCHUNK:
            bounds.append(len(sizes))
        bounds.append(len(sizes))
        for c in range(NCHUNK):
            lo, hi = bounds[c], bounds[c + 1]
            out = [head + "import Bermuda.Generated.HeapIRSums", "namespace Bermuda.Generated.HeapIR",
                   "open Bermuda.HeapIR", ""]
            for i in range(lo, hi):
                k = self.program[i]
                f = self.w.fns[k]
                lv = self.levels[k]
                body = lean_stmt(self.bodies[k], lambda s_, lv=lv: lv.get(s_, NUMS), lambda g: idx[g])
                pn = ", ".join(f.varnames.get(p, "?") for p in f.params)
                out.append(f"/-- {f.mod.rel}:{f.line}  params: {pn} -/")
                out.append(f"def f{i} : Fn := ⟨{lstr(k)}, {lean_vars(f.params)}, {lean_vars(sorted(self.wp[k]))},\n  {body},\n  {lean_cls(self.ret[k])}⟩\n")
            out.append(f"def chunk{c} : List Fn := [" + ", ".join(f"f{i}" for i in range(lo, hi)) + "]\n")
            out.append(f"/-- every function of this chunk respects the discipline (re-proved against today's source) -/")
            out.append(f"theorem chunk{c}_disciplined : chunk{c}.all (writesOnlyFresh sums) = true := by decide +kernel\n")
            out.append("end Bermuda.Generated.HeapIR\n")
            files[f"HeapIRC{c}.lean"] = "\n".join(out)
        out = [head + "\n".join(f"import Bermuda.Generated.HeapIRC{c}" for c in range(NCHUNK)),
               "namespace Bermuda.Generated.HeapIR", "open Bermuda.HeapIR", ""]
        out.append("def program : List Fn := " + " ++ ".join(f"chunk{c}" for c in range(NCHUNK)) + "\n")
        out.append("theorem program_sums : summaries program = sums := by decide +kernel\n")
        cov, unc, unm = coverage_of(self, self.op_names) if self.op_names else ([], {}, [])

        def keys_of(op):
            ks = []
            for pat in entry_functions(op) or []:
                ks += [k for k in self.w.fns if (k.endswith(pat) if pat.startswith("@") else k == pat)]
            return sorted(set(ks))
        out.append("/-- the operations of the registry of harness/c03.py (regenerated from it) with the numbers of the functions\n"
                   "of `program` they enter -/")
        out.append("def registryOps : List (String × List Nat) := [" + ", ".join(
            f"({lstr(op)}, {lean_vars([idx[k] for k in keys_of(op)])})" for op in cov) + "]\n")
        out.append("/-- registry operations with an entry function outside `program` (or without a mapping) -/")
        out.append("def registryUncovered : List String := [" + ", ".join(lstr(o) for o in list(unc) + unm) + "]\n")
        if self.op_names and not unc and not unm:
            out.append("theorem registry_all_covered : registryUncovered = [] := rfl\n")
        out.append("/-- functions that write their receiver / argument / a module-level cache BY CONTRACT and do not take a\n"
                   "Triangle, Cell or Metadata to protect; they are not part of `program` -/")
        out.append("def mutatorsByContract : List String := [" + ", ".join(
            lstr(k) for k in sorted(NOT_DISCIPLINED) if k not in REVIEWED_PURE) + "]\n")
        out.append("/-- functions translated but outside `program` (reason) -/")
        out.append("def notDisciplined : List (String × String) := [" +
                   ", ".join(f"({lstr(k)}, {lstr(r)})" for k, r in sorted(self.not_disciplined)) + "]\n")
        out.append("def untranslated : List (String × String) := [" +
                   ", ".join(f"({lstr(k)}, {lstr(r)})" for k, r in sorted(self.untranslated)) + "]\n")
        out.append("end Bermuda.Generated.HeapIR\n")
        files["HeapIR.lean"] = "\n".join(out)
        return files


NCHUNK = 8
# ---- registry of harness/c03.py: operation -> the library functions it enters ---------------------------
T_ = "bermuda.triangle:Triangle."
C_ = "bermuda.base.cell:Cell."
U_ = "bermuda.utils."
ENTRY_POINTS = {
    "Triangle.to_incremental": ["@Triangle.to_incremental", U_ + "basis:to_incremental"],
    "Triangle.to_cumulative": ["@Triangle.to_cumulative", U_ + "basis:to_cumulative"],
    "Triangle.select": [T_ + "select"], "Triangle.clip": [T_ + "clip"], "Triangle.filter": [T_ + "filter"],
    "Triangle.derive_fields": [T_ + "derive_fields"], "Triangle.derive_metadata": [T_ + "derive_metadata"],
    "Triangle.replace": [T_ + "replace"], "Triangle.remove_static_details": [T_ + "remove_static_details"],
    "Triangle.right_edge": [T_ + "right_edge"], "Triangle.__getitem__": [T_ + "__getitem__"],
    "Triangle.__add__": [T_ + "__add__"],
    "Triangle.slices/periods/properties": [T_ + x for x in (
        "slices", "periods", "fields", "metadata", "common_metadata", "evaluation_dates", "dev_lags", "period_rows",
        "slice_period_rows", "field_cell_counts", "field_slice_counts", "num_samples", "is_regular", "is_semi_regular",
        "is_disjoint", "experience_gaps", "period_resolution", "eval_date_resolution")],
    "Triangle.extract": [T_ + "extract"], "Triangle.to_data_frame": [T_ + "to_data_frame"],
    "Cell.replace/select/derive_fields/derive_metadata/add_statics/to_record": [C_ + x for x in (
        "replace", "select", "derive_fields", "derive_metadata", "add_statics", "to_record")],
    "aggregate": [U_ + "aggregate:aggregate"], "summarize": [U_ + "summarize:summarize"],
    "summarize_cell_values": [U_ + "summarize:summarize_cell_values"], "split": [U_ + "summarize:split"],
    "blend": [U_ + "summarize:blend"], "blend_cells / blend_samples": [U_ + "summarize:blend_cells", U_ + "summarize:blend_samples"],
    "merge": [U_ + "merge:merge"], "join": [U_ + "join:join"], "period_merge": [U_ + "merge:period_merge"],
    "loose_period_merge": [U_ + "merge:loose_period_merge"], "coalesce": [U_ + "merge:coalesce"],
    "add_statics": [U_ + "fields:add_statics"], "thin": [U_ + "thin:thin"], "bootstrap": [U_ + "bootstrap:bootstrap"],
    "moment_match": [U_ + "method_moments:moment_match"], "make_right_triangle": [U_ + "extend:make_right_triangle"],
    "make_right_diagonal": [U_ + "extend:make_right_diagonal"],
    "make_pred_triangle_complement": [U_ + "extend:make_pred_triangle_complement"],
    "make_pred_triangle_with_init": [U_ + "extend:make_pred_triangle_with_init"],
    "fill_forward_gaps": [U_ + "fill:fill_forward_gaps"], "backfill": [U_ + "backfill:backfill"],
    "convert_currency": [U_ + "currency:convert_currency"], "convert_to_dollars": [U_ + "currency:convert_to_dollars"],
    "disaggregate_experience": [U_ + "disaggregate:disaggregate_experience"],
    "disaggregate_development": [U_ + "disaggregate:disaggregate_development"],
    "disaggregate": [U_ + "disaggregate:disaggregate"],
    "accident_quarter_to_policy_year": [U_ + "basis:accident_quarter_to_policy_year"],
    "shift_origin": [U_ + "shift_origin:shift_origin"], "weight_geometric_decay": [U_ + "adjust:weight_geometric_decay"],
    "paid_bs_adjustment": [U_ + "adjust:paid_bs_adjustment"], "reported_bs_adjustment": [U_ + "adjust:reported_bs_adjustment"],
    "array_from_field / array_size(s)": [U_ + "fields:array_from_field", U_ + "fields:array_size", U_ + "fields:array_sizes"],
    "triangle_to_slice / slice_to_triangle": [U_ + "slice:triangle_to_slice", U_ + "slice:slice_to_triangle"],
    "to_binary + from_binary": ["bermuda.io.binary_output:triangle_to_binary", "bermuda.io.binary_input:binary_to_triangle"],
    "to_binary": ["bermuda.io.binary_output:triangle_to_binary"],
    "to_json + from_json": ["bermuda.io.json:triangle_to_json", "bermuda.io.json:json_to_triangle"],
    "to_dict + from_dict": ["bermuda.io.json:triangle_to_dict", "bermuda.io.json:dict_to_triangle"],
    "to_long_csv": ["bermuda.io.data_frame_output:triangle_to_long_csv"],
    "to_wide_csv": ["bermuda.io.data_frame_output:triangle_to_wide_csv"],
    "to_long_data_frame + from_long_data_frame": ["bermuda.io.data_frame_output:triangle_to_long_data_frame",
                                                  "bermuda.io.data_frame_input:long_data_frame_to_triangle"],
    "to_wide_data_frame + from_wide_data_frame": ["bermuda.io.data_frame_output:triangle_to_wide_data_frame",
                                                  "bermuda.io.data_frame_input:wide_data_frame_to_triangle"],
    "to_array_data_frame + from_array_data_frame": ["bermuda.io.array:triangle_to_array_data_frame",
                                                    "bermuda.io.array:array_data_frame_to_triangle"],
    "to_right_edge_data_frame": ["bermuda.io.array:triangle_to_right_edge_data_frame"],
    "to_chain_ladder": ["bermuda.io.chain_ladder:triangle_to_chain_ladder"],
    "Matrix.from_triangle / RichMatrix": ["bermuda.io.matrix:triangle_to_matrix", "bermuda.io.rich_matrix:triangle_to_rich_matrix"],
    "from_wide_data_frame": ["bermuda.io.data_frame_input:wide_data_frame_to_triangle"],
    "from_long_data_frame": ["bermuda.io.data_frame_input:long_data_frame_to_triangle"],
    "from_wide_csv": ["bermuda.io.data_frame_input:wide_csv_to_triangle"],
    "from_long_csv": ["bermuda.io.data_frame_input:long_csv_to_triangle"],
    "from_array_data_frame": ["bermuda.io.array:array_data_frame_to_triangle"],
    "from_statics_data_frame": ["bermuda.io.array:statics_data_frame_to_triangle"],
    "from_chain_ladder": ["bermuda.io.chain_ladder:chain_ladder_to_triangle"],
    "from_json / from_binary / from_dict": ["bermuda.io.json:json_to_triangle", "bermuda.io.binary_input:binary_to_triangle",
                                            "bermuda.io.json:dict_to_triangle"],
    "build_plot_data": ["bermuda.plot:build_plot_data"],
    "Triangle set operators": [T_ + "__iter__", T_ + "__contains__", T_ + "__len__"],
    "Triangle.__eq__ / __hash__ / __contains__ / len / iter": [T_ + "__eq__", T_ + "__hash__", T_ + "__contains__",
                                                               T_ + "__len__", T_ + "__iter__", T_ + "__repr__"],
    "sum": [T_ + "__radd__", T_ + "__add__"],
    "TriangleSlice construction / indexing": ["bermuda.triangle:TriangleSlice.__init__",
                                              "bermuda.triangle:TriangleSlice.__getitem__"],
    "make_pred_triangle": [U_ + "extend:make_pred_triangle"],
    "common_metadata / metadata_diff / Triangle.common_metadata / metadata_differences": [
        "bermuda.base.metadata:common_metadata", "bermuda.base.metadata:metadata_diff", T_ + "common_metadata",
        T_ + "metadata_differences", "bermuda.base.metadata:Metadata.as_dict", "bermuda.base.metadata:Metadata.as_flat_dict",
        "bermuda.base.metadata:Metadata.__hash__", "bermuda.base.metadata:Metadata.__lt__"],
    "Triangle cached accessors": [T_ + x for x in (
        "slices", "periods", "fields", "evaluation_dates", "dev_lags", "right_edge", "is_incremental", "is_disjoint",
        "is_multi_slice", "has_consistent_currency", "has_consistent_risk_basis", "has_consistent_values_shapes",
        "is_right_edge_ragged", "num_samples", "evaluation_date", "experience_gaps", "field_cell_counts",
        "field_slice_counts", "period_rows", "slice_period_rows", "derive_metadata")],
    "monthly_ep_to_quarterly_ep / policy_years_covered": [U_ + "basis:monthly_ep_to_quarterly_ep",
                                                          U_ + "basis:policy_years_covered"],
    "triangle_json_load / triangle_json_loads": ["bermuda.io.json:triangle_json_load", "bermuda.io.json:triangle_json_loads"],
}
for _n in ("atas", "ballistic", "broom", "data_completeness", "growth_curve", "heatmap", "histogram", "mountain",
           "right_edge", "sunset", "drip", "hose"):
    ENTRY_POINTS["Triangle.plot_" + _n] = ["bermuda.plot:plot_" + _n, "@Triangle.plot_" + _n]


def entry_functions(op_name):
    """library functions a registry operation of harness/c03.py enters (exact name, else the name without options)"""
    for cand in (op_name, op_name.split("(")[0].strip()):
        if cand in ENTRY_POINTS:
            return ENTRY_POINTS[cand]
    return None


def coverage_of(program_obj, op_names):
    """-> (covered, uncovered {op: missing functions}, unmapped)"""
    inprog = set(program_obj.program)
    violating = {k for k, _ in program_obj.violating}

    def found(pat):
        ks = [k for k in program_obj.w.fns if (k.endswith(pat) if pat.startswith("@") else k == pat)]
        return ks
    cov, unc, unm = [], {}, []
    for op in op_names:
        pats = entry_functions(op)
        if pats is None:
            unm.append(op)
            continue
        missing = []
        for pat in pats:
            ks = found(pat)
            if not ks or any(k not in inprog or k in violating for k in ks):
                missing.append(pat)
        if missing:
            unc[op] = missing
        else:
            cov.append(op)
    return cov, unc, unm


def operations_reaching(program_obj, targets, op_names):
    """registry operations whose translated call graph reaches one of the functions `targets` (keys). Calls made
    through containers of functions / callbacks are not edges of the graph, so an operation also counts when it
    reaches any function of the MODULE a target lives in (second list)."""
    fns = program_obj.w.fns
    tset = set(targets) | {k.split("@")[0] for k in targets}
    tmods = {k.split(":")[0] for k in tset}
    memo = {}

    def reach(k):
        """(reaches a target, reaches a target's module)"""
        seen, stack, hit, mod = set(), [k], False, False
        while stack:
            g = stack.pop()
            if g in seen or g not in fns:
                continue
            seen.add(g)
            if g in tset or g.split("@")[0] in tset:
                hit = True
            if g.split(":")[0] in tmods:
                mod = True
            stack.extend(fns[g].callees)
        return hit, mod
    direct, by_module = [], []
    for op in op_names:
        pats = entry_functions(op) or []
        h = m = False
        for pat in pats:
            for k in fns:
                if (k.endswith(pat) if pat.startswith("@") else k == pat):
                    if k not in memo:
                        memo[k] = reach(k)
                    h, m = h or memo[k][0], m or memo[k][1]
        if h:
            direct.append(op)
        elif m:
            by_module.append(op)
    return direct, by_module


def registry_names_from_source():
    """the names registered with `@op("...")` in harness/c03.py (read from its source, so that the translator can be run
    on its own); option variants are registered at run time and are passed in by c03.py itself"""
    import re
    try:
        src_ = open(os.path.join(os.path.dirname(os.path.abspath(__file__)), "c03.py")).read()
    except OSError:
        return []
    return re.findall(r'^@op\("([^"]+)"', src_, flags=re.M)


_LAST = {}


def regenerate(op_names=None):
    os.makedirs(GEN_DIR, exist_ok=True)
    p = Program(common.REPO)
    if op_names is None:
        op_names = registry_names_from_source()
    import re
    p.op_names = [re.sub(r" at 0x[0-9a-fA-F]+", "", n) for n in op_names]     # no memory addresses in generated text
    p.translate_all()
    p.analyse()
    changed = []
    for name, text in p.emit().items():
        path = os.path.join(GEN_DIR, name)
        old = open(path).read() if os.path.exists(path) else None
        if old != text:
            with open(path, "w") as fh:
                fh.write(text)
            changed.append(name)
    _LAST["program"] = p
    return {"HeapIR": dict(p.counts(), changed=changed)}


if __name__ == "__main__":
    import json
    r = regenerate()
    p = _LAST["program"]
    print(json.dumps(r))
    if "-v" in sys.argv:
        for k, fl in p.violating:
            print("VIOLATING", k, fl[:3])
        for k, why in sorted(p.not_disciplined):
            print("NOTDISC", k, "::", why[:200])
        for k, why in p.untranslated:
            print("UNTRANS", k, "::", why)
