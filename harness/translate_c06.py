"""Translator of the codec checks: the `struct` formats the binary writer and reader ACTUALLY USE, observed
dynamically, written to lean/Bermuda/Generated/BinaryFormats.lean (regenerated on every run of C06).

Why dynamic: the AST table of translate.sec_binary (function name, pack/unpack, literal format) changes under
behaviour-preserving refactorings (precompiled module-level `struct.Struct(fmt)`, helper functions, renamed
private functions) although the bytes written are identical. Here a recording proxy takes the place of the
`struct` module while bermuda.io.binary_output / binary_input are re-executed (importlib.reload, so that
module-level precompiled Structs are created through the proxy too); probe triangles covering every value
kind, cell class and metadata form are written and read through the reloaded modules; every format string that
reaches pack / unpack (directly, through a Struct object, pack_into, unpack_from, iter_unpack) is recorded,
separately for the write phase and the read phase. Afterwards `struct` is restored and the modules reloaded
again. Nothing is keyed on private function names.

Table:  ok, writerFormatSet, readerFormatSet (sorted distinct formats),
        probeFormats : per probe (named by the PUBLIC thing it exercises) the writer's and the reader's set.
"""
import datetime
import importlib
import os
import shutil
import sys
import tempfile

import common
from translate import GEN_DIR, llist, lstr

NAME = "BinaryFormats"


class _Recorder:
    def __init__(self):
        self.phase = None            # "w" | "r" | None
        self.seen = {"w": set(), "r": set()}

    def hit(self, fmt):
        if self.phase is not None:
            if isinstance(fmt, bytes):
                fmt = fmt.decode("latin-1")
            self.seen[self.phase].add(fmt)


def _make_proxy(real, rec):
    class StructProxy:
        """stands for a struct.Struct instance"""

        def __init__(self, fmt):
            self._s = real.Struct(fmt)
            self.format = self._s.format
            self.size = self._s.size

        def pack(self, *a):
            rec.hit(self.format)
            return self._s.pack(*a)

        def pack_into(self, *a):
            rec.hit(self.format)
            return self._s.pack_into(*a)

        def unpack(self, b):
            rec.hit(self.format)
            return self._s.unpack(b)

        def unpack_from(self, *a, **k):
            rec.hit(self.format)
            return self._s.unpack_from(*a, **k)

        def iter_unpack(self, b):
            rec.hit(self.format)
            return self._s.iter_unpack(b)

    class ModuleProxy:
        """stands for the struct module"""
        error = real.error
        Struct = StructProxy
        __name__ = "struct"

        @staticmethod
        def pack(fmt, *a):
            rec.hit(fmt)
            return real.pack(fmt, *a)

        @staticmethod
        def pack_into(fmt, *a):
            rec.hit(fmt)
            return real.pack_into(fmt, *a)

        @staticmethod
        def unpack(fmt, b):
            rec.hit(fmt)
            return real.unpack(fmt, b)

        @staticmethod
        def unpack_from(fmt, *a, **k):
            rec.hit(fmt)
            return real.unpack_from(fmt, *a, **k)

        @staticmethod
        def iter_unpack(fmt, b):
            rec.hit(fmt)
            return real.iter_unpack(fmt, b)

        @staticmethod
        def calcsize(fmt):
            return real.calcsize(fmt)

        def __getattr__(self, name):
            return getattr(real, name)

    return ModuleProxy()


def _probes():
    """(name, list of cells): every value kind, cell class and metadata form, named by what they exercise"""
    import numpy as np
    from bermuda import Cell, CumulativeCell, IncrementalCell, Metadata
    D = datetime.date

    def cell(values, cls=Cell, md=None, **kw):
        return cls(period_start=D(2020, 1, 1), period_end=D(2020, 12, 31), evaluation_date=D(2021, 6, 30),
                   values=values, metadata=md or Metadata(), **kw)

    return [
        ("empty triangle", []),
        ("cell without values", [cell({})]),
        ("int value", [cell({"v": 7})]),
        ("large int value", [cell({"v": 2 ** 40 + 1})]),
        ("negative int value", [cell({"v": -3})]),
        ("float value", [cell({"v": 2.5})]),
        ("bool value", [cell({"v": True})]),
        ("None value", [cell({"v": None})]),
        ("int64 array", [cell({"v": np.arange(6, dtype=np.int64).reshape(2, 3)})]),
        ("float64 array", [cell({"v": np.arange(4, dtype=np.float64)})]),
        ("0-d array", [cell({"v": np.array(1.5)})]),
        ("CumulativeCell", [cell({"v": 1}, cls=CumulativeCell)]),
        ("IncrementalCell", [cell({"v": 1}, cls=IncrementalCell, prev_evaluation_date=D(2021, 3, 31))]),
        ("metadata strings, None strings and limit",
         [cell({"v": 1}, md=Metadata(risk_basis="Policy", country="US", currency=None, reinsurance_basis="Net",
                                     loss_definition="Loss+DCC", per_occurrence_limit=250000.0))]),
        ("details of every kind",
         [cell({"v": 1}, md=Metadata(details={"s": "é", "i": 3, "f": 0.5, "b": False, "d": D(1999, 12, 31), "n": None},
                                     loss_details={"x": "y"}))]),
        ("two slices", [cell({"v": 1}, md=Metadata(country="US")), cell({"v": 2}, md=Metadata(country="DE"))]),
    ]


def observe():
    """-> (ok, writer set, reader set, [(probe, writer set, reader set)])"""
    import struct as real
    rec = _Recorder()
    proxy = _make_proxy(real, rec)
    bo = importlib.import_module("bermuda.io.binary_output")
    bi = importlib.import_module("bermuda.io.binary_input")
    from bermuda import Triangle
    base = "/dev/shm" if os.path.isdir("/dev/shm") and os.access("/dev/shm", os.W_OK) else None
    td = tempfile.mkdtemp(prefix="verif-fmt-", dir=base)
    per, ok = [], True
    sys.modules["struct"] = proxy
    try:
        bo = importlib.reload(bo)
        bi = importlib.reload(bi)
        for i, (name, cells) in enumerate(_probes()):
            before = {k: set(v) for k, v in rec.seen.items()}
            rec.seen = {"w": set(), "r": set()}
            for ext, compress in ((".trib", False), (".tribc", True)):
                path = os.path.join(td, f"p{i}{ext}")
                try:
                    rec.phase = "w"
                    bo.triangle_to_binary(Triangle(cells), path, compress=compress)
                    rec.phase = "r"
                    bi.binary_to_triangle(path)
                except Exception:  # noqa: BLE001  (a broken writer/reader: reported through `ok`)
                    ok = False
                finally:
                    rec.phase = None
            per.append((name, sorted(rec.seen["w"]), sorted(rec.seen["r"])))
            rec.seen = {k: before[k] | rec.seen[k] for k in before}
    finally:
        sys.modules["struct"] = real
        try:
            importlib.reload(bo)
            importlib.reload(bi)
        finally:
            shutil.rmtree(td, ignore_errors=True)
    return ok, sorted(rec.seen["w"]), sorted(rec.seen["r"]), per


def body():
    ok, w, r, per = observe()
    rows = ", ".join(f"({lstr(n)}, {llist(ws)}, {llist(rs)})" for n, ws, rs in per)
    return ok, ("\n"
                f"def writerFormatSet : List String := {llist(w)}\n"
                f"def readerFormatSet : List String := {llist(r)}\n"
                f"def probeFormats : List (String × List String × List String) := [{rows}]\n")


def regenerate():
    os.makedirs(GEN_DIR, exist_ok=True)
    try:
        ok, text = body()
    except Exception as e:  # noqa: BLE001
        ok, text = False, f"\n-- extraction failed: {type(e).__name__}: {str(e)[:200]}\n"
    full = (f"-- GENERATED by harness/translate_c06.py from {common.REPO} -- do not edit\n"
            f"namespace Bermuda.Generated.{NAME}\n"
            f"def ok : Bool := {str(ok).lower()}\n{text}\nend Bermuda.Generated.{NAME}\n")
    path = os.path.join(GEN_DIR, f"{NAME}.lean")
    old = open(path).read() if os.path.exists(path) else None
    if old != full:
        with open(path, "w") as f:
            f.write(full)
    return {NAME: {"ok": ok, "changed": old != full}}


if __name__ == "__main__":
    print(regenerate())
