"""Extra generated table for C14: the group-by key lists of the two data-frame readers, obtained
DYNAMICALLY (robust to how the source builds the list): `pandas.DataFrame.groupby` is wrapped by a
recording function, `wide_data_frame_to_triangle` / `long_data_frame_to_triangle` of VERIF_REPO are
called on small probe frames (cumulative scalar, cumulative with samples, metadata columns absent /
varying / {missing, one value}, with and without detail and loss-detail columns; incremental), and
the `by` lists actually passed are recorded. Detail column names appear literally in `by`; they are
classified back as `$detail_cols` / `$loss_detail_cols` by the probe's own column names.

For each reader the table holds the keys that are in the `by` list of EVERY cumulative probe (a key
that a reader leaves out on some frames — e.g. "constant" columns — is not a key the grouping can
be relied on), in the order of the richest probe. Written to lean/Bermuda/Generated/FrameKeys.lean
on every run (under the build lock, via run_check(extra_translate=...)).
"""
from __future__ import annotations

import datetime
import os
import warnings

import common
from translate import GEN_DIR, llist, lstr

DET, LDET = ["zq_detail_a", "zq_detail_b"], ["zq_loss_detail"]
READERS = ["wide_data_frame_to_triangle", "long_data_frame_to_triangle"]


def _frames():
    """(reader, probe name, kwargs builder) — each builder returns (df, kwargs, has_details)"""
    import numpy as np
    import pandas as pd

    d = lambda y, m, dd: pd.Timestamp(datetime.date(y, m, dd))  # noqa: E731
    coords = [(d(2020, 1, 1), d(2020, 12, 31), d(2020, 12, 31)), (d(2020, 1, 1), d(2020, 12, 31), d(2021, 12, 31)),
              (d(2021, 1, 1), d(2021, 12, 31), d(2021, 12, 31))]

    def base(samples, incremental):
        rows = []
        for ps, pe, ev in coords:
            for s in range(samples):
                r = {"period_start": ps, "period_end": pe, "evaluation_date": ev}
                if incremental:
                    r["prev_evaluation_date"] = ev - pd.Timedelta(days=365)
                if samples > 1:
                    r["scenario"] = s + 1
                r["_v"] = 100.0 + s
                rows.append(r)
        return rows

    def meta(rows, mode):
        out = []
        for i, r in enumerate(rows):
            r = dict(r)
            if mode == "varying":
                r.update(risk_basis=["Accident", "Policy"][i % 2 if len({x["evaluation_date"] for x in rows}) else 0],
                         country=["US", "DE"][i % 2], currency=["USD", "EUR"][i % 2],
                         reinsurance_basis=["Gross", "Net"][i % 2], loss_definition=["Loss", "Loss+DCC"][i % 2],
                         per_occurrence_limit=[1e6, 5e5][i % 2])
            elif mode == "missing-or-one":
                # {missing, one value}: a column that `nunique()` calls constant
                r.update(country=[None, "US"][i % 2], currency=[None, "USD"][i % 2],
                         reinsurance_basis=[None, "Net"][i % 2], loss_definition=[None, "Loss"][i % 2],
                         per_occurrence_limit=[np.nan, 1e6][i % 2])
            out.append(r)
        return out

    def details(rows):
        out = []
        for i, r in enumerate(rows):
            r = dict(r)
            r[DET[0]] = ["x", "y"][i % 2]
            r[DET[1]] = [1.5, 2.5][i % 2]
            r[LDET[0]] = ["p", "q"][i % 2]
            out.append(r)
        return out

    probes = []
    for samples in (1, 2):
        for mode in ("absent", "varying", "missing-or-one"):
            for det in (False, True):
                if samples == 2 and mode != "absent":
                    # the scenario rows of one cell must agree on the metadata: keep it per cell
                    continue
                name = f"cumulative samples={samples} metadata={mode} details={det}"
                rows = meta(base(samples, False), mode)
                if det:
                    rows = details(rows) if samples == 1 else [
                        {**r, DET[0]: "x", DET[1]: 1.5, LDET[0]: "p"} for r in rows]

                def wide(rows=rows, det=det):
                    df = pd.DataFrame([{**{k: v for k, v in r.items() if k != "_v"}, "paid_loss": r["_v"]} for r in rows])
                    kw = dict(field_cols=["paid_loss"])
                    if det:
                        kw.update(detail_cols=DET + LDET, loss_detail_cols=list(LDET))
                    return df, kw

                def long(rows=rows, det=det):
                    df = pd.DataFrame([{**{k: v for k, v in r.items() if k != "_v"}, "field": "paid_loss", "value": r["_v"]}
                                       for r in rows])
                    kw = dict(loss_detail_cols=list(LDET)) if det else {}
                    return df, kw

                probes.append((READERS[0], name, wide, det, True))
                probes.append((READERS[1], name, long, det, True))
    rows = base(1, True)
    probes.append((READERS[0], "incremental", lambda rows=rows: (
        pd.DataFrame([{**{k: v for k, v in r.items() if k != "_v"}, "paid_loss": r["_v"]} for r in rows]),
        dict(field_cols=["paid_loss"])), False, False))
    probes.append((READERS[1], "incremental", lambda rows=rows: (
        pd.DataFrame([{**{k: v for k, v in r.items() if k != "_v"}, "field": "paid_loss", "value": r["_v"]} for r in rows]),
        {}), False, False))
    return probes


def classify(by):
    out = []
    for k in by:
        k = "$loss_detail_cols" if k in LDET else "$detail_cols" if k in DET else str(k)
        if out and out[-1] == k and k.startswith("$"):
            continue
        out.append(k)
    return out


def record():
    """[(reader, probe, cumulative?, has_details?, [classified by-lists of the calls], error or None)]"""
    import importlib

    import pandas as pd

    F = importlib.import_module("bermuda.io.data_frame_input")
    calls = []
    orig = pd.DataFrame.groupby

    def recording(self, by=None, *a, **k):
        if "period_start" in self.columns:
            calls.append(list(by) if isinstance(by, (list, tuple)) else [by])
        return orig(self, by, *a, **k)

    out = []
    pd.DataFrame.groupby = recording
    try:
        for reader, name, build, det, cumulative in _frames():
            del calls[:]
            err = None
            try:
                df, kw = build()
                with warnings.catch_warnings():
                    warnings.simplefilter("ignore")
                    getattr(F, reader)(df, **kw)
            except Exception as e:  # noqa: BLE001
                err = f"{type(e).__name__}: {str(e)[:80]}"
            out.append((reader, name, cumulative, det, [classify(c) for c in calls], err))
    finally:
        pd.DataFrame.groupby = orig
    return out


def table(recs):
    """reader -> (keys common to every cumulative probe in the order of the richest probe, consistent?)"""
    res, ok = {}, True
    for reader in READERS:
        lists = []
        for r, name, cumulative, det, cs, err in recs:
            if r != reader:
                continue
            if not cumulative:
                if cs:                       # an incremental frame is not grouped
                    ok = False
                continue
            if err is not None or len(cs) != 1:
                ok = False
                continue
            lists.append((det, cs[0]))
        rich = [l for det, l in lists if det]
        if not rich or not lists:
            res[reader] = []
            ok = False
            continue
        keys = []
        for k in max(rich, key=len):
            if k.startswith("$"):
                present = all(k in l for det, l in lists if det)
            else:
                present = all(k in l for det, l in lists)
            if present and k not in keys:
                keys.append(k)
        res[reader] = keys
    return res, ok


def regenerate():
    os.makedirs(GEN_DIR, exist_ok=True)
    try:
        recs = record()
        tab, ok = table(recs)
        body = ",\n  ".join(f"({lstr(r)}, {llist(tab[r])})" for r in READERS)
        probes = ",\n  ".join(f"({lstr(r)}, {lstr(n)}, {llist(cs[0] if cs else [])})"
                              for r, n, cum, det, cs, err in recs)
        text_body = f"""
/-- the `by` list each reader hands to `df.groupby`, observed on probe frames: the keys present on
EVERY cumulative probe; `$detail_cols` / `$loss_detail_cols` stand for the caller's column lists -/
def groupByKeys : List (String × List String) := [
  {body}]

/-- every observation (reader, probe frame, `by` list as passed) -/
def observations : List (String × String × List String) := [
  {probes}]
"""
    except Exception as e:  # noqa: BLE001
        text_body, ok = (f"\n-- probing failed: {type(e).__name__}: {str(e)[:200]}\n"
                         "def groupByKeys : List (String × List String) := []\n"), False
    text = (f"-- GENERATED by harness/translate_c14.py from {common.REPO} -- do not edit\n"
            f"namespace Bermuda.Generated.FrameKeys\n"
            f"def ok : Bool := {str(ok).lower()}\n{text_body}\nend Bermuda.Generated.FrameKeys\n")
    path = os.path.join(GEN_DIR, "FrameKeys.lean")
    old = open(path).read() if os.path.exists(path) else None
    if old != text:
        with open(path, "w") as f:
            f.write(text)
    return {"FrameKeys": {"ok": ok, "changed": old != text}}


if __name__ == "__main__":
    print(regenerate())
