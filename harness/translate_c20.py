"""C20 translator: regenerates lean/Bermuda/Generated/PlotMetrics.lean from the LIVE
`bermuda.plot.COMMON_METRIC_DICT` on every run.

The meaning of a metric is obtained DYNAMICALLY, by symbolic execution — not from the shape of the
source (lambda, def, helper call, functools.partial … all look the same to the probe):

  * every function of the dict is called the way `_safe_apply_metric` calls it — `(cell, prev, next)`
    if that binds, else `(cell)` — with RECORDING PROXY CELLS. `proxy[key]`, `proxy.values[key]`,
    `proxy.values.get(key)` return a symbolic number `Sym` that remembers which argument (cell /
    previous / next) and which field was read; `Sym` supports `+ - * /` with numbers and other `Sym`s
    (both sides) and records the operation. The result is the expression tree
        ⟨"Paid Loss Ratio", 1, .div (.mul (.num 100) (.field .cell "paid_loss")) (.field .cell "earned_premium")⟩
    in the language `Bermuda.Plot.MExpr` of Model/Plot.lean;
  * one probe per combination of present / absent (`None`) neighbours: the probe must raise exactly
    when the tree reads an absent neighbour and must otherwise return the SAME tree — a function that
    treats a missing neighbour specially is not expressible and is reported;
  * anything the symbolic values do not support (comparison, truth value, `in`, numpy functions,
    `**`, a default in `.get`, a result that is not symbolic) makes the entry `.opaque` and
    `ok := false`, so the table theorems of Properties/C20 stop building.
The order of the entries is the insertion order of the live dict. The AST of a dict literal of lambdas
(the historical route) is kept only as a cross-check reported in the run's notes.
"""
from __future__ import annotations

import ast
import inspect
import os
from fractions import Fraction

import common
from translate import GEN_DIR, lstr, src

WHO = {0: ".cell", 1: ".prev", 2: ".next"}


class Unsupported(Exception):
    """the metric does something the expression language cannot say"""


def _num(x):
    if isinstance(x, bool) or not isinstance(x, (int, float)):
        raise Unsupported(f"operand of type {type(x).__name__}")
    fr = Fraction(x)
    return f"(.num (({fr.numerator} : Rat) / {fr.denominator}))"


class Sym:
    """a symbolic number: an MExpr term (as Lean text) + the set of arguments it reads"""
    __array_ufunc__ = None      # numpy must not treat it as a scalar / broadcast over it
    __hash__ = None

    def __init__(self, term, reads):
        self.term, self.reads = term, frozenset(reads)

    @staticmethod
    def lift(x):
        return x if isinstance(x, Sym) else Sym(_num(x), ())

    def _bin(self, op, other, swap=False):
        o = Sym.lift(other)
        a, b = (o, self) if swap else (self, o)
        return Sym(f"(.{op} {a.term} {b.term})", a.reads | b.reads)

    def __add__(self, o): return self._bin("add", o)
    def __radd__(self, o): return self._bin("add", o, True)
    def __sub__(self, o): return self._bin("sub", o)
    def __rsub__(self, o): return self._bin("sub", o, True)
    def __mul__(self, o): return self._bin("mul", o)
    def __rmul__(self, o): return self._bin("mul", o, True)
    def __truediv__(self, o): return self._bin("div", o)
    def __rtruediv__(self, o): return self._bin("div", o, True)
    def __neg__(self): return Sym.lift(0)._bin("sub", self)
    def __pos__(self): return self

    def _no(self, *a, **k):
        raise Unsupported("comparison / truth value / unsupported operation on a cell value")

    __bool__ = __lt__ = __le__ = __gt__ = __ge__ = __eq__ = __ne__ = _no
    __pow__ = __rpow__ = __floordiv__ = __rfloordiv__ = __mod__ = __rmod__ = __abs__ = _no
    __float__ = __int__ = __len__ = __iter__ = __getitem__ = __round__ = __index__ = _no


class ProxyValues:
    def __init__(self, who):
        self.who = who

    def __getitem__(self, key):
        if not isinstance(key, str):
            raise Unsupported("non-string field key")
        return Sym(f"(.field {WHO[self.who]} {lstr(key)})", (self.who,))

    def get(self, key, *default):
        if default and default[0] is not None:
            raise Unsupported(".get with a default")
        return self[key]

    def _no(self, *a, **k):
        raise Unsupported("membership / iteration over the values of a cell")

    __contains__ = __iter__ = __len__ = keys = items = values = _no


class ProxyCell:
    """stands for the cell (0), its predecessor (1) or its successor (2) in the row"""

    def __init__(self, who):
        self._who = who
        self.values = ProxyValues(who)

    def __getitem__(self, key):
        return self.values[key]

    def __contains__(self, key):
        raise Unsupported("`key in cell`")

    def __getattr__(self, name):
        raise Unsupported(f"cell attribute {name}")


def binds(fn, n):
    try:
        inspect.signature(fn).bind(*([None] * n))
        return True
    except TypeError:
        return False
    except ValueError:
        return False


def probe(fn):
    """(arity, MExpr text, ok). arity as `_safe_apply_metric` experiences it: 3 when the call with
    (cell, prev, next) binds, else 1 when the call with (cell) binds, else 0."""
    arity = 3 if binds(fn, 3) else (1 if binds(fn, 1) else 0)
    if arity == 0:
        return 0, ".opaque", False

    def run(prev_present, next_present):
        args = [ProxyCell(0)]
        if arity == 3:
            args += [ProxyCell(1) if prev_present else None, ProxyCell(2) if next_present else None]
        try:
            r = fn(*args)
        except Unsupported:
            raise
        except Exception:  # noqa: BLE001  -- what _safe_apply_metric turns into "no value"
            return None
        if isinstance(r, Sym):
            return r
        if isinstance(r, (int, float)) and not isinstance(r, bool):
            return Sym.lift(r)
        raise Unsupported(f"result of type {type(r).__name__}")

    try:
        full = run(True, True)
        if full is None:
            return arity, ".opaque", False
        if arity == 3:
            for pp in (True, False):
                for nn in (True, False):
                    if pp and nn:
                        continue
                    got = run(pp, nn)
                    must_raise = (not pp and 1 in full.reads) or (not nn and 2 in full.reads)
                    if must_raise != (got is None) or (got is not None and got.term != full.term):
                        return arity, ".opaque", False     # a missing neighbour is treated specially
        elif full.reads - {0}:
            return arity, ".opaque", False
        return arity, full.term, True
    except Unsupported:
        return arity, ".opaque", False


def metric_table():
    import importlib

    P = importlib.import_module("bermuda.plot")
    rows, ok = [], True
    for name, fn in P.COMMON_METRIC_DICT.items():
        if not isinstance(name, str) or not callable(fn):
            rows.append((str(name), 0, ".opaque"))
            ok = False
            continue
        arity, body, good = probe(fn)
        ok = ok and good
        rows.append((name, arity, body))
    return rows, ok


# ---- the historical AST route, kept as a cross-check only --------------------------------------

def _ast_expr(node, params):
    if isinstance(node, ast.Constant) and isinstance(node.value, (int, float)) and not isinstance(node.value, bool):
        return _num(node.value)
    if isinstance(node, ast.Subscript) and isinstance(node.value, ast.Name) and node.value.id in params:
        if isinstance(node.slice, ast.Constant) and isinstance(node.slice.value, str):
            return f"(.field {WHO[params[node.value.id]]} {lstr(node.slice.value)})"
    if isinstance(node, ast.BinOp):
        op = {ast.Add: "add", ast.Sub: "sub", ast.Mult: "mul", ast.Div: "div"}.get(type(node.op))
        if op:
            return f"(.{op} {_ast_expr(node.left, params)} {_ast_expr(node.right, params)})"
    raise Unsupported("ast")


def ast_table():
    """rows from a dict literal of lambdas, or None when the source does not have that shape"""
    try:
        tree = ast.parse(src("bermuda/plot.py"))
        lit = None
        for node in tree.body:
            tgt, val = None, None
            if isinstance(node, ast.AnnAssign) and isinstance(node.target, ast.Name):
                tgt, val = node.target.id, node.value
            elif isinstance(node, ast.Assign) and len(node.targets) == 1 and isinstance(node.targets[0], ast.Name):
                tgt, val = node.targets[0].id, node.value
            if tgt == "COMMON_METRIC_DICT":
                lit = val
        if not isinstance(lit, ast.Dict):
            return None
        rows = []
        for k, v in zip(lit.keys, lit.values):
            if not (isinstance(k, ast.Constant) and isinstance(v, ast.Lambda)):
                return None
            params = {p.arg: i for i, p in enumerate(v.args.args)}
            rows.append((k.value, len(v.args.args), _ast_expr(v.body, params)))
        return rows
    except Exception:  # noqa: BLE001
        return None


def regenerate():
    os.makedirs(GEN_DIR, exist_ok=True)
    note = {}
    try:
        rows, ok = metric_table()
        body = ",\n  ".join(f"⟨{lstr(n)}, {a}, {b}⟩" for n, a, b in rows)
        text_body = f"""
/-- COMMON_METRIC_DICT in insertion order: (name, arity as `_safe_apply_metric` sees it, body obtained by
symbolic execution of the live function) -/
def metrics : List Metric := [
  {body}]
"""
        at = ast_table()
        note["ast_cross_check"] = "source is not a dict literal of lambdas" if at is None else (
            "agrees" if at == rows else "DIFFERS from the probed table")
    except Exception as e:  # noqa: BLE001
        ok = False
        text_body = f"\n-- extraction failed: {type(e).__name__}: {str(e)[:200]}\ndef metrics : List Metric := []\n"
    text = (f"-- GENERATED by harness/translate_c20.py from {common.REPO} -- do not edit\n"
            f"import Bermuda.Model.Plot\n"
            f"namespace Bermuda.Generated.PlotMetrics\nopen Bermuda.Plot\n"
            f"def ok : Bool := {str(ok).lower()}\n{text_body}\nend Bermuda.Generated.PlotMetrics\n")
    path = os.path.join(GEN_DIR, "PlotMetrics.lean")
    old = open(path).read() if os.path.exists(path) else None
    if old != text:
        with open(path, "w") as f:
            f.write(text)
    note.update({"ok": ok, "changed": old != text})
    return {"PlotMetrics": note}


if __name__ == "__main__":
    print(regenerate())
