import Bermuda.Model.Basic
import Bermuda.Model.Order
import Bermuda.Model.Triangle
import Bermuda.Model.Ops
import Bermuda.Model.Json
import Bermuda.Properties.C01
