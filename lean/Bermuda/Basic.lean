def hello := "world"
