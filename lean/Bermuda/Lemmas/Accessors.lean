/-
Helper lemmas for C13 (accessors and taxonomy): set/sorted, counting, gcd folds, the adjacent
disjointness test on start-sorted periods, metadata folds.
-/
import Bermuda.Model.Accessors
import Bermuda.Spec.C13
import Bermuda.Lemmas.Select
namespace Bermuda
open Std

/-! ### `set(...)` and `sorted(set(...))` -/

theorem mem_dedup {α} [DecidableEq α] {a : α} {l : List α} : a ∈ dedup l ↔ a ∈ l := by
  induction l with
  | nil => simp [dedup]
  | cons b l ih =>
    unfold dedup
    split
    · rename_i hb
      rw [ih]
      constructor
      · intro h; exact List.mem_cons_of_mem _ h
      · intro h
        rcases List.mem_cons.mp h with rfl | h
        · exact hb
        · exact h
    · simp [ih]

theorem nodup_dedup {α} [DecidableEq α] (l : List α) : (dedup l).Nodup := by
  induction l with
  | nil => simp [dedup]
  | cons b l ih =>
    unfold dedup
    split
    · exact ih
    · rename_i hb
      exact List.nodup_cons.mpr ⟨fun h => hb (mem_dedup.mp h), ih⟩

/-- `sorted(set(l))` is the strictly ascending list of the distinct members of `l` -/
theorem sortedDedup_spec {α : Type} [DecidableEq α] {cmp : α → α → Ordering} [TransCmp cmp]
    (heq : ∀ a b, cmp a b = .eq → a = b) (l : List α) :
    (sortedDedup cmp l).Pairwise (fun a b => cmp a b = .lt) ∧
    ∀ a, a ∈ sortedDedup cmp l ↔ a ∈ l := by
  have hperm : (sortedDedup cmp l).Perm (dedup l) := List.mergeSort_perm _ _
  constructor
  · have hs : (sortedDedup cmp l).Pairwise (fun a b => leOf cmp a b = true) := by
      have := sorted_mergeSort (cmp := cmp) (dedup l)
      exact this
    have hn : (sortedDedup cmp l).Nodup := hperm.nodup_iff.mpr (nodup_dedup l)
    refine (hs.and hn).imp ?_
    intro a b ⟨h1, h2⟩
    unfold leOf at h1
    have : cmp a b ≠ .eq := fun h => h2 (heq a b h)
    revert h1 this
    cases cmp a b <;> simp
  · intro a
    rw [hperm.mem_iff, mem_dedup]

theorem sumBools_map_eq_countP {α} (p : α → Bool) (l : List α) :
    sumBools (l.map p) = l.countP p := by
  induction l with
  | nil => rfl
  | cons a l ih =>
    simp only [sumBools, List.map_cons, List.sum_cons, List.countP_cons] at *
    rw [ih]
    cases p a <;> simp <;> omega

instance : TransCmp periodCmp := by unfold periodCmp; infer_instance
instance : TransCmp intCmp := by unfold intCmp; infer_instance
instance : TransCmp strCmp := by unfold strCmp; infer_instance

theorem periodCmp_eq_eq {a b : Period} (h : periodCmp a b = .eq) : a = b := by
  simp only [periodCmp, compareLex_eq_eq, cmpOn_eq_eq, Date.cmp_eq_eq] at h
  exact Prod.ext h.1 h.2

theorem periodCmp_lt_iff {a b : Period} :
    periodCmp a b = .lt ↔ a.1 < b.1 ∨ (a.1 = b.1 ∧ a.2 < b.2) := by
  simp only [periodCmp, compareLex, cmpOn, Ordering.then_eq_lt, Date.cmp_eq_eq]
  exact Iff.rfl

/-! ### gcd -/

theorem foldl_gcd_dvd (rest : List Int) (g : Int) :
    (rest.foldl (fun r z => (Int.gcd r z : Int)) g ∣ g) ∧
    ∀ x ∈ rest, rest.foldl (fun r z => (Int.gcd r z : Int)) g ∣ x := by
  induction rest generalizing g with
  | nil => simp
  | cons z rest ih =>
    simp only [List.foldl_cons]
    obtain ⟨h1, h2⟩ := ih (Int.gcd g z : Int)
    refine ⟨Int.dvd_trans h1 (Int.gcd_dvd_left _ _), ?_⟩
    intro x hx
    rcases List.mem_cons.mp hx with rfl | hx
    · exact Int.dvd_trans h1 (Int.gcd_dvd_right _ _)
    · exact h2 x hx

theorem dvd_foldl_gcd (rest : List Int) (g d : Int) (hg : d ∣ g) (hr : ∀ x ∈ rest, d ∣ x) :
    d ∣ rest.foldl (fun r z => (Int.gcd r z : Int)) g := by
  induction rest generalizing g with
  | nil => simpa using hg
  | cons z rest ih =>
    simp only [List.foldl_cons]
    exact ih _ (Int.dvd_coe_gcd hg (hr z (by simp))) (fun x hx => hr x (by simp [hx]))


/-- sorted + duplicate-free ⇒ strictly ascending (where `cmp = .eq` means equality) -/
theorem sorted_nodup_lt {α : Type} {cmp : α → α → Ordering} {l : List α}
    (heq : ∀ a ∈ l, ∀ b ∈ l, cmp a b = .eq → a = b)
    (hs : l.Pairwise (fun a b => leOf cmp a b = true)) (hn : l.Nodup) :
    l.Pairwise (fun a b => cmp a b = .lt) := by
  refine (hs.and hn).imp_of_mem ?_
  intro a b ha hb ⟨h1, h2⟩
  unfold leOf at h1
  have : cmp a b ≠ .eq := fun h => h2 (heq a ha b hb h)
  revert h1 this
  cases cmp a b <;> simp

/-! ### the adjacent test on start-sorted periods -/

theorem adjacentPairs_cons_cons {α} (a b : α) (r : List α) :
    adjacentPairs (a :: b :: r) = (a, b) :: adjacentPairs (b :: r) := rfl

/-- on a list of periods that is strictly ascending by `(start, end)` and whose members are
proper intervals, the adjacent test is complete: all adjacent pairs are apart iff all pairs are -/
theorem adjacent_apart_iff_pairwise (l : List Period) (hv : ∀ p ∈ l, p.1 ≤ p.2) :
    (adjacentPairs l).all (fun (pq : Period × Period) => !decide (pq.2.1 ≤ pq.1.2)) = true ↔
      l.Pairwise (fun a b => a.2 < b.1) := by
  induction l with
  | nil => simp [adjacentPairs]
  | cons a l ih =>
    cases l with
    | nil => simp [adjacentPairs]
    | cons b r =>
      have ih := ih (fun p hp => hv p (by simp [hp]))
      rw [adjacentPairs_cons_cons, List.all_cons, Bool.and_eq_true, ih]
      simp only [Bool.not_eq_true', decide_eq_false_iff_not, Date.not_le]
      constructor
      · rintro ⟨hab, hp⟩
        refine List.pairwise_cons.mpr ⟨?_, hp⟩
        intro x hx
        rcases List.mem_cons.mp hx with rfl | hx
        · exact hab
        · have hbx : b.2 < x.1 := (List.pairwise_cons.mp hp).1 x hx
          have hb := hv b (by simp)
          rw [Date.lt_iff_sel] at *; rw [Date.le_iff] at hb; omega
      · intro h
        have h' := List.pairwise_cons.mp h
        exact ⟨h'.1 b (by simp), h'.2⟩

theorem overlap_false_of_lt {p q : Period} (h : p.2 < q.1) : Spec.C13.overlap p q = false := by
  simp only [Spec.C13.overlap, Bool.and_eq_false_iff, decide_eq_false_iff_not]
  exact Or.inr (Date.not_le.mpr h)

theorem overlap_comm (p q : Period) : Spec.C13.overlap p q = Spec.C13.overlap q p := by
  simp only [Spec.C13.overlap, Bool.and_comm]


end Bermuda
