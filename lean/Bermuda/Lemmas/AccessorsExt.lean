/-
Helper lemmas for the two extra accessors of C13 (`is_slicewise_disjoint`, `slice_period_rows`):
membership in a slice, `ascBy` as `Pairwise`, keys / rows / partition of `Triangle.slicePeriodRows`.
Core Lean only. Namespace `Bermuda.AccessorsExtL`.
-/
import Bermuda.Model.AccessorsExt
import Bermuda.Spec.C13Ext
import Bermuda.Lemmas.Accessors
import Bermuda.Lemmas.JoinRegroup
namespace Bermuda.AccessorsExtL
open Bermuda Std Bermuda.Spec.C13 List

theorem mem_slice_iff {t : List Cell} {s : Metadata × List Cell} (hs : s ∈ Triangle.slices t) (c : Cell) :
    c ∈ s.2 ↔ c ∈ t ∧ c.md = s.1 := by
  unfold Triangle.slices at hs
  obtain ⟨m, _, rfl⟩ := List.mem_map.mp hs
  rw [(List.mergeSort_perm _ _).mem_iff, List.mem_filter]
  simp

theorem slice_of_mem {t : List Cell} {c : Cell} (hc : c ∈ t) : ∃ s ∈ Triangle.slices t, s.1 = c.md := by
  unfold Triangle.slices
  refine ⟨(c.md, _), List.mem_map.mpr ⟨c.md, ?_, rfl⟩, rfl⟩
  rw [JoinL.metasOf_eq_firstKeys, JoinL.mem_firstKeys]
  exact ⟨c, hc, rfl⟩

instance : TransCmp rowKeyCmp := by unfold rowKeyCmp; infer_instance

theorem ascBy_iff {α} (le : α → α → Bool) (l : List α) :
    ascBy le l = true ↔ l.Pairwise (fun a b => le a b = true) := by
  induction l with
  | nil => simp [ascBy]
  | cons a l ih => simp [ascBy, ih, List.pairwise_cons]

theorem flatMap_perm_congr {α β} (l : List α) (f g : α → List β) (h : ∀ a ∈ l, (f a).Perm (g a)) :
    (l.flatMap f).Perm (l.flatMap g) := by
  induction l with
  | nil => exact .refl _
  | cons a l ih =>
    rw [List.flatMap_cons, List.flatMap_cons]
    exact (h a (by simp)).append (ih fun b hb => h b (by simp [hb]))

abbrev rowLe : SliceRowKey × List Cell → SliceRowKey × List Cell → Bool := fun a b => cmpOn (·.1) rowKeyCmp a b != .gt
abbrev evLe : Cell → Cell → Bool := fun a b => cmpOn (·.ev) Date.cmp a b != .gt

theorem rows_keys (t : List Cell) :
    (Triangle.slicePeriodRows t).map (·.1) = ((groupBy Cell.rowKey t).mergeSort rowLe).map (·.1) := by
  unfold Triangle.slicePeriodRows
  rw [List.map_map]; rfl

theorem rows_keys_asc (t : List Cell) :
    ((Triangle.slicePeriodRows t).map (·.1)).Pairwise (fun a b => (rowKeyCmp a b != .gt) = true) := by
  rw [rows_keys, List.pairwise_map]
  exact sorted_mergeSort (cmp := cmpOn (fun p : SliceRowKey × List Cell => p.1) rowKeyCmp) _

theorem rows_keys_nodup (t : List Cell) : ((Triangle.slicePeriodRows t).map (·.1)).Nodup := by
  rw [rows_keys]
  have hp : ((groupBy Cell.rowKey t).mergeSort rowLe).Perm (groupBy Cell.rowKey t) := List.mergeSort_perm _ _
  rw [(hp.map _).nodup_iff, JoinL.groupBy_keys]
  exact JoinL.firstKeys_nodup _ _

theorem mem_rows {t : List Cell} {p : SliceRowKey × List Cell} (hp : p ∈ Triangle.slicePeriodRows t) :
    p.1 ∈ JoinL.firstKeys Cell.rowKey t ∧
      p.2 = (t.filter fun c => c.rowKey == p.1).mergeSort evLe := by
  unfold Triangle.slicePeriodRows at hp
  obtain ⟨q, hq, rfl⟩ := List.mem_map.mp hp
  have hq' : q ∈ groupBy Cell.rowKey t := (List.mergeSort_perm _ _).mem_iff.mp hq
  refine ⟨?_, ?_⟩
  · show q.1 ∈ _
    rw [← JoinL.groupBy_keys]; exact List.mem_map_of_mem (f := fun p : SliceRowKey × List Cell => p.1) hq'
  · show q.2.mergeSort evLe = _
    rw [JoinL.groupBy_entry Cell.rowKey t hq']

theorem rows_perm (t : List Cell) : ((Triangle.slicePeriodRows t).flatMap (·.2)).Perm t := by
  unfold Triangle.slicePeriodRows
  rw [List.flatMap_map]
  have h1 : (((groupBy Cell.rowKey t).mergeSort rowLe).flatMap fun p => p.2.mergeSort evLe).Perm
      (((groupBy Cell.rowKey t).mergeSort rowLe).flatMap (·.2)) :=
    flatMap_perm_congr _ _ _ (fun p _ => List.mergeSort_perm _ _)
  have h2 : (((groupBy Cell.rowKey t).mergeSort rowLe).flatMap (·.2)).Perm ((groupBy Cell.rowKey t).flatMap (·.2)) :=
    (List.mergeSort_perm _ _).flatMap_right _
  refine (h1.trans h2).trans ?_
  rw [JoinL.groupBy_eq_map, List.flatMap_map]
  exact JoinL.flatMap_filter_perm Cell.rowKey _ t (JoinL.firstKeys_nodup _ _)
    (fun a ha => (JoinL.mem_firstKeys _ _ _).mpr ⟨a, ha, rfl⟩)

/-- **`slice_period_rows` satisfies its Spec** -/
theorem rowsSpec_slicePeriodRows (t : List Cell) : rowsSpec t (Triangle.slicePeriodRows t) = true := by
  unfold rowsSpec
  simp only [Bool.and_eq_true]
  refine ⟨⟨⟨?_, ?_⟩, ?_⟩, ?_⟩
  · rw [ascBy_iff]; exact rows_keys_asc t
  · rw [ascBy_iff]
    have := rows_keys_nodup t
    unfold List.Nodup at this
    exact this.imp (fun h => by simpa using h)
  · rw [List.all_eq_true]
    intro p hp
    obtain ⟨hk, hrow⟩ := mem_rows hp
    obtain ⟨a, ha, hka⟩ := (JoinL.mem_firstKeys _ _ _).mp hk
    simp only [Bool.and_eq_true]
    refine ⟨⟨?_, ?_⟩, ?_⟩
    · have : a ∈ p.2 := by
        rw [hrow, (List.mergeSort_perm _ _).mem_iff, List.mem_filter]; exact ⟨ha, by simp [hka]⟩
      cases hp2 : p.2 with
      | nil => rw [hp2] at this; simp at this
      | cons _ _ => simp
    · rw [List.all_eq_true]
      intro c hc
      rw [hrow, (List.mergeSort_perm _ _).mem_iff, List.mem_filter] at hc
      exact hc.2
    · rw [ascBy_iff, hrow]
      exact sorted_mergeSort (cmp := cmpOn (fun c : Cell => c.ev) Date.cmp) _
  · rw [List.isPerm_iff]; exact rows_perm t

end Bermuda.AccessorsExtL
