/-
Generic helper lemmas for C13 that are not property statements (moved out of `Properties/C13.lean` so that the
property file's theorem count is honest): pairwise/symmetric relations, `firstIfEqual` and the `common_metadata`
fold, key-distinct dicts, `max`, the `num_samples` fold, rational order, neighbour spacing of a strictly ascending
list, and (appended) gap lists / gcd sign / day arithmetic for the resolutions and `experience_gaps`.
-/
import Bermuda.Model.Accessors
import Bermuda.Spec.C13
import Bermuda.Lemmas.Accessors
namespace Bermuda.C13L
open Bermuda Std Bermuda.Spec.C13

theorem pairwise_forall_of_symm {α} {R : α → α → Prop} {l : List α} (hs : ∀ x y, R x y → R y x)
    (h : l.Pairwise R) : ∀ a ∈ l, ∀ b ∈ l, a ≠ b → R a b := by
  induction l with
  | nil => simp
  | cons x l ih =>
    have h' := List.pairwise_cons.mp h
    intro a ha b hb hab
    rcases List.mem_cons.mp ha with e1 | ha' <;> rcases List.mem_cons.mp hb with e2 | hb'
    · exact absurd (e1.trans e2.symm) hab
    · exact e1 ▸ h'.1 b hb'
    · exact e2 ▸ hs _ _ (h'.1 a ha')
    · exact ih h'.2 a ha' b hb' hab

theorem firstIfEqual_eq_some {α} [BEq α] [LawfulBEq α] {a b : Option α} {x : α} :
    firstIfEqual a b = some x ↔ a = some x ∧ b = some x := by
  unfold firstIfEqual
  by_cases h : a = b
  · subst h; simp
  · have : (a == b) = false := by simpa using h
    simp only [this, Bool.false_eq_true, if_false]
    constructor
    · intro h'; cases h'
    · rintro ⟨rfl, rfl⟩; exact absurd rfl h

theorem foldl_common_attr {α} [BEq α] [LawfulBEq α] (get : Metadata → Option α)
    (hget : ∀ a b, get (commonMetadata₂ a b) = firstIfEqual (get a) (get b))
    (rest : List Metadata) (m : Metadata) (x : α) :
    get (rest.foldl commonMetadata₂ m) = some x ↔ get m = some x ∧ ∀ m' ∈ rest, get m' = some x := by
  induction rest generalizing m with
  | nil => simp
  | cons m' rest ih =>
    simp only [List.foldl_cons]
    rw [ih, hget, firstIfEqual_eq_some]
    simp only [List.mem_cons, forall_eq_or_imp]
    exact and_assoc

theorem commonMetadata_eq_fold {t : List Cell} {c : Metadata} (h : Triangle.commonMetadata t = .ok c) :
    ∃ m rest, Triangle.metadata t = m :: rest ∧ c = rest.foldl commonMetadata₂ m := by
  unfold Triangle.commonMetadata at h
  split at h
  · cases h
  · rename_i m hm; cases h; exact ⟨_, [], hm, rfl⟩
  · rename_i m rest _ hm; cases h; exact ⟨_, _, hm, rfl⟩

/-- an attribute is kept by `common_metadata` with value `x` iff every slice has it with value `x` -/
theorem common_attr_iff {α} [BEq α] [LawfulBEq α] (get : Metadata → Option α)
    (hget : ∀ a b, get (commonMetadata₂ a b) = firstIfEqual (get a) (get b))
    {t : List Cell} {c : Metadata} (h : Triangle.commonMetadata t = .ok c) (x : α) :
    get c = some x ↔ ∀ m ∈ Triangle.metadata t, get m = some x := by
  obtain ⟨m, rest, hm, rfl⟩ := commonMetadata_eq_fold h
  rw [foldl_common_attr get hget, hm]
  simp only [List.mem_cons, forall_eq_or_imp]

/-- the keys of a dict are distinct (always true of a Python dict) -/
def KeysDistinct (d : Dict MVal) : Prop := d.Pairwise (fun a b => a.1 ≠ b.1)

theorem get?_eq_some_iff {d : Dict MVal} (hd : KeysDistinct d) (k : String) (v : MVal) :
    d.get? k = some v ↔ (k, v) ∈ d := by
  induction d with
  | nil => simp [Dict.get?]
  | cons p rest ih =>
    obtain ⟨k', v'⟩ := p
    have hd' := List.pairwise_cons.mp hd
    have ih := ih hd'.2
    unfold Dict.get? at ih ⊢
    by_cases hk : k' = k
    · subst hk
      simp only [List.find?_cons, beq_self_eq_true, Option.map_some, Option.some.injEq,
        List.mem_cons, Prod.mk.injEq, true_and]
      constructor
      · intro h; exact Or.inl h.symm
      · rintro (h | h)
        · exact h.symm
        · exact absurd rfl (hd'.1 (k', v) h)
    · have : (k' == k) = false := by simpa using hk
      simp only [List.find?_cons, this, List.mem_cons, Prod.mk.injEq]
      rw [ih]
      constructor
      · intro h; exact Or.inr h
      · rintro (⟨h, _⟩ | h)
        · exact absurd h.symm hk
        · exact h

theorem foldl_common_details (rest : List Metadata) (m : Metadata)
    (hk : ∀ m' ∈ rest, KeysDistinct m'.details) (kv : String × MVal) :
    kv ∈ (rest.foldl commonMetadata₂ m).details ↔ kv ∈ m.details ∧ ∀ m' ∈ rest, kv ∈ m'.details := by
  induction rest generalizing m with
  | nil => simp
  | cons m' rest ih =>
    simp only [List.foldl_cons]
    rw [ih _ (fun x hx => hk x (by simp [hx]))]
    have : kv ∈ (commonMetadata₂ m m').details ↔ kv ∈ m.details ∧ kv ∈ m'.details := by
      show kv ∈ m.details.filter (fun kv => m'.details.get? kv.1 == some kv.2) ↔ _
      rw [List.mem_filter, beq_iff_eq, get?_eq_some_iff (hk m' (by simp))]
    rw [this]
    simp only [List.mem_cons, forall_eq_or_imp]
    exact and_assoc

theorem foldl_common_lossDetails (rest : List Metadata) (m : Metadata)
    (hm : KeysDistinct m.lossDetails) (hk : ∀ m' ∈ rest, KeysDistinct m'.lossDetails)
    (kv : String × MVal) :
    kv ∈ (rest.foldl commonMetadata₂ m).lossDetails ↔
      kv ∈ m.lossDetails ∧ ∀ m' ∈ rest, kv ∈ m'.lossDetails := by
  induction rest generalizing m with
  | nil => simp
  | cons m' rest ih =>
    simp only [List.foldl_cons]
    have hstep : (commonMetadata₂ m m').lossDetails =
        m'.lossDetails.filter (fun kv => m.lossDetails.get? kv.1 == some kv.2) := rfl
    have hkd : KeysDistinct (commonMetadata₂ m m').lossDetails := by
      rw [hstep]; exact (hk m' (by simp)).sublist List.filter_sublist
    rw [ih _ hkd (fun x hx => hk x (by simp [hx]))]
    have : kv ∈ (commonMetadata₂ m m').lossDetails ↔ kv ∈ m.lossDetails ∧ kv ∈ m'.lossDetails := by
      rw [hstep, List.mem_filter, beq_iff_eq, get?_eq_some_iff hm]
      exact And.comm
    rw [this]
    simp only [List.mem_cons, forall_eq_or_imp]
    exact and_assoc

theorem recombine_attr {α} [BEq α] [LawfulBEq α] (get : Metadata → Option α)
    (hget : ∀ a b, get (commonMetadata₂ a b) = firstIfEqual (get a) (get b))
    {t : List Cell} {c : Metadata} (h : Triangle.commonMetadata t = .ok c)
    {m : Metadata} (hm : m ∈ Triangle.metadata t) :
    (get c).or (if (get c).isNone then get m else none) = get m := by
  cases hc : get c with
  | none => simp
  | some x => simp [(common_attr_iff get hget h x).mp hc m hm]

theorem keysDistinct_unique {d : Dict MVal} (hd : KeysDistinct d) {k : String} {v v' : MVal}
    (h : (k, v) ∈ d) (h' : (k, v') ∈ d) : v = v' := by
  have h1 := (get?_eq_some_iff hd k v).mpr h
  have h2 := (get?_eq_some_iff hd k v').mpr h'
  rw [h1] at h2
  exact Option.some.inj h2

theorem contains_iff {d : Dict MVal} {k : String} : d.contains k = true ↔ ∃ v, (k, v) ∈ d := by
  unfold Dict.contains
  rw [List.any_eq_true]
  constructor
  · rintro ⟨⟨k', v⟩, hm, hk⟩
    have : k' = k := by simpa using hk
    exact ⟨v, this ▸ hm⟩
  · rintro ⟨v, hm⟩
    exact ⟨(k, v), hm, by simp⟩

theorem keysDistinct_of_canon {d : Dict MVal} (h : DictCanon d) : KeysDistinct d := by
  refine h.imp ?_
  intro a b hab e
  rw [e] at hab
  simp at hab

theorem keysDistinct_nodup {d : Dict MVal} (h : KeysDistinct d) : d.Nodup :=
  h.imp (fun {a b} hab e => hab (by rw [e]))

/-- the common metadata's detail dicts have distinct keys when all slices' dicts do -/
theorem foldl_common_keysDistinct (rest : List Metadata) (m : Metadata)
    (hm : KeysDistinct m.details ∧ KeysDistinct m.lossDetails)
    (hk : ∀ m' ∈ rest, KeysDistinct m'.lossDetails) :
    KeysDistinct (rest.foldl commonMetadata₂ m).details ∧
    KeysDistinct (rest.foldl commonMetadata₂ m).lossDetails := by
  induction rest generalizing m with
  | nil => exact hm
  | cons m' rest ih =>
    simp only [List.foldl_cons]
    apply ih
    · constructor
      · show KeysDistinct (m.details.filter _)
        exact hm.1.sublist List.filter_sublist
      · show KeysDistinct (m'.lossDetails.filter _)
        exact (hk m' (by simp)).sublist List.filter_sublist
    · intro x hx; exact hk x (by simp [hx])

/-- a key-sorted dict is determined by its items: sorting `common ++ difference` gives back the
slice's (canonical) dict -/
theorem sortItems_recombine {cd dd md : Dict MVal} (hcd : KeysDistinct cd) (hdd : dd.Nodup)
    (hdisj : ∀ kv ∈ dd, cd.contains kv.1 = false) (hmd : DictCanon md)
    (hmem : ∀ kv, kv ∈ cd ++ dd ↔ kv ∈ md) : sortItems (cd ++ dd) = md := by
  have hnd : (cd ++ dd).Nodup := by
    rw [List.nodup_append]
    refine ⟨keysDistinct_nodup hcd, hdd, ?_⟩
    intro x hx y hy e
    have := hdisj y hy
    rw [← e] at this
    have h2 : cd.contains x.1 = true := contains_iff.mpr ⟨x.2, hx⟩
    rw [h2] at this; cases this
  have hp : (cd ++ dd).Perm md :=
    (List.perm_ext_iff_of_nodup hnd (keysDistinct_nodup (keysDistinct_of_canon hmd))).mpr hmem
  have := mergeSort_perm_invariant (cmp := itemCmp) hp (fun a b _ _ h => itemCmp_eq_eq.mp h)
  have h2 : sortItems md = md := sortItems_of_canon hmd
  unfold sortItems at h2 ⊢
  exact this.trans h2

theorem metadata_ext_fields {a b : Metadata} (h1 : a.riskBasis = b.riskBasis) (h2 : a.country = b.country)
    (h3 : a.currency = b.currency) (h4 : a.reinsuranceBasis = b.reinsuranceBasis)
    (h5 : a.lossDefinition = b.lossDefinition) (h6 : a.limit = b.limit)
    (h7 : a.details = b.details) (h8 : a.lossDetails = b.lossDetails) : a = b := by
  cases a; cases b; simp_all

def maxDateStepC13 (acc : Option Date) (d : Date) : Option Date :=
  match acc with
  | none => some d
  | some m => if m < d then some d else some m

theorem maxDate_foldl_some (l : List Date) (m : Date) :
    ∃ d, l.foldl maxDateStepC13 (some m) = some d ∧ (d = m ∨ d ∈ l) ∧ m ≤ d ∧ ∀ x ∈ l, x ≤ d := by
  induction l generalizing m with
  | nil => exact ⟨m, rfl, Or.inl rfl, Date.le_refl m, by simp⟩
  | cons x l ih =>
    simp only [List.foldl_cons, maxDateStepC13]
    by_cases hx : m < x
    · simp only [hx, if_true]
      obtain ⟨d, h1, h2, h3, h4⟩ := ih x
      have hmx : m ≤ x := by
        have := hx; rw [Date.lt_iff_sel] at this; rw [Date.le_iff]; omega
      refine ⟨d, h1, ?_, Date.le_trans hmx h3, ?_⟩
      · rcases h2 with rfl | h2
        · exact Or.inr (by simp)
        · exact Or.inr (by simp [h2])
      · intro y hy
        rcases List.mem_cons.mp hy with rfl | hy
        · exact h3
        · exact h4 y hy
    · simp only [hx, if_false]
      obtain ⟨d, h1, h2, h3, h4⟩ := ih m
      have hxm : x ≤ m := by
        rw [Date.lt_iff_sel] at hx; rw [Date.le_iff]; omega
      refine ⟨d, h1, ?_, h3, ?_⟩
      · rcases h2 with rfl | h2
        · exact Or.inl rfl
        · exact Or.inr (by simp [h2])
      · intro y hy
        rcases List.mem_cons.mp hy with rfl | hy
        · exact Date.le_trans hxm h3
        · exact h4 y hy

theorem maxDate_spec {l : List Date} (hl : l ≠ []) :
    ∃ d, maxDate l = some d ∧ d ∈ l ∧ ∀ x ∈ l, x ≤ d := by
  cases l with
  | nil => exact absurd rfl hl
  | cons a l =>
    obtain ⟨d, h1, h2, h3, h4⟩ := maxDate_foldl_some l a
    refine ⟨d, h1, ?_, ?_⟩
    · rcases h2 with rfl | h2
      · simp
      · simp [h2]
    · intro x hx
      rcases List.mem_cons.mp hx with rfl | hx
      · exact h3
      · exact h4 x hx

theorem numSamples_fold_some (vs : List Val) (k : Nat)
    (h : ∀ v ∈ vs, ∀ n, v.sampleSize = some n → n = k) :
    vs.foldlM numSamplesStep (some k) = .ok (some k) := by
  induction vs with
  | nil => rfl
  | cons v vs ih =>
    rw [List.foldlM_cons]
    have ih := ih (fun w hw => h w (by simp [hw]))
    cases hs : v.sampleSize with
    | none => simp [numSamplesStep, hs, bind, Except.bind, ih]
    | some n =>
      have : n = k := h v (by simp) n hs
      subst this
      simp [numSamplesStep, hs, bind, Except.bind, ih]

theorem numSamples_fold_none (vs : List Val) (k : Nat)
    (h : ∀ v ∈ vs, ∀ n, v.sampleSize = some n → n = k) :
    vs.foldlM numSamplesStep none =
      .ok (if vs.any (fun v => v.sampleSize.isSome) then some k else none) := by
  induction vs with
  | nil => rfl
  | cons v vs ih =>
    rw [List.foldlM_cons]
    have ih := ih (fun w hw => h w (by simp [hw]))
    cases hs : v.sampleSize with
    | none => simp [numSamplesStep, hs, bind, Except.bind, ih]
    | some n =>
      have : n = k := h v (by simp) n hs
      subst this
      simp [numSamplesStep, hs, bind, Except.bind,
        numSamples_fold_some vs n (fun w hw => h w (by simp [hw]))]

theorem numSamples_fold_some_error (vs : List Val) (k : Nat)
    (h : ∃ v ∈ vs, ∃ n, v.sampleSize = some n ∧ n ≠ k) :
    vs.foldlM numSamplesStep (some k) = .error .valueError := by
  induction vs with
  | nil => obtain ⟨v, hv, _⟩ := h; simp at hv
  | cons v vs ih =>
    rw [List.foldlM_cons]
    cases hs : v.sampleSize with
    | none =>
      have : ∃ w ∈ vs, ∃ n, w.sampleSize = some n ∧ n ≠ k := by
        obtain ⟨w, hw, n, hn, hne⟩ := h
        rcases List.mem_cons.mp hw with rfl | hw
        · rw [hs] at hn; cases hn
        · exact ⟨w, hw, n, hn, hne⟩
      simp [numSamplesStep, hs, bind, Except.bind, ih this]
    | some n =>
      by_cases hn : n = k
      · subst hn
        have : ∃ w ∈ vs, ∃ n', w.sampleSize = some n' ∧ n' ≠ n := by
          obtain ⟨w, hw, n', hn', hne⟩ := h
          rcases List.mem_cons.mp hw with rfl | hw
          · rw [hs] at hn'; cases hn'; exact absurd rfl hne
          · exact ⟨w, hw, n', hn', hne⟩
        simp [numSamplesStep, hs, bind, Except.bind, ih this]
      · have : (k != n) = true := by simp; exact fun e => hn e.symm
        simp [numSamplesStep, hs, bind, Except.bind, this]

theorem numSamples_fold_none_error (vs : List Val)
    (h : ∃ v ∈ vs, ∃ w ∈ vs, ∃ n n', v.sampleSize = some n ∧ w.sampleSize = some n' ∧ n ≠ n') :
    vs.foldlM numSamplesStep none = .error .valueError := by
  induction vs with
  | nil => obtain ⟨v, hv, _⟩ := h; simp at hv
  | cons x vs ih =>
    rw [List.foldlM_cons]
    obtain ⟨v, hv, w, hw, n, n', hn, hn', hne⟩ := h
    cases hs : x.sampleSize with
    | none =>
      have hv' : v ∈ vs := by
        rcases List.mem_cons.mp hv with rfl | hv
        · rw [hs] at hn; cases hn
        · exact hv
      have hw' : w ∈ vs := by
        rcases List.mem_cons.mp hw with rfl | hw
        · rw [hs] at hn'; cases hn'
        · exact hw
      simp [numSamplesStep, hs, bind, Except.bind, ih ⟨v, hv', w, hw', n, n', hn, hn', hne⟩]
    | some k =>
      have : ∃ y ∈ vs, ∃ j, y.sampleSize = some j ∧ j ≠ k := by
        by_cases hk : n = k
        · refine ⟨w, ?_, n', hn', fun e => hne (hk.trans e.symm)⟩
          rcases List.mem_cons.mp hw with rfl | hw
          · rw [hs] at hn'; cases hn'; exact absurd hk hne
          · exact hw
        · refine ⟨v, ?_, n, hn, hk⟩
          rcases List.mem_cons.mp hv with rfl | hv
          · rw [hs] at hn; cases hn; exact absurd rfl hk
          · exact hv
      simp [numSamplesStep, hs, bind, Except.bind, numSamples_fold_some_error vs k this]

theorem duration_eq_iff (u : LagUnit) (a b : Cell) :
    duration u a = duration u b ↔ periodLength u a.period = periodLength u b.period := by
  cases u
  · exact Iff.rfl
  all_goals
    simp only [duration, periodLength, Cell.period, Rat.intCast_inj]
    omega

theorem ratCmp_lt_iff (a b : Rat) : ratCmp a b = .lt ↔ a < b := by
  unfold ratCmp compareOfLessAndEq
  split
  · simp_all
  · split <;> simp_all

/-- consecutive differences all equal `d` -/
def constDiffC13 (d : Rat) : List Rat → Prop
  | a :: b :: r => b - a = d ∧ constDiffC13 d (b :: r)
  | _ => True

/-- the documented "constant lag spacing" over a set of lags: neighbouring lags (no lag strictly
in between) are equally far apart -/
def SpacedC13 (S : Rat → Prop) : Prop :=
  ∀ x y z, S x → S y → S z → x < y → y < z →
    (∀ w, S w → ¬ (x < w ∧ w < y)) → (∀ w, S w → ¬ (y < w ∧ w < z)) → y - x = z - y

theorem spaced_cons (a b c : Rat) (r : List Rat) (hs : (a :: b :: c :: r).Pairwise (· < ·)) :
    SpacedC13 (· ∈ a :: b :: c :: r) ↔ (b - a = c - b) ∧ SpacedC13 (· ∈ b :: c :: r) := by
  have h1 := List.pairwise_cons.mp hs
  have h2 := List.pairwise_cons.mp h1.2
  have h3 := List.pairwise_cons.mp h2.2
  have hab : a < b := h1.1 b (by simp)
  have hbc : b < c := h2.1 c (by simp)
  constructor
  · intro h
    constructor
    · refine h a b c (by simp) (by simp) (by simp) hab hbc ?_ ?_
      · intro w hw ⟨h5, h6⟩
        rcases List.mem_cons.mp hw with rfl | hw
        · grind
        · rcases List.mem_cons.mp hw with rfl | hw
          · grind
          · have := h2.1 w hw; grind
      · intro w hw ⟨h5, h6⟩
        rcases List.mem_cons.mp hw with rfl | hw
        · grind
        · rcases List.mem_cons.mp hw with rfl | hw
          · grind
          · rcases List.mem_cons.mp hw with rfl | hw
            · grind
            · have := h3.1 w hw; grind
    · intro x y z hx hy hz hxy hyz n1 n2
      refine h x y z (List.mem_cons_of_mem _ hx) (List.mem_cons_of_mem _ hy) (List.mem_cons_of_mem _ hz)
        hxy hyz ?_ ?_
      · intro w hw ⟨h5, h6⟩
        rcases List.mem_cons.mp hw with rfl | hw
        · have := h1.1 x hx; grind
        · exact n1 w hw ⟨h5, h6⟩
      · intro w hw ⟨h5, h6⟩
        rcases List.mem_cons.mp hw with rfl | hw
        · have := h1.1 y hy; grind
        · exact n2 w hw ⟨h5, h6⟩
  · rintro ⟨hd, h⟩ x y z hx hy hz hxy hyz n1 n2
    rcases List.mem_cons.mp hx with rfl | hx
    · -- x = a: then y = b and z = c
      have hy' : y ∈ b :: c :: r := by
        rcases List.mem_cons.mp hy with rfl | hy
        · grind
        · exact hy
      have hyb : y = b := by
        rcases List.mem_cons.mp hy' with e | hy''
        · exact e
        · have := h2.1 y hy''
          exact absurd ⟨hab, this⟩ (n1 b (by simp))
      subst hyb
      have hz' : z ∈ c :: r := by
        rcases List.mem_cons.mp hz with rfl | hz
        · grind
        · rcases List.mem_cons.mp hz with rfl | hz
          · grind
          · exact hz
      have hzc : z = c := by
        rcases List.mem_cons.mp hz' with e | hz''
        · exact e
        · have := h3.1 z hz''
          exact absurd ⟨hbc, this⟩ (n2 c (by simp))
      subst hzc
      exact hd
    · have hax := h1.1 x hx
      have hy' : y ∈ b :: c :: r := by
        rcases List.mem_cons.mp hy with rfl | hy
        · grind
        · exact hy
      have hz' : z ∈ b :: c :: r := by
        rcases List.mem_cons.mp hz with rfl | hz
        · grind
        · exact hz
      exact h x y z hx hy' hz' hxy hyz (fun w hw => n1 w (List.mem_cons_of_mem _ hw))
        (fun w hw => n2 w (List.mem_cons_of_mem _ hw))

theorem spaced_iff_constDiff (a b : Rat) (r : List Rat) (hs : (a :: b :: r).Pairwise (· < ·)) :
    SpacedC13 (· ∈ a :: b :: r) ↔ constDiffC13 (b - a) (b :: r) := by
  induction r generalizing a b with
  | nil =>
    simp only [constDiffC13, iff_true]
    intro x y z hx hy hz hxy hyz _ _
    simp only [List.mem_cons, List.not_mem_nil, or_false] at hx hy hz
    grind
  | cons c r ih =>
    rw [spaced_cons a b c r hs, ih b c (List.pairwise_cons.mp hs).2]
    simp only [constDiffC13]
    constructor
    · rintro ⟨h1, h2⟩
      refine ⟨h1.symm, ?_⟩
      rw [h1]; exact h2
    · rintro ⟨h1, h2⟩
      refine ⟨h1.symm, ?_⟩
      rw [h1]; exact h2

theorem zip_all_iff_constDiff (d : Rat) (l1 : Rat) (rest : List Rat) :
    (((l1 :: rest).zip rest).all fun (pn : Rat × Rat) => pn.2 - pn.1 == d) = true ↔
      constDiffC13 d (l1 :: rest) := by
  induction rest generalizing l1 with
  | nil => simp [constDiffC13]
  | cons x rest ih =>
    simp only [List.zip_cons_cons, List.all_cons, Bool.and_eq_true, beq_iff_eq, constDiffC13]
    rw [ih x]

theorem noneBetween_iff (L : List Rat) (x y : Rat) :
    (L.all fun w => !(decide (x < w) && decide (w < y))) = true ↔ ∀ w ∈ L, ¬ (x < w ∧ w < y) := by
  simp only [List.all_eq_true, Bool.not_eq_true', Bool.and_eq_false_iff, decide_eq_false_iff_not]
  constructor
  · intro h w hw ⟨h1, h2⟩
    rcases h w hw with h' | h'
    · exact h' h1
    · exact h' h2
  · intro h w hw
    by_cases h1 : x < w
    · exact Or.inr (fun h2 => h w hw ⟨h1, h2⟩)
    · exact Or.inl h1

theorem spaced_congr {S S' : Rat → Prop} (h : ∀ x, S x ↔ S' x) : SpacedC13 S ↔ SpacedC13 S' := by
  have : S = S' := funext fun x => propext (h x)
  rw [this]


/-! ### gap lists, sign of `_multi_gcd`, month ids (appended for the audit follow-up) -/

theorem nodup_eraseDups {α} [BEq α] [LawfulBEq α] : ∀ (l : List α), l.eraseDups.Nodup := by
  intro l
  induction h : l.length using Nat.strongRecOn generalizing l with
  | ind n ih =>
    cases l with
    | nil => simp
    | cons a rest =>
      rw [List.eraseDups_cons, List.nodup_cons]
      constructor
      · rw [List.mem_eraseDups, List.mem_filter]
        simp
      · apply ih (rest.filter (fun b => !b == a)).length _ _ rfl
        have := List.length_filter_le (fun b => !b == a) rest
        simp at h; omega

theorem leInt_eq : (fun a b : Int => intCmp a b != .gt) = (fun a b => decide (a ≤ b)) := by
  funext a b
  rw [Bool.eq_iff_iff]
  simp only [intCmp, bne_iff_ne, ne_eq, Int.compare_eq_gt, decide_eq_true_eq]
  omega

theorem mergeSort_int_perm {l₁ l₂ : List Int} (hp : l₁.Perm l₂) :
    l₁.mergeSort (fun a b => intCmp a b != .gt) = l₂.mergeSort (fun a b => intCmp a b != .gt) :=
  mergeSort_perm_invariant (cmp := intCmp) hp (fun a b _ _ h => by simpa [intCmp] using h)

theorem perm_of_nodup_mem {α} {l₁ l₂ : List α} (h1 : l₁.Nodup) (h2 : l₂.Nodup) (h : ∀ a, a ∈ l₁ ↔ a ∈ l₂) :
    l₁.Perm l₂ := (List.perm_ext_iff_of_nodup h1 h2).mpr h

theorem diffs_eq_zip (ys : List Int) : diffs ys = (ys.zip ys.tail).map fun (p : Int × Int) => p.2 - p.1 := rfl

theorem diffs_cons_cons (a b : Int) (r : List Int) : diffs (a :: b :: r) = (b - a) :: diffs (b :: r) := rfl

theorem mem_diffs {l : List Int} {g : Int} (h : g ∈ diffs l) : ∃ a ∈ l, ∃ b ∈ l, g = b - a := by
  rw [diffs_eq_zip, List.mem_map] at h
  obtain ⟨⟨a, b⟩, hm, rfl⟩ := h
  have := List.of_mem_zip hm
  exact ⟨a, this.1, b, List.mem_of_mem_tail this.2, rfl⟩

theorem diffs_length (l : List Int) : (diffs l).length = l.length - 1 := by
  simp [diffs_eq_zip, List.length_zip]

theorem diffs_pos {l : List Int} (h : l.Pairwise (· < ·)) : ∀ g ∈ diffs l, 0 < g := by
  induction l with
  | nil => intro g hg; simp [diffs_eq_zip] at hg
  | cons a l ih =>
    cases l with
    | nil => intro g hg; simp [diffs_eq_zip] at hg
    | cons b r =>
      have h' := List.pairwise_cons.mp h
      intro g hg
      rw [diffs_cons_cons] at hg
      rcases List.mem_cons.mp hg with rfl | hg
      · have := h'.1 b (by simp); omega
      · exact ih h'.2 g hg

theorem diffs_nonneg {l : List Int} (h : l.Pairwise (· ≤ ·)) : ∀ g ∈ diffs l, 0 ≤ g := by
  induction l with
  | nil => intro g hg; simp [diffs_eq_zip] at hg
  | cons a l ih =>
    cases l with
    | nil => intro g hg; simp [diffs_eq_zip] at hg
    | cons b r =>
      have h' := List.pairwise_cons.mp h
      intro g hg
      rw [diffs_cons_cons] at hg
      rcases List.mem_cons.mp hg with rfl | hg
      · have := h'.1 b (by simp); omega
      · exact ih h'.2 g hg

theorem sorted_int_mergeSort (l : List Int) :
    (l.mergeSort (fun a b => intCmp a b != .gt)).Pairwise (· ≤ ·) := by
  have := sorted_mergeSort (cmp := intCmp) l
  refine this.imp ?_
  intro a b h
  have := congrFun (congrFun leInt_eq a) b
  simp only [leOf] at h
  rw [this] at h
  simpa using h

theorem foldl_gcd_nonneg (rest : List Int) (g : Int) (hg : 0 ≤ g) :
    0 ≤ rest.foldl (fun r z => (Int.gcd r z : Int)) g := by
  induction rest generalizing g with
  | nil => simpa using hg
  | cons z rest ih => exact ih _ (Int.natCast_nonneg _)

theorem multiGcd_nonneg {xs : List Int} {r : Int} (hx : ∀ x ∈ xs, 0 ≤ x) (h : multiGcd xs = .ok r) : 0 ≤ r := by
  unfold multiGcd at h
  split at h
  · cases h
  · rename_i y hy
    cases h
    exact hx _ (mem_dedup.mp (by rw [hy]; simp))
  · cases h
    exact foldl_gcd_nonneg _ _ (Int.natCast_nonneg _)

theorem multiGcd_ok {xs : List Int} (hx : xs ≠ []) : ∃ r, multiGcd xs = .ok r := by
  unfold multiGcd
  split
  · rename_i hd
    cases xs with
    | nil => exact absurd rfl hx
    | cons a l =>
      have : a ∈ dedup (a :: l) := mem_dedup.mpr (by simp)
      rw [hd] at this; simp at this
  · exact ⟨_, rfl⟩
  · exact ⟨_, rfl⟩

theorem monthToId_mono' {a b : Date} (ha : a.valid = true) (hb : b.valid = true) (h : a ≤ b) :
    monthToId a ≤ monthToId b := by
  simp only [Date.valid, Bool.and_eq_true, decide_eq_true_eq] at ha hb
  rw [Date.le_iff] at h
  unfold monthToId
  omega

/-! ### Bool bridges: generic parts -/

theorem strictAsc_of_pairwise {α} {cmp : α → α → Ordering} {l : List α}
    (h : l.Pairwise (fun a b => cmp a b = .lt)) : strictAsc cmp l = true := by
  induction l with
  | nil => rfl
  | cons a l ih =>
    cases l with
    | nil => rfl
    | cons b r =>
      have h' := List.pairwise_cons.mp h
      simp only [strictAsc, Bool.and_eq_true, beq_iff_eq]
      exact ⟨h'.1 b (by simp), ih h'.2⟩

/-- strictly ascending + same members ⇒ the executable `sortedDistinct` holds -/
theorem sortedDistinct_of {α} [BEq α] [LawfulBEq α] {cmp : α → α → Ordering} {present out : List α}
    (h1 : out.Pairwise (fun a b => cmp a b = .lt)) (h2 : ∀ x, x ∈ out ↔ x ∈ present) :
    sortedDistinct cmp present out = true := by
  simp only [sortedDistinct, Bool.and_eq_true, List.all_eq_true, List.contains_iff_mem]
  exact ⟨⟨strictAsc_of_pairwise h1, fun x hx => (h2 x).mp hx⟩, fun x hx => (h2 x).mpr hx⟩

theorem mem_metadata_iff (t : List Cell) (m : Metadata) :
    m ∈ Triangle.metadata t ↔ m ∈ (t.map (·.md)).eraseDups := by
  obtain ⟨_, hmem, hcov⟩ := metasOf_spec t
  unfold Triangle.metadata
  rw [(List.mergeSort_perm _ _).mem_iff, List.mem_eraseDups, List.mem_map]
  exact ⟨fun h => by obtain ⟨c, hc, e⟩ := hmem m h; exact ⟨c, hc, e⟩, fun ⟨c, hc, e⟩ => e ▸ hcov c hc⟩

theorem optAttr_of_iff {α} [BEq α] [LawfulBEq α] (get : Metadata → Option α) (metas : List Metadata)
    (c : Metadata) (h : ∀ x, get c = some x ↔ ∀ m ∈ metas, get m = some x) : optAttr get metas c = true := by
  unfold optAttr
  cases hc : get c with
  | some x =>
    simp only [List.all_eq_true, beq_iff_eq]
    exact (h x).mp hc
  | none =>
    simp only [Bool.not_eq_true']
    cases metas with
    | nil => rfl
    | cons m rest =>
      simp only []
      cases hm : get m with
      | none => simp
      | some y =>
        simp only [Option.isSome_some, Bool.true_and]
        rw [← Bool.not_eq_true, List.all_eq_true]
        intro hall
        have : get c = some y := (h y).mpr (by
          intro m' hm'
          rcases List.mem_cons.mp hm' with rfl | hm'
          · exact hm
          · simpa using hall m' hm')
        rw [hc] at this; cases this

theorem dictShared_of_iff (get : Metadata → Dict MVal) (metas : List Metadata) (c : Metadata)
    (h : ∀ kv, kv ∈ get c ↔ ∀ m ∈ metas, kv ∈ get m) : dictShared get metas c = true := by
  unfold dictShared
  simp only [Bool.and_eq_true, List.all_eq_true, List.elem_eq_mem, decide_eq_true_eq]
  refine ⟨fun kv hkv => (h kv).mp hkv, ?_⟩
  cases metas with
  | nil => trivial
  | cons m rest =>
    simp only [List.all_eq_true, Bool.or_eq_true, Bool.not_eq_true', decide_eq_true_eq]
    intro kv hkv
    by_cases hall : ∀ m' ∈ rest, kv ∈ get m'
    · right
      exact (h kv).mpr (by
        intro m' hm'
        rcases List.mem_cons.mp hm' with rfl | hm'
        · exact hkv
        · exact hall m' hm')
    · left
      rw [← Bool.not_eq_true, List.all_eq_true]
      intro h'
      exact hall (fun m' hm' => by simpa using h' m' hm')

theorem keys_contains_eq (d : Dict MVal) (k : String) : d.keys.contains k = d.contains k := by
  rw [Bool.eq_iff_iff, contains_iff, List.contains_iff_mem]
  simp only [Dict.keys, List.mem_map]
  constructor
  · rintro ⟨⟨k', v⟩, h, rfl⟩; exact ⟨v, h⟩
  · rintro ⟨v, h⟩; exact ⟨(k, v), h, rfl⟩

theorem zip_map_all {α β} (l : List α) (f : α → β) (p : α × β → Bool) :
    ((l.zip (l.map f)).all p) = l.all (fun a => p (a, f a)) := by
  induction l with
  | nil => rfl
  | cons a l ih => simp [ih]

/-- the executable `resolutionSpec` from its Prop content -/
theorem resolutionSpec_of {gaps : List Int} {r : Int} (h0 : 0 ≤ r) (h1 : ∀ g ∈ gaps, r ∣ g)
    (h2 : ∀ d : Int, (∀ g ∈ gaps, d ∣ g) → d ∣ r) : resolutionSpec gaps r = true := by
  simp only [resolutionSpec, Bool.and_eq_true, decide_eq_true_eq, List.all_eq_true, beq_iff_eq, Bool.or_eq_true,
    Bool.not_eq_true']
  refine ⟨⟨h0, fun g hg => Int.emod_eq_zero_of_dvd (h1 g hg)⟩, ?_⟩
  intro d _
  by_cases hall : ∀ g ∈ gaps, g % (d : Int) = 0
  · right
    exact Int.emod_eq_zero_of_dvd (h2 d (fun g hg => Int.dvd_of_emod_eq_zero (hall g hg)))
  · left; right
    rw [← Bool.not_eq_true, List.all_eq_true]
    intro h'
    exact hall (fun g hg => by simpa using h' g hg)

/-! ### day arithmetic and the gap list of start-sorted, pairwise apart periods -/

theorem dim_pos' (y : Int) (m : Nat) : 1 ≤ dim y m := by
  unfold dim; split <;> (try split) <;> omega

theorem Date.lt_succ' (d : Date) : d < d.succ := by
  rw [Date.lt_iff_sel]; unfold Date.succ
  split
  · simp
  · split
    · simp
    · simp only []; omega

theorem Date.pred_lt' (d : Date) : d.pred < d := by
  rw [Date.lt_iff_sel]; unfold Date.pred
  split
  · simp; omega
  · split
    · simp; omega
    · simp only []; omega

theorem Date.succ_valid' {d : Date} (hv : d.valid = true) : d.succ.valid = true := by
  simp only [Date.valid, Bool.and_eq_true, decide_eq_true_eq] at hv ⊢
  unfold Date.succ
  split
  · simp only []; omega
  · split
    · simp only []; have := dim_pos' d.y (d.m + 1); omega
    · simp only []; have := dim_pos' (d.y + 1) 1; omega

theorem Date.succ_le_of_lt {a b : Date} (ha : a.valid = true) (hb : b.valid = true) (h : a < b) : a.succ ≤ b :=
  (Date.not_le_iff_succ_le ha hb).mp (Date.not_le.mpr h)

theorem Date.le_pred_of_lt {x d : Date} (hx : x.valid = true) (hd : d.valid = true) (h : x < d) : x ≤ d.pred := by
  simp only [Date.valid, Bool.and_eq_true, decide_eq_true_eq] at hx hd
  rw [Date.lt_iff_sel] at h
  rw [Date.le_iff]
  unfold Date.pred
  split
  · simp only []; omega
  · split
    · simp only []
      by_cases hy : x.y = d.y
      · by_cases hm : x.m = d.m - 1
        · have : x.d ≤ dim d.y (d.m - 1) := by rw [← hy, ← hm]; exact hx.2
          omega
        · omega
      · omega
    · simp only []
      by_cases hy : x.y = d.y - 1
      · by_cases hm : x.m = 12
        · have : x.d ≤ 31 := by have := hx.2; rw [hm] at this; simpa [dim] using this
          omega
        · omega
      · omega

theorem Date.lt_of_le_of_ne {a b : Date} (h : a ≤ b) (hne : a ≠ b) : a < b := by
  rcases Decidable.em (a < b) with h' | h'
  · exact h'
  · exact absurd (Date.le_antisymm h (by rw [Date.le_iff]; rw [Date.lt_iff_sel] at h'; omega)) hne

/-- the function `experience_gaps` maps over neighbouring periods -/
def gapF (pq : Period × Period) : Option Period :=
  if pq.2.1 != pq.1.2.succ then some (pq.1.2.succ, pq.2.1.pred) else none

theorem experienceGaps_eq (t : List Cell) :
    Triangle.experienceGaps t = (adjacentPairs (Triangle.periods t)).filterMap gapF := rfl

/-- proper periods with valid dates -/
def ProperP (p : Period) : Prop := p.1.valid = true ∧ p.2.valid = true ∧ p.1 ≤ p.2

theorem gapF_range {a b : Period} {g : Period} (ha : ProperP a) (hb : ProperP b) (hab : a.2 < b.1)
    (hg : gapF (a, b) = some g) : g = (a.2.succ, b.1.pred) ∧ g.1 ≤ g.2 ∧ a.2 < g.1 ∧ g.2 < b.1 := by
  unfold gapF at hg
  split at hg
  · rename_i hne
    cases hg
    refine ⟨rfl, ?_, Date.lt_succ' _, Date.pred_lt' _⟩
    have h1 : a.2.succ ≤ b.1 := Date.succ_le_of_lt ha.2.1 hb.1 hab
    have h2 : a.2.succ < b.1 := Date.lt_of_le_of_ne h1 (fun e => by simp [e] at hne)
    exact Date.le_pred_of_lt (Date.succ_valid' ha.2.1) hb.1 h2
  · cases hg

theorem adjacentPairs_split {α} {l : List α} {x y : α} (h : (x, y) ∈ adjacentPairs l) :
    ∃ l1 l2, l = l1 ++ x :: y :: l2 := by
  induction l with
  | nil => simp [adjacentPairs] at h
  | cons a l ih =>
    cases l with
    | nil => simp [adjacentPairs] at h
    | cons b r =>
      rw [adjacentPairs_cons_cons] at h
      rcases List.mem_cons.mp h with e | h
      · cases e; exact ⟨[], r, rfl⟩
      · obtain ⟨l1, l2, e⟩ := ih h
        exact ⟨a :: l1, l2, by rw [e]; rfl⟩

/-- **every reported gap is a non-empty day range that touches no period**, for start-sorted proper periods that
are pairwise apart -/
theorem gaps_sound {P : List Period} (hv : ∀ p ∈ P, ProperP p) (hp : P.Pairwise (fun a b => a.2 < b.1))
    {g : Period} (hg : g ∈ (adjacentPairs P).filterMap gapF) :
    g.1 ≤ g.2 ∧ (∀ p ∈ P, p.2 < g.1 ∨ g.2 < p.1) ∧ (∃ p ∈ P, p.2.succ = g.1) ∧ (∃ q ∈ P, q.1.pred = g.2) := by
  obtain ⟨⟨a, b⟩, hab, hgf⟩ := List.mem_filterMap.mp hg
  obtain ⟨l1, l2, e⟩ := adjacentPairs_split hab
  subst e
  have ha : ProperP a := hv a (by simp)
  have hb : ProperP b := hv b (by simp)
  obtain ⟨h1, h2, h3⟩ := List.pairwise_append.mp hp
  have h2' := List.pairwise_cons.mp h2
  have h2'' := List.pairwise_cons.mp h2'.2
  obtain ⟨rfl, r1, r2, r3⟩ := gapF_range ha hb (h2'.1 b (by simp)) hgf
  refine ⟨r1, ?_, ⟨a, by simp, rfl⟩, ⟨b, by simp, rfl⟩⟩
  intro p hpm
  rcases List.mem_append.mp hpm with hp1 | hp2
  · left
    exact Date.lt_of_lt_of_le (h3 p hp1 a (by simp)) (Date.le_trans ha.2.2 (by
      have := r2; rw [Date.lt_iff_sel] at this; rw [Date.le_iff]; omega))
  · rcases List.mem_cons.mp hp2 with rfl | hp2
    · exact Or.inl r2
    · rcases List.mem_cons.mp hp2 with rfl | hp2
      · exact Or.inr r3
      · right
        exact Date.lt_of_lt_of_le r3 (Date.le_trans hb.2.2 (by
          have := h2''.1 p hp2; rw [Date.lt_iff_sel] at this; rw [Date.le_iff]; omega))

/-- **the gaps are complete**: a day from the first period start to the last period end lies in a period or in a
reported gap -/
theorem gaps_complete {P : List Period} (hv : ∀ p ∈ P, ProperP p) (hp : P.Pairwise (fun a b => a.2 < b.1))
    {d : Date} (hd : d.valid = true) (h1 : ∃ p ∈ P, p.1 ≤ d) (h2 : ∃ q ∈ P, d ≤ q.2) :
    (∃ p ∈ P, p.1 ≤ d ∧ d ≤ p.2) ∨ ∃ g ∈ (adjacentPairs P).filterMap gapF, g.1 ≤ d ∧ d ≤ g.2 := by
  induction P with
  | nil => obtain ⟨p, hp, _⟩ := h1; simp at hp
  | cons a l ih =>
    have ha : ProperP a := hv a (by simp)
    have hp' := List.pairwise_cons.mp hp
    have had : a.1 ≤ d := by
      obtain ⟨p, hpm, hpd⟩ := h1
      rcases List.mem_cons.mp hpm with rfl | hpm
      · exact hpd
      · have := hp'.1 p hpm
        exact Date.le_trans ha.2.2 (Date.le_trans (by rw [Date.lt_iff_sel] at this; rw [Date.le_iff]; omega) hpd)
    by_cases hda : d ≤ a.2
    · exact Or.inl ⟨a, by simp, had, hda⟩
    · have hda' : a.2 < d := Date.not_le.mp hda
      cases l with
      | nil =>
        obtain ⟨q, hq, hqd⟩ := h2
        simp only [List.mem_cons, List.not_mem_nil, or_false] at hq
        subst hq; exact absurd hqd hda
      | cons b r =>
        have hb : ProperP b := hv b (by simp)
        have hab : a.2 < b.1 := hp'.1 b (by simp)
        rw [adjacentPairs_cons_cons, List.filterMap_cons]
        by_cases hdb : b.1 ≤ d
        · have h2' : ∃ q ∈ b :: r, d ≤ q.2 := by
            obtain ⟨q, hq, hqd⟩ := h2
            rcases List.mem_cons.mp hq with rfl | hq
            · exact absurd hqd hda
            · exact ⟨q, hq, hqd⟩
          rcases ih (fun p hpm => hv p (List.mem_cons_of_mem _ hpm)) hp'.2 ⟨b, by simp, hdb⟩ h2' with
            ⟨p, hpm, h⟩ | ⟨g, hg, h⟩
          · exact Or.inl ⟨p, List.mem_cons_of_mem _ hpm, h⟩
          · right
            refine ⟨g, ?_, h⟩
            cases gapF (a, b) with
            | none => exact hg
            | some g0 => exact List.mem_cons_of_mem _ hg
        · have hdb' : d < b.1 := Date.not_le.mp hdb
          right
          have h1 : a.2.succ ≤ d := Date.succ_le_of_lt ha.2.1 hd hda'
          have h2 : d ≤ b.1.pred := Date.le_pred_of_lt hd hb.1 hdb'
          have hne : (b.1 != a.2.succ) = true := by
            rw [bne_iff_ne]; intro e
            rw [e] at hdb'
            exact absurd h1 (Date.not_le.mpr hdb')
          have hgf : gapF (a, b) = some (a.2.succ, b.1.pred) := by
            unfold gapF; simp only [hne, if_true]
          rw [hgf]
          exact ⟨(a.2.succ, b.1.pred), List.mem_cons.mpr (Or.inl rfl), h1, h2⟩

theorem Date.succ_lt_succ {a b : Date} (ha : a.valid = true) (hb : b.valid = true) (h : a < b) : a.succ < b.succ :=
  Date.lt_of_le_of_lt (Date.succ_le_of_lt ha hb h) (Date.lt_succ' b)

theorem Date.le_of_lt' {a b : Date} (h : a < b) : a ≤ b := by
  rw [Date.lt_iff_sel] at h; rw [Date.le_iff]; omega

theorem filterMap_gapF_cons (a b : Period) (r : List Period) :
    (adjacentPairs (a :: b :: r)).filterMap gapF =
      (match gapF (a, b) with | some g => [g] | none => []) ++ (adjacentPairs (b :: r)).filterMap gapF := by
  rw [adjacentPairs_cons_cons, List.filterMap_cons]
  cases gapF (a, b) <;> rfl

/-- the gaps ascend (strictly, by their first day) -/
theorem gaps_ascending {P : List Period} (hv : ∀ p ∈ P, ProperP p) (hp : P.Pairwise (fun a b => a.2 < b.1)) :
    ((adjacentPairs P).filterMap gapF).Pairwise (fun g g' => g.1 < g'.1) := by
  induction P with
  | nil => simp [adjacentPairs]
  | cons a l ih =>
    cases l with
    | nil => simp [adjacentPairs]
    | cons b r =>
      have ha : ProperP a := hv a (by simp)
      have hp' := List.pairwise_cons.mp hp
      have hvl : ∀ p ∈ b :: r, ProperP p := fun p hpm => hv p (List.mem_cons_of_mem _ hpm)
      have ih := ih hvl hp'.2
      rw [filterMap_gapF_cons]
      cases hg : gapF (a, b) with
      | none => simpa using ih
      | some g =>
        simp only [List.singleton_append]
        refine List.pairwise_cons.mpr ⟨?_, ih⟩
        intro g' hg'
        obtain ⟨rfl, _, _, _⟩ := gapF_range ha (hvl b (by simp)) (hp'.1 b (by simp)) hg
        obtain ⟨_, _, ⟨p, hpm, e⟩, _⟩ := gaps_sound hvl hp'.2 hg'
        rw [← e]
        have hpP := hvl p hpm
        exact Date.succ_lt_succ ha.2.1 hpP.2.1 (Date.lt_of_lt_of_le (hp'.1 p hpm) hpP.2.2)

/-- every period end is the last end, or is continued the next day, or opens a reported gap -/
theorem gaps_open {P : List Period} (hv : ∀ p ∈ P, ProperP p) (hp : P.Pairwise (fun a b => a.2 < b.1)) :
    ∀ p ∈ P, (∀ q ∈ P, q.2 ≤ p.2) ∨ (∃ q ∈ P, q.1 = p.2.succ) ∨
      ∃ g ∈ (adjacentPairs P).filterMap gapF, g.1 = p.2.succ := by
  induction P with
  | nil => intro p hpm; simp at hpm
  | cons a l ih =>
    have ha : ProperP a := hv a (by simp)
    have hp' := List.pairwise_cons.mp hp
    cases l with
    | nil =>
      intro p hpm
      simp only [List.mem_cons, List.not_mem_nil, or_false] at hpm
      subst hpm
      left; intro q hq
      simp only [List.mem_cons, List.not_mem_nil, or_false] at hq
      subst hq; exact Date.le_refl _
    | cons b r =>
      have hvl : ∀ p ∈ b :: r, ProperP p := fun p hpm => hv p (List.mem_cons_of_mem _ hpm)
      have ih := ih hvl hp'.2
      rw [filterMap_gapF_cons]
      intro p hpm
      rcases List.mem_cons.mp hpm with rfl | hpl
      · by_cases hb : b.1 = p.2.succ
        · exact Or.inr (Or.inl ⟨b, by simp, hb⟩)
        · right; right
          have : gapF (p, b) = some (p.2.succ, b.1.pred) := by
            unfold gapF
            have : (b.1 != p.2.succ) = true := by rw [bne_iff_ne]; exact hb
            simp only [this, if_true]
          rw [this]
          exact ⟨_, List.mem_append_left _ (List.mem_cons.mpr (Or.inl rfl)), rfl⟩
      · rcases ih p hpl with h | ⟨q, hq, h⟩ | ⟨g, hg, h⟩
        · left
          intro q hq
          rcases List.mem_cons.mp hq with rfl | hq
          · exact Date.le_of_lt' (Date.lt_of_lt_of_le (hp'.1 p hpl) (hvl p hpl).2.2)
          · exact h q hq
        · exact Or.inr (Or.inl ⟨q, List.mem_cons_of_mem _ hq, h⟩)
        · exact Or.inr (Or.inr ⟨g, List.mem_append_right _ hg, h⟩)

theorem monthFraction_monthEnd {d : Date} (h : d.d = dim d.y d.m) : monthFraction d = 1 := by
  unfold monthFraction
  rw [h]
  have : ((dim d.y d.m : Nat) : Rat) ≠ 0 := by
    have := dim_pos' d.y d.m
    intro e
    have : (dim d.y d.m : Nat) = 0 := by exact_mod_cast e
    omega
  rw [Rat.div_def, Rat.mul_inv_cancel _ this]

/-- a number divides all consecutive differences of a list iff it divides the difference of any two members — so
the common divisors of the gaps depend on the SET of members only (duplicates and order do not matter) -/
theorem dvd_diffs_iff (d : Int) (L : List Int) :
    (∀ g ∈ diffs L, d ∣ g) ↔ ∀ a ∈ L, ∀ b ∈ L, d ∣ b - a := by
  constructor
  · intro h
    induction L with
    | nil => intro a ha; simp at ha
    | cons x l ih =>
      cases l with
      | nil =>
        intro a ha b hb
        simp only [List.mem_cons, List.not_mem_nil, or_false] at ha hb
        subst ha hb; simp
      | cons y r =>
        rw [diffs_cons_cons] at h
        have hxy : d ∣ y - x := h _ (by simp)
        have ih := ih (fun g hg => h g (List.mem_cons_of_mem _ hg))
        have hx : ∀ b ∈ y :: r, d ∣ b - x := by
          intro b hb
          have := Int.dvd_add (ih y (by simp) b hb) hxy
          have e : b - y + (y - x) = b - x := by omega
          rwa [e] at this
        intro a ha b hb
        rcases List.mem_cons.mp ha with e1 | ha' <;> rcases List.mem_cons.mp hb with e2 | hb'
        · rw [e1, e2]; simp
        · rw [e1]; exact hx b hb'
        · rw [e2]
          have := Int.dvd_neg.mpr (hx a ha')
          have e : -(a - x) = x - a := by omega
          rwa [e] at this
        · exact ih a ha' b hb'
  · intro h g hg
    obtain ⟨a, ha, b, hb, rfl⟩ := mem_diffs hg
    exact h a ha b hb

theorem sorted_nodup_int_lt {L : List Int} (hs : L.Pairwise (· ≤ ·)) (hn : L.Nodup) : L.Pairwise (· < ·) := by
  refine (hs.and hn).imp ?_
  intro a b ⟨h1, h2⟩
  omega

theorem sorted_int_mergeSort' (l : List Int) : (l.mergeSort (fun a b => decide (a ≤ b))).Pairwise (· ≤ ·) := by
  rw [← leInt_eq]; exact sorted_int_mergeSort l

theorem two_le_length_of_mem_ne {α} {L : List α} {a b : α} (ha : a ∈ L) (hb : b ∈ L) (hab : a ≠ b) : 2 ≤ L.length := by
  match L, ha, hb with
  | [x], ha, hb => simp at ha hb; exact absurd (ha.trans hb.symm) hab
  | _ :: _ :: _, _, _ => simp

end Bermuda.C13L
