/-
Helper lemmas for C08: iterating `resolution_delta`, the finished walks, the window walk of
`_aggregate_period`. Core Lean only.
-/
import Bermuda.Model.Aggregate
import Bermuda.Lemmas.Summarize
import Bermuda.Lemmas.Sort
namespace Bermuda

/-! ### iterating the resolution step -/

/-- `origin + k·res` by repeated `resolution_delta` -/
def iterD (q : Int) (u : ResUnit) : Nat → Date → Date
  | 0, d => d
  | k + 1, d => iterD q u k (resolutionDelta d q u)

theorem iterD_succ' (q : Int) (u : ResUnit) (k : Nat) (d : Date) :
    iterD q u (k + 1) d = resolutionDelta (iterD q u k d) q u := by
  induction k generalizing d with
  | zero => rfl
  | succ k ih => rw [iterD, ih]; rfl

theorem iterD_add (q : Int) (u : ResUnit) (j k : Nat) (d : Date) :
    iterD q u k (iterD q u j d) = iterD q u (j + k) d := by
  induction j generalizing d with
  | zero => simp [iterD]
  | succ j ih => rw [iterD, ih, Nat.add_right_comm]; rfl

/-- a finished `walkUp` stopped by its own condition, after `k` steps that all stayed below the bound -/
theorem walkUp_spec {q : Int} {u : ResUnit} {bound : Date} {n : Nat} {cur a : Date}
    (h : walkUp q u bound n cur = some a) :
    ∃ k, a = iterD q u k cur ∧ ¬ (resolutionDelta a q u < bound) ∧
      ∀ j < k, iterD q u (j + 1) cur < bound := by
  induction n generalizing cur with
  | zero => simp [walkUp] at h
  | succ n ih =>
    simp only [walkUp] at h
    split at h
    · rename_i hlt
      obtain ⟨k, hk, hstop, hall⟩ := ih h
      refine ⟨k + 1, by rw [hk]; rfl, hstop, ?_⟩
      intro j hj
      cases j with
      | zero => exact hlt
      | succ j => exact hall j (by omega)
    · rename_i hnlt
      cases h
      exact ⟨0, rfl, hnlt, fun j hj => by omega⟩

theorem walkDown_spec {q : Int} {u : ResUnit} {bound : Date} {n : Nat} {cur a : Date}
    (h : walkDown q u bound n cur = some a) : ¬ (bound ≤ a) := by
  induction n generalizing cur with
  | zero => simp [walkDown] at h
  | succ n ih =>
    simp only [walkDown] at h
    split at h
    · exact ih h
    · rename_i hn; cases h; exact hn

/-- the evaluation grid: consecutive steps from its first point, all `≤ last`, and the next step is beyond -/
theorem gridFrom_spec {q : Int} {u : ResUnit} {last : Date} {n : Nat} {cur : Date} {g : List Date}
    (h : gridFrom q u last n cur = some g) :
    (∀ j (hj : j < g.length), g[j] = iterD q u j cur ∧ g[j] ≤ last) ∧
    ¬ (iterD q u g.length cur ≤ last) := by
  induction n generalizing cur g with
  | zero => simp [gridFrom] at h
  | succ n ih =>
    simp only [gridFrom] at h
    split at h
    · rename_i hle
      cases hg : gridFrom q u last n (resolutionDelta cur q u) with
      | none => rw [hg] at h; cases h
      | some g' =>
        rw [hg] at h
        simp only [Option.map_some, Option.some.injEq] at h
        subst h
        obtain ⟨h1, h2⟩ := ih hg
        refine ⟨?_, ?_⟩
        · intro j hj
          cases j with
          | zero => exact ⟨rfl, hle⟩
          | succ j =>
            have := h1 j (by simpa using hj)
            simpa [iterD] using this
        · simpa [iterD] using h2
    · rename_i hnle
      cases h
      exact ⟨fun j hj => by simp at hj, by simpa [iterD] using hnle⟩

/-! ### the window walk -/

/-- window number `k` counted from the anchor `init`: it starts the day after grid point `k` and ends on grid
point `k + 1` -/
def windowAt (q : Int) (u : ResUnit) (init : Date) (k : Nat) : Date × Date :=
  ((iterD q u k init).succ, iterD q u (k + 1) init)

/-- what `assignWindows` did to one cell -/
def Relabelled (q : Int) (u : ResUnit) (init : Date) (c rc : Cell) : Prop :=
  ∃ k, (rc.ps, rc.pe) = windowAt q u init k ∧ rc.kind = .cell ∧ rc.prev = none ∧ rc.ev = c.ev ∧
    rc.values = c.values ∧ rc.md = c.md ∧ ¬ (rc.pe < c.ps) ∧ ¬ (rc.pe < c.pe)

theorem assignWindows_spec {q : Int} {u : ResUnit} {init : Date} {cells rel : List Cell}
    (h : assignWindows q u init cells = .ok rel) :
    rel.length = cells.length ∧ ∀ p ∈ cells.zip rel, Relabelled q u init p.1 p.2 := by
  induction cells generalizing init rel with
  | nil => simp only [assignWindows] at h; cases h; simp
  | cons c rest ih =>
    simp only [assignWindows] at h
    split at h
    · cases h
    · rename_i init' hw
      split at h
      · cases h
      · rename_i hno
        split at h
        · cases h
        · rename_i nc hnc
          split at h
          · cases h
          · rename_i ncs hncs
            cases h
            obtain ⟨k0, hk0, hstop, _⟩ := walkUp_spec hw
            have hnc' := Cell.mk?_ok hnc
            obtain ⟨hlen, hall⟩ := ih hncs
            refine ⟨by simp [hlen], ?_⟩
            intro p hp
            rw [List.zip_cons_cons, List.mem_cons] at hp
            rcases hp with rfl | hp
            · refine ⟨k0, ?_, ?_, ?_, ?_, ?_, ?_, ?_, ?_⟩ <;> simp only [hnc']
              · simp [windowAt, hk0, iterD_succ']
              · exact hstop
              · exact hno
            · obtain ⟨k, hk, hrest⟩ := hall p hp
              refine ⟨k0 + k, ?_, hrest⟩
              rw [hk, hk0]
              simp [windowAt, iterD_add, Nat.add_assoc]

theorem map_eq_of_zip {α β γ} (l₁ : List α) (l₂ : List β) (f : α → γ) (g : β → γ)
    (hlen : l₂.length = l₁.length) (h : ∀ p ∈ l₁.zip l₂, f p.1 = g p.2) : l₁.map f = l₂.map g := by
  induction l₁ generalizing l₂ with
  | nil => cases l₂ <;> simp_all
  | cons a l₁ ih =>
    cases l₂ with
    | nil => simp at hlen
    | cons b l₂ =>
      simp only [List.map_cons]
      rw [h (a, b) (by simp), ih l₂ (by simpa using hlen) (fun p hp => h p (by simp [hp]))]

/-- a `TriangleError` of the window walk comes from a cell that starts no later than a window end and ends
after it -/
theorem assignWindows_triangleError {q : Int} {u : ResUnit} {init : Date} {cells : List Cell}
    (h : assignWindows q u init cells = .error .triangleError) :
    ∃ c ∈ cells, ∃ k, ¬ ((windowAt q u init k).2 < c.ps) ∧ (windowAt q u init k).2 < c.pe := by
  induction cells generalizing init with
  | nil => simp [assignWindows] at h
  | cons c rest ih =>
    simp only [assignWindows] at h
    split at h
    · cases h
    · rename_i init' hw
      obtain ⟨k0, hk0, hstop, _⟩ := walkUp_spec hw
      split at h
      · rename_i hlt
        exact ⟨c, by simp, k0, by simpa [windowAt, iterD_succ', ← hk0] using hstop,
          by simpa [windowAt, iterD_succ', ← hk0] using hlt⟩
      · split at h
        · rename_i e he
          cases h
          unfold Cell.mk? at he
          split at he <;> cases he
        · split at h
          · rename_i e he
            cases h
            obtain ⟨c', hc', k, h1, h2⟩ := ih he
            refine ⟨c', by simp [hc'], k0 + k, ?_, ?_⟩
            · simpa [windowAt, hk0, iterD_add, Nat.add_assoc] using h1
            · simpa [windowAt, hk0, iterD_add, Nat.add_assoc] using h2
          · cases h

theorem kindsConsistent_filter {t : List Cell} (p : Cell → Bool) (h : kindsConsistent t = true) :
    kindsConsistent (t.filter p) = true := by
  unfold kindsConsistent at *
  simp only [Bool.or_eq_true, List.all_eq_true] at *
  rcases h with (h | h) | h
  · exact Or.inl (Or.inl fun c hc => h c (List.mem_filter.mp hc).1)
  · exact Or.inl (Or.inr fun c hc => h c (List.mem_filter.mp hc).1)
  · exact Or.inr fun c hc => h c (List.mem_filter.mp hc).1

/-- re-constructing a filtered canonical triangle changes nothing -/
theorem ofCells_filter_sorted {t : List Cell} (hs : t.Pairwise (fun a b => Cell.le a b))
    (hk : kindsConsistent t = true) (p : Cell → Bool) :
    Triangle.ofCells (t.filter p) = .ok (t.filter p) := by
  unfold Triangle.ofCells
  rw [kindsConsistent_filter p hk]
  simp only [if_true]
  congr 1
  exact List.mergeSort_of_pairwise (hs.sublist List.filter_sublist)

theorem aggCell_ok {tr : Transc} {prem : Bool} {g : (Date × Date × Date) × List Cell} {o : Cell}
    (h : aggCell tr prem g = .ok o) :
    ∃ c0 rest vals, g.2 = c0 :: rest ∧ summarizeCellValues tr [] g.2 prem = .ok vals ∧
      o = { kind := .cumulative, ps := c0.ps, pe := c0.pe, ev := c0.ev, values := vals, md := c0.md } := by
  unfold aggCell at h
  split at h
  · cases h
  · rename_i c0 rest hg
    split at h
    · cases h
    · rename_i vals hv
      exact ⟨c0, rest, vals, hg, hv, Cell.mk?_ok h⟩

/-- the key `(period_start, period_end, evaluation_date)` of the piles -/
def key3 (c : Cell) : Date × Date × Date := (c.ps, c.pe, c.ev)

/-- the stages of `_aggregate_period` -/
theorem aggregatePeriod_decompose {tr : Transc} {t out : List Cell} {q : Int} {s : String}
    {origin : Date} {prem : Bool}
    (h : aggregatePeriod tr t (some (q, s)) origin prem = .ok out) :
    ∃ q' u init rel newCells, standardizeResolution q s = .ok (q', u) ∧
      assignWindows q' u init (t.mergeSort fun a b => coordCmp a b != .gt) = .ok rel ∧
      smMapE (aggCell tr prem) (groupsOf key3 rel) = .ok newCells ∧ out.Perm newCells := by
  unfold aggregatePeriod at h
  simp only at h
  split at h
  · cases h
  · rename_i q' u hst
    split at h
    · cases h
    · rename_i c0 tl hsorted
      split at h
      · cases h
      · rename_i init hinit
        split at h
        · cases h
        · rename_i rel hrel
          split at h
          · cases h
          · rename_i newCells hnew
            rw [groupBy_eq_groupsOf] at hnew
            refine ⟨q', u, init, rel, newCells, hst, ?_, hnew, ofCells_ok_perm h⟩
            exact hrel

theorem aggCell_key {tr : Transc} {prem : Bool} {rel : List Cell} {g : (Date × Date × Date) × List Cell}
    {o : Cell} (hg : g ∈ groupsOf key3 rel) (h : aggCell tr prem g = .ok o) :
    key3 o = g.1 ∧ g.2 = rel.filter (fun c => key3 c == key3 o) := by
  obtain ⟨c0, rest, vals, hg2, _, rfl⟩ := aggCell_ok h
  unfold groupsOf at hg
  obtain ⟨k, _, rfl⟩ := List.mem_map.mp hg
  simp only at hg2
  have hc0 : c0 ∈ rel.filter (fun c => key3 c == k) := by rw [hg2]; simp
  have hk : key3 c0 = k := by simpa using (List.mem_filter.mp hc0).2
  refine ⟨hk, ?_⟩
  simp only [key3] at hk ⊢
  simp [hk]


theorem sum_filter_eq_indicator {α} (l : List α) (p : α → Bool) (g : α → Rat) :
    ((l.filter p).map g).sum = (l.map fun a => if p a then g a else 0).sum := by
  induction l with
  | nil => rfl
  | cons a l ih =>
    rw [List.filter_cons]
    split <;> simp_all [List.sum_cons, Rat.zero_add]

open Std

/-! ### date order -/

theorem Date.lt_iff_agg (a b : Date) :
    a < b ↔ a.y < b.y ∨ (a.y = b.y ∧ (a.m < b.m ∨ (a.m = b.m ∧ a.d < b.d))) := by
  show Date.cmp a b = .lt ↔ _
  simp only [Date.cmp, compareLex, cmpOn, Ordering.then_eq_lt, Int.compare_eq_lt, Nat.compare_eq_lt,
    compare_eq_iff_eq]

theorem Date.lt_of_lt_of_not_lt_agg {a b c : Date} (h1 : a < b) (h2 : ¬ c < b) : a < c := by
  rw [Date.lt_iff_agg] at *; omega

theorem Date.lt_asymm_agg {a b : Date} (h : a < b) : ¬ b < a := by
  rw [Date.lt_iff_agg] at *; omega

/-! ### the window containing a date -/

/-- window `k` is the FIRST window (counted from the anchor) whose end is not before `d` -/
def FirstWindow (q : Int) (u : ResUnit) (init : Date) (k : Nat) (d : Date) : Prop :=
  (∀ j < k, (windowAt q u init j).2 < d) ∧ ¬ ((windowAt q u init k).2 < d)

theorem FirstWindow.unique {q : Int} {u : ResUnit} {init : Date} {k k' : Nat} {d : Date}
    (h : FirstWindow q u init k d) (h' : FirstWindow q u init k' d) : k = k' := by
  rcases Nat.lt_trichotomy k k' with hlt | heq | hgt
  · exact absurd (h'.1 k hlt) h.2
  · exact heq
  · exact absurd (h.1 k' hgt) h'.2

theorem mem_zip_of_mem_left {α β} {l₁ : List α} {l₂ : List β} (hlen : l₂.length = l₁.length) {a : α}
    (ha : a ∈ l₁) : ∃ b, (a, b) ∈ l₁.zip l₂ := by
  induction l₁ generalizing l₂ with
  | nil => simp at ha
  | cons x l₁ ih =>
    cases l₂ with
    | nil => simp at hlen
    | cons y l₂ =>
      rcases List.mem_cons.mp ha with rfl | ha
      · exact ⟨y, by simp⟩
      · obtain ⟨b, hb⟩ := ih (by simpa using hlen) ha
        exact ⟨b, by simp [hb]⟩

/-- with the cells sorted by period start, the carried `current_init` always reaches the FIRST window whose end
is not before the cell's start -/
theorem assignWindows_first {q : Int} {u : ResUnit} {init0 : Date} {k0 : Nat} {cells rel : List Cell}
    (hs : cells.Pairwise (fun a b => ¬ b.ps < a.ps))
    (hinv : ∀ c ∈ cells, ∀ j < k0, (windowAt q u init0 j).2 < c.ps)
    (h : assignWindows q u (iterD q u k0 init0) cells = .ok rel) :
    ∀ p ∈ cells.zip rel, ∃ k, FirstWindow q u init0 k p.1.ps ∧ p.2.pe = (windowAt q u init0 k).2 := by
  induction cells generalizing k0 rel with
  | nil => simp only [assignWindows] at h; cases h; simp
  | cons c rest ih =>
    simp only [assignWindows] at h
    split at h
    · cases h
    · rename_i init' hw
      split at h
      · cases h
      · split at h
        · cases h
        · rename_i nc hnc
          split at h
          · cases h
          · rename_i ncs hncs
            cases h
            obtain ⟨k1, hk1, hstop, hbelow⟩ := walkUp_spec hw
            have hnc' := Cell.mk?_ok hnc
            have hinit' : init' = iterD q u (k0 + k1) init0 := by rw [hk1, iterD_add]
            have hfirst : FirstWindow q u init0 (k0 + k1) c.ps := by
              refine ⟨?_, ?_⟩
              · intro j hj
                by_cases hj0 : j < k0
                · exact hinv c (by simp) j hj0
                · have := hbelow (j - k0) (by omega)
                  rw [iterD_add] at this
                  have e : k0 + (j - k0 + 1) = j + 1 := by omega
                  rw [e] at this
                  exact this
              · show ¬ (iterD q u (k0 + k1 + 1) init0 < c.ps)
                rw [iterD_succ', ← hinit']; exact hstop
            intro p hp
            rw [List.zip_cons_cons, List.mem_cons] at hp
            rcases hp with rfl | hp
            · refine ⟨k0 + k1, hfirst, ?_⟩
              simp only [hnc']
              show resolutionDelta init' q u = iterD q u (k0 + k1 + 1) init0
              rw [iterD_succ', ← hinit']
            · have hs' := List.pairwise_cons.mp hs
              rw [hinit'] at hncs
              exact ih hs'.2 (fun c' hc' j hj =>
                Date.lt_of_lt_of_not_lt_agg (hfirst.1 j hj) (hs'.1 c' hc')) hncs p hp

/-- … and a `TriangleError` comes from a cell whose period crosses the end of that window -/
theorem assignWindows_triangleError_first {q : Int} {u : ResUnit} {init0 : Date} {k0 : Nat}
    {cells : List Cell} (hs : cells.Pairwise (fun a b => ¬ b.ps < a.ps))
    (hinv : ∀ c ∈ cells, ∀ j < k0, (windowAt q u init0 j).2 < c.ps)
    (h : assignWindows q u (iterD q u k0 init0) cells = .error .triangleError) :
    ∃ c ∈ cells, ∃ k, FirstWindow q u init0 k c.ps ∧ (windowAt q u init0 k).2 < c.pe := by
  induction cells generalizing k0 with
  | nil => simp [assignWindows] at h
  | cons c rest ih =>
    simp only [assignWindows] at h
    split at h
    · cases h
    · rename_i init' hw
      obtain ⟨k1, hk1, hstop, hbelow⟩ := walkUp_spec hw
      have hinit' : init' = iterD q u (k0 + k1) init0 := by rw [hk1, iterD_add]
      have hfirst : FirstWindow q u init0 (k0 + k1) c.ps := by
        refine ⟨?_, ?_⟩
        · intro j hj
          by_cases hj0 : j < k0
          · exact hinv c (by simp) j hj0
          · have := hbelow (j - k0) (by omega)
            rw [iterD_add] at this
            have e : k0 + (j - k0 + 1) = j + 1 := by omega
            rw [e] at this
            exact this
        · show ¬ (iterD q u (k0 + k1 + 1) init0 < c.ps)
          rw [iterD_succ', ← hinit']; exact hstop
      split at h
      · rename_i hlt
        refine ⟨c, by simp, k0 + k1, hfirst, ?_⟩
        show iterD q u (k0 + k1 + 1) init0 < c.pe
        rw [iterD_succ', ← hinit']; exact hlt
      · split at h
        · rename_i e he
          cases h
          unfold Cell.mk? at he
          split at he <;> cases he
        · split at h
          · rename_i e he
            cases h
            have hs' := List.pairwise_cons.mp hs
            rw [hinit'] at he
            obtain ⟨c', hc', k, h1, h2⟩ := ih hs'.2 (fun c' hc' j hj =>
              Date.lt_of_lt_of_not_lt_agg (hfirst.1 j hj) (hs'.1 c' hc')) he
            exact ⟨c', by simp [hc'], k, h1, h2⟩
          · cases h

/-- sorting by `(ps, pe, ev)` sorts by period start -/
theorem sorted_by_ps (t : List Cell) :
    (t.mergeSort fun a b => coordCmp a b != .gt).Pairwise (fun a b => ¬ b.ps < a.ps) := by
  haveI : TransCmp coordCmp := by unfold coordCmp; infer_instance
  have := sorted_mergeSort (cmp := coordCmp) t
  refine this.imp ?_
  intro a b hab hlt
  have hlt' : Date.cmp b.ps a.ps = .lt := hlt
  have hgt : Date.cmp a.ps b.ps = .gt := by
    rw [OrientedCmp.eq_swap (cmp := Date.cmp), hlt']; rfl
  simp [leOf, coordCmp, compareLex, cmpOn, hgt] at hab


end Bermuda
