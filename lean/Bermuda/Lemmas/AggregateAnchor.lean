/-
C08: the anchor of the window walk / of the evaluation grid is a point of the grid of the REQUESTED origin
(`anchorBefore … origin bound = origin + j·res`, `j ∈ ℤ`), it lies before the bound and one step later does not.
Month units with a month-end origin (month index arithmetic, C12 lemmas) and day units (ordinals).
-/
import Bermuda.Lemmas.AggregateDates
import Bermuda.Spec.C08
namespace Bermuda

theorem Date.le_iff_agg (a b : Date) :
    a ≤ b ↔ a.y < b.y ∨ (a.y = b.y ∧ (a.m < b.m ∨ (a.m = b.m ∧ a.d ≤ b.d))) := by
  show Date.cmp a b ≠ .gt ↔ _
  simp only [Date.cmp, compareLex, cmpOn, ne_eq, Ordering.then_eq_gt, Int.compare_eq_gt, Nat.compare_eq_gt,
    compare_eq_iff_eq]
  omega

theorem Date.le_iff_not_lt_agg (a b : Date) : a ≤ b ↔ ¬ (b < a) := by
  rw [Date.le_iff_agg, Date.lt_iff_agg]; omega

theorem resolutionDelta_month_neg_agg (d : Date) (q : Int) :
    resolutionDelta d q .month true = addMonths d (((-q : Int)) : Rat) := by
  simp [resolutionDelta]

/-- `walkDown` in month units from a month end: `k` whole steps back; it stops before the bound, and unless no step
was taken the point one step later is not before the bound -/
theorem walkDown_month_agg {q : Int} {bound : Date} {n : Nat} {cur a : Date} (hv : cur.valid = true)
    (he : cur.isMonthEnd = true) (h : walkDown q .month bound n cur = some a) :
    ∃ k : Nat, a = monthEndOf (monthToId cur - (k : Int) * q) ∧ ¬ (bound ≤ a) ∧
      (k = 0 ∨ bound ≤ monthEndOf (monthToId a + q)) := by
  induction n generalizing cur with
  | zero => simp [walkDown] at h
  | succ n ih =>
    simp only [walkDown] at h
    split at h
    · rename_i hle
      rw [resolutionDelta_month_neg_agg, addMonths_monthEnd_all cur (-q) he] at h
      obtain ⟨k, hk, hstop, hnext⟩ := ih (monthEndOf_valid _) (monthEndOf_isMonthEnd _) h
      rw [monthToId_monthEndOf] at hk
      refine ⟨k + 1, ?_, hstop, Or.inr ?_⟩
      · rw [hk]; congr 1; push_cast; ring
      · rcases hnext with rfl | hnext
        · have : monthToId a + q = monthToId cur := by
            rw [hk, monthToId_monthEndOf]; simp
          rw [this, monthEndOf_monthToId hv he]; exact hle
        · exact hnext
    · rename_i hn
      cases h
      exact ⟨0, by simp [monthEndOf_monthToId hv he], hn, Or.inl rfl⟩

/-- **anchor, month units.** From a valid month-end origin the anchor is the last day of month
`monthToId origin + j·q` for an integer `j` (a point of the origin's grid), it lies strictly before the bound, and
the grid point after it does not (so the first window `[anchor + 1 day, anchor + q months]` contains the bound). -/
theorem anchorBefore_month_agg {q : Int} {origin bound a : Date} (hv : origin.valid = true)
    (he : origin.isMonthEnd = true) (h : anchorBefore q .month origin bound = some a) :
    ∃ j : Int, a = monthEndOf (monthToId origin + j * q) ∧ a < bound ∧
      ¬ (monthEndOf (monthToId origin + (j + 1) * q) < bound) := by
  unfold anchorBefore at h
  split at h
  · cases h
  · rename_i a1 hup
    obtain ⟨k1, hk1, hstop, _⟩ := walkUp_spec hup
    rw [iterD_month_monthEnd q k1 origin hv he] at hk1
    have hv1 : a1.valid = true := by rw [hk1]; exact monthEndOf_valid _
    have he1 : a1.isMonthEnd = true := by rw [hk1]; exact monthEndOf_isMonthEnd _
    obtain ⟨k, hk, hlt, hnext⟩ := walkDown_month_agg hv1 he1 h
    have hid : monthToId a1 = monthToId origin + (k1 : Int) * q := by rw [hk1, monthToId_monthEndOf]
    refine ⟨(k1 : Int) - k, ?_, ?_, ?_⟩
    · rw [hk, hid]; congr 1; ring
    · rw [Date.le_iff_not_lt_agg] at hlt
      rw [Date.lt_iff_agg] at *; omega
    · have e : monthToId origin + ((k1 : Int) - k + 1) * q = monthToId a + q := by
        rw [hk, monthToId_monthEndOf, hid]; ring
      rw [e]
      rcases hnext with rfl | hnext
      · have : a = a1 := by rw [hk]; simp [monthEndOf_monthToId hv1 he1]
        rw [this] at *
        rw [resolutionDelta_month_agg, addMonths_monthEnd_all a1 q he1] at hstop
        exact hstop
      · rw [Date.le_iff_not_lt_agg] at hnext; exact hnext

/-! ### day units -/

theorem Date.eq_of_not_lt_agg {a b : Date} (h1 : ¬ a < b) (h2 : ¬ b < a) : a = b := by
  rw [Date.lt_iff_agg] at h1 h2
  cases a; cases b
  simp only [Date.mk.injEq] at *
  omega

/-- for valid dates a smaller ordinal is an earlier date -/
theorem lt_of_ordinal_lt_agg {a b : Date} (ha : a.valid = true) (hb : b.valid = true)
    (h : a.ordinal < b.ordinal) : a < b := by
  by_contra hn
  have h2 : ¬ b < a := not_lt_of_ordinal_le_agg ha hb (by omega)
  have := Date.eq_of_not_lt_agg hn h2
  rw [this] at h; omega

theorem resolutionDelta_day_neg_agg (d : Date) (q : Int) :
    resolutionDelta d q .day true = d.addDays (-q) := by
  simp [resolutionDelta]

theorem walkUp_day_agg {q : Int} {bound : Date} (hq : 1 ≤ q) (hvb : bound.valid = true)
    (hb2 : bound.ordinal + q ≤ 3652059) {n : Nat} {cur a : Date} (hv : cur.valid = true)
    (h1 : 1 ≤ cur.ordinal) (h2 : cur.ordinal + q ≤ 3652059) (h : walkUp q .day bound n cur = some a) :
    ∃ k : Nat, a.valid = true ∧ a.ordinal = cur.ordinal + (k : Int) * q ∧ a.ordinal + q ≤ 3652059 ∧
      ¬ (a.addDays q < bound) := by
  induction n generalizing cur with
  | zero => simp [walkUp] at h
  | succ n ih =>
    simp only [walkUp] at h
    rw [resolutionDelta_day_agg] at h
    obtain ⟨hv', ho'⟩ := addDays_ordinal cur q (by omega) (by omega)
    split at h
    · rename_i hlt
      have := ordinal_lt_of_lt_agg hv' hvb hlt
      obtain ⟨k, hva, hoa, hra, hstop⟩ := ih hv' (by omega) (by omega) h
      refine ⟨k + 1, hva, ?_, hra, hstop⟩
      rw [hoa, ho']; push_cast; ring
    · rename_i hn
      cases h
      exact ⟨0, hv, by simp, h2, hn⟩

theorem walkDown_day_agg {q : Int} {bound : Date} (hq : 1 ≤ q) (hvb : bound.valid = true)
    (hb1 : q < bound.ordinal) {n : Nat} {cur a : Date} (hv : cur.valid = true)
    (h2 : cur.ordinal ≤ 3652059) (h : walkDown q .day bound n cur = some a) :
    ∃ k : Nat, a.valid = true ∧ a.ordinal = cur.ordinal - (k : Int) * q ∧ ¬ (bound ≤ a) ∧
      (k = 0 ∨ bound.ordinal ≤ a.ordinal + q) := by
  induction n generalizing cur with
  | zero => simp [walkDown] at h
  | succ n ih =>
    simp only [walkDown] at h
    split at h
    · rename_i hle
      rw [resolutionDelta_day_neg_agg] at h
      have hbc : bound.ordinal ≤ cur.ordinal := by
        by_contra hc
        have := lt_of_ordinal_lt_agg hv hvb (by omega)
        rw [Date.le_iff_not_lt_agg] at hle
        exact hle this
      obtain ⟨hv', ho'⟩ := addDays_ordinal cur (-q) (by omega) (by omega)
      obtain ⟨k, hva, hoa, hstop, hnext⟩ := ih hv' (by omega) h
      refine ⟨k + 1, hva, ?_, hstop, Or.inr ?_⟩
      · rw [hoa, ho']; push_cast; ring
      · rcases hnext with rfl | hnext
        · rw [hoa, ho']; simp; omega
        · exact hnext
    · rename_i hn
      cases h
      exact ⟨0, hv, by simp, hn, Or.inl rfl⟩

/-- **anchor, day units** (dates inside `date.min … date.max`, with one step of room on either side): the anchor
is `j·q` days from the origin for an integer `j`, strictly before the bound, and `q` days later is not. -/
theorem anchorBefore_day_agg {q : Int} {origin bound a : Date} (hq : 1 ≤ q) (hvo : origin.valid = true)
    (hvb : bound.valid = true) (ho1 : 1 ≤ origin.ordinal) (ho2 : origin.ordinal + q ≤ 3652059)
    (hb1 : q < bound.ordinal) (hb2 : bound.ordinal + q ≤ 3652059)
    (h : anchorBefore q .day origin bound = some a) :
    ∃ j : Int, a.valid = true ∧ a.ordinal = origin.ordinal + j * q ∧ a < bound ∧ ¬ (a.addDays q < bound) := by
  unfold anchorBefore at h
  split at h
  · cases h
  · rename_i a1 hup
    obtain ⟨k1, hv1, ho1', hr1, hstop1⟩ := walkUp_day_agg hq hvb hb2 hvo ho1 ho2 hup
    obtain ⟨k, hva, hoa, hlt, hnext⟩ := walkDown_day_agg hq hvb hb1 hv1 (by omega) h
    refine ⟨(k1 : Int) - k, hva, by rw [hoa, ho1']; ring, ?_, ?_⟩
    · rw [Date.le_iff_agg] at hlt
      rw [Date.lt_iff_agg]; omega
    · rcases hnext with rfl | hnext
      · have : a = a1 := by
          have : a.ordinal = a1.ordinal := by rw [hoa]; simp
          by_contra hne
          rcases Classical.em (a < a1) with hl | hl
          · have := ordinal_lt_of_lt_agg hva hv1 hl; omega
          · rcases Classical.em (a1 < a) with hl' | hl'
            · have := ordinal_lt_of_lt_agg hv1 hva hl'; omega
            · exact hne (Date.eq_of_not_lt_agg hl hl')
        rw [this]; exact hstop1
      · have hk1 : (1 : Int) ≤ a.ordinal := by
          have : (0 : Int) ≤ 0 := le_refl _
          omega
        obtain ⟨hvq, hoq⟩ := addDays_ordinal a q (by omega) (by
          have : (0 : Int) ≤ (k : Int) * q := Int.mul_nonneg (by omega) (by omega)
          omega)
        exact not_lt_of_ordinal_le_agg hvb hvq (by omega)

/-! ### the anchor inside `_aggregate_period` -/

/-- the stages of `_aggregate_period`, keeping the fact that the anchor is `anchorBefore … origin` of the earliest
period start -/
theorem aggregatePeriod_decompose_anchor {tr : Transc} {t out : List Cell} {q : Int} {s : String}
    {origin : Date} {prem : Bool}
    (h : aggregatePeriod tr t (some (q, s)) origin prem = .ok out) :
    ∃ q' u init rel newCells c0, standardizeResolution q s = .ok (q', u) ∧
      c0 ∈ t ∧ (∀ c ∈ t, ¬ c.ps < c0.ps) ∧ anchorBefore q' u origin c0.ps = some init ∧
      assignWindows q' u init (t.mergeSort fun a b => coordCmp a b != .gt) = .ok rel ∧
      smMapE (aggCell tr prem) (groupsOf key3 rel) = .ok newCells ∧ out.Perm newCells := by
  unfold aggregatePeriod at h
  simp only at h
  split at h
  · cases h
  · rename_i q' u hst
    split at h
    · cases h
    · rename_i c0 tl hsorted
      split at h
      · cases h
      · rename_i init hinit
        split at h
        · cases h
        · rename_i rel hrel
          split at h
          · cases h
          · rename_i newCells hnew
            rw [groupBy_eq_groupsOf] at hnew
            have hperm : (t.mergeSort fun a b => coordCmp a b != .gt).Perm t := List.mergeSort_perm _ _
            have hs := sorted_by_ps t
            rw [hsorted] at hperm hs
            refine ⟨q', u, init, rel, newCells, c0, hst, hperm.mem_iff.mp (by simp), ?_, hinit, ?_, hnew,
              ofCells_ok_perm h⟩
            · intro c hc
              rcases List.mem_cons.mp (hperm.mem_iff.mpr hc) with rfl | hc'
              · exact Date.lt_asymm_agg (a := c.ps) (b := c.ps) |> fun f hlt => f hlt hlt
              · exact (List.pairwise_cons.mp hs).1 c hc'
            · exact hrel

/-- the day after `a` is the least date after `a` -/
theorem Date.not_lt_succ_of_lt_agg {a b : Date} (hb : b.valid = true) (h : a < b) : ¬ (b < a.succ) := by
  rw [valid_iff] at hb
  rw [Date.lt_iff_agg] at h
  intro hlt
  rw [Date.lt_iff_agg] at hlt
  unfold Date.succ at hlt
  split at hlt
  · simp only at hlt; omega
  · rename_i hd
    split at hlt
    · simp only at hlt
      rcases h with h | ⟨hy, h | ⟨hm, hd'⟩⟩
      · omega
      · omega
      · rw [← hy, ← hm] at hb; omega
    · simp only at hlt
      rcases h with h | ⟨hy, h | ⟨hm, hd'⟩⟩
      · omega
      · omega
      · rw [← hy, ← hm] at hb; omega

/-- `assignWindows_first` with the window's START as well -/
theorem assignWindows_first_window {q : Int} {u : ResUnit} {init0 : Date} {k0 : Nat} {cells rel : List Cell}
    (hs : cells.Pairwise (fun a b => ¬ b.ps < a.ps))
    (hinv : ∀ c ∈ cells, ∀ j < k0, (windowAt q u init0 j).2 < c.ps)
    (h : assignWindows q u (iterD q u k0 init0) cells = .ok rel) :
    ∀ p ∈ cells.zip rel, ∃ k, FirstWindow q u init0 k p.1.ps ∧ (p.2.ps, p.2.pe) = windowAt q u init0 k := by
  induction cells generalizing k0 rel with
  | nil => simp only [assignWindows] at h; cases h; simp
  | cons c rest ih =>
    simp only [assignWindows] at h
    split at h
    · cases h
    · rename_i init' hw
      split at h
      · cases h
      · split at h
        · cases h
        · rename_i nc hnc
          split at h
          · cases h
          · rename_i ncs hncs
            cases h
            obtain ⟨k1, hk1, hstop, hbelow⟩ := walkUp_spec hw
            have hnc' := Cell.mk?_ok hnc
            have hinit' : init' = iterD q u (k0 + k1) init0 := by rw [hk1, iterD_add]
            have hfirst : FirstWindow q u init0 (k0 + k1) c.ps := by
              refine ⟨?_, ?_⟩
              · intro j hj
                by_cases hj0 : j < k0
                · exact hinv c (by simp) j hj0
                · have := hbelow (j - k0) (by omega)
                  rw [iterD_add] at this
                  have e : k0 + (j - k0 + 1) = j + 1 := by omega
                  rw [e] at this
                  exact this
              · show ¬ (iterD q u (k0 + k1 + 1) init0 < c.ps)
                rw [iterD_succ', ← hinit']; exact hstop
            intro p hp
            rw [List.zip_cons_cons, List.mem_cons] at hp
            rcases hp with rfl | hp
            · refine ⟨k0 + k1, hfirst, ?_⟩
              simp only [hnc', windowAt]
              rw [iterD_succ', ← hinit']
            · have hs' := List.pairwise_cons.mp hs
              rw [hinit'] at hncs
              exact ih hs'.2 (fun c' hc' j hj =>
                Date.lt_of_lt_of_not_lt_agg (hfirst.1 j hj) (hs'.1 c' hc')) hncs p hp

/-- every re-labelled cell's window starts no later than its source period (the anchor lies before the earliest
period start and the walk stops at the FIRST window not ending before the cell's start) -/
theorem assignWindows_contains {q : Int} {u : ResUnit} {init : Date} {cells rel : List Cell}
    (hs : cells.Pairwise (fun a b => ¬ b.ps < a.ps)) (hv : ∀ c ∈ cells, c.ps.valid = true)
    (hinit : ∀ c ∈ cells, init < c.ps)
    (h : assignWindows q u init cells = .ok rel) :
    ∀ p ∈ cells.zip rel, ¬ (p.1.ps < p.2.ps) := by
  intro p hp
  obtain ⟨k, hfirst, hwin⟩ := assignWindows_first_window (k0 := 0) (init0 := init) hs
    (fun _ _ j hj => absurd hj (Nat.not_lt_zero j)) h p hp
  have hmem : p.1 ∈ cells := (List.of_mem_zip hp).1
  have hps : p.2.ps = (iterD q u k init).succ := congrArg Prod.fst hwin
  rw [hps]
  have hbefore : iterD q u k init < p.1.ps := by
    cases k with
    | zero => exact hinit p.1 hmem
    | succ k => exact hfirst.1 k (Nat.lt_succ_self k)
  exact Date.not_lt_succ_of_lt_agg (hv p.1 hmem) hbefore

/-! ### a closed instance: three quarters into half-years (used by the non-vacuity examples of `Properties/C08`) -/

def aggExQ : List Cell :=
  [ { kind := .cumulative, ps := ⟨2020, 1, 1⟩, pe := ⟨2020, 3, 31⟩, ev := ⟨2020, 12, 31⟩,
      values := [("paid_loss", .int 10)] },
    { kind := .cumulative, ps := ⟨2020, 4, 1⟩, pe := ⟨2020, 6, 30⟩, ev := ⟨2020, 12, 31⟩,
      values := [("paid_loss", .int 5)] },
    { kind := .cumulative, ps := ⟨2020, 7, 1⟩, pe := ⟨2020, 9, 30⟩, ev := ⟨2020, 12, 31⟩,
      values := [("paid_loss", .int 2)] } ]

def aggExRel : List Cell :=
  [ { kind := .cell, ps := ⟨2020, 1, 1⟩, pe := ⟨2020, 6, 30⟩, ev := ⟨2020, 12, 31⟩, values := [("paid_loss", .int 10)] },
    { kind := .cell, ps := ⟨2020, 1, 1⟩, pe := ⟨2020, 6, 30⟩, ev := ⟨2020, 12, 31⟩, values := [("paid_loss", .int 5)] },
    { kind := .cell, ps := ⟨2020, 7, 1⟩, pe := ⟨2020, 12, 31⟩, ev := ⟨2020, 12, 31⟩, values := [("paid_loss", .int 2)] } ]

def aggExOut : List Cell :=
  [ { kind := .cumulative, ps := ⟨2020, 1, 1⟩, pe := ⟨2020, 6, 30⟩, ev := ⟨2020, 12, 31⟩,
      values := [("paid_loss", .int 15)] },
    { kind := .cumulative, ps := ⟨2020, 7, 1⟩, pe := ⟨2020, 12, 31⟩, ev := ⟨2020, 12, 31⟩,
      values := [("paid_loss", .int 2)] } ]

theorem aggExQ_sorted : aggExQ.mergeSort (fun a b => coordCmp a b != .gt) = aggExQ :=
  List.mergeSort_of_pairwise (by decide +kernel)

theorem aggExOut_ofCells : Triangle.ofCells aggExOut = .ok aggExOut := by
  unfold Triangle.ofCells
  have hk : kindsConsistent aggExOut = true := by decide +kernel
  rw [hk]
  simp only [if_true]
  congr 1
  exact List.mergeSort_of_pairwise (by decide +kernel)

theorem aggExQ_rel : assignWindows 6 .month ⟨2019, 12, 31⟩ aggExQ = .ok aggExRel := by
  have hb : (match assignWindows 6 .month ⟨2019, 12, 31⟩ aggExQ with
      | .ok r => decide (r = aggExRel) | .error _ => false) = true := by decide +kernel
  cases h : assignWindows 6 .month ⟨2019, 12, 31⟩ aggExQ with
  | error e => rw [h] at hb; cases hb
  | ok r => rw [h] at hb; simp only [decide_eq_true_eq] at hb; rw [hb]

theorem aggExRel_cells :
    smMapE (aggCell Transc.id true) (groupBy (fun c : Cell => (c.ps, c.pe, c.ev)) aggExRel) = .ok aggExOut := by
  have hb : (match smMapE (aggCell Transc.id true) (groupBy (fun c : Cell => (c.ps, c.pe, c.ev)) aggExRel) with
      | .ok r => decide (r = aggExOut) | .error _ => false) = true := by decide +kernel
  cases h : smMapE (aggCell Transc.id true) (groupBy (fun c : Cell => (c.ps, c.pe, c.ev)) aggExRel) with
  | error e => rw [h] at hb; cases hb
  | ok r => rw [h] at hb; simp only [decide_eq_true_eq] at hb; rw [hb]

/-- `_aggregate_period` SUCCEEDS on the three quarters: half-year windows from the default origin -/
theorem aggExQ_aggregates :
    aggregatePeriod Transc.id aggExQ (some (6, "month")) ⟨1999, 12, 31⟩ true = .ok aggExOut := by
  unfold aggregatePeriod
  have hst : standardizeResolution 6 "month" = .ok (6, .month) := by decide +kernel
  have hanchor : anchorBefore 6 .month ⟨1999, 12, 31⟩ ⟨2020, 1, 1⟩ = some ⟨2019, 12, 31⟩ := by decide +kernel
  simp only [hst, aggExQ_sorted]
  split
  · rename_i heq; exact absurd heq (by decide)
  · rename_i c0 tl heq
    have hc0 : c0.ps = ⟨2020, 1, 1⟩ := by
      have := congrArg (fun l : List Cell => (l.headD default).ps) heq
      simpa [aggExQ] using this.symm
    rw [hc0]
    simp only [hanchor, aggExQ_rel, aggExRel_cells, aggExOut_ofCells]

/-- `_aggregate_eval` SUCCEEDS on the three quarters: the year-end evaluation date is on the yearly grid -/
theorem aggExQ_evalAgg : aggregateEval aggExQ (some (1, "year")) ⟨1999, 12, 31⟩ = .ok aggExQ := by
  unfold aggregateEval
  have hst : standardizeResolution 1 "year" = .ok (12, .month) := by decide +kernel
  have hmin : minDate (aggExQ.map (·.ev)) = some ⟨2020, 12, 31⟩ := by decide +kernel
  have hmax : maxDateAgg (aggExQ.map (·.ev)) = some ⟨2020, 12, 31⟩ := by decide +kernel
  have hgrid : validEvals 12 .month ⟨1999, 12, 31⟩ ⟨2020, 12, 31⟩ ⟨2020, 12, 31⟩ = some [⟨2020, 12, 31⟩] := by
    decide +kernel
  simp only [hst, hmin, hmax, hgrid]
  rw [ofCells_filter_sorted (by decide +kernel) (by decide +kernel)]
  congr 1

/-! ### bridge: the closed-form `Spec.C08.windowsOk` on the model's output (month units) -/

theorem monthEndOf_succ_agg (M : Int) : (monthEndOf M).succ = ⟨yearOf (M + 1), monthOf (M + 1), 1⟩ := by
  unfold monthEndOf Date.succ
  simp only [Nat.lt_irrefl, if_false]
  unfold yearOf monthOf
  split
  · rename_i h
    simp only [Date.mk.injEq, and_true]; omega
  · rename_i h
    simp only [Date.mk.injEq, and_true]; omega

/-- the closed-form `isWindow` holds for the window `[monthEnd (M₀ + n·q) + 1 day, monthEnd (M₀ + (n+1)·q)]` -/
theorem isWindow_month_agg (q : Int) (origin : Date) (n : Int) :
    Spec.C08.isWindow q .month origin (monthEndOf (monthToId origin + n * q)).succ
      (monthEndOf (monthToId origin + (n + 1) * q)) = true := by
  unfold Spec.C08.isWindow Spec.C08.onGrid
  rw [monthEndOf_succ_agg, pred_first_of_month]
  simp only [monthEndOf_isMonthEnd, monthToId_monthEndOf, monthToId_mk, Bool.true_and, Bool.and_eq_true,
    beq_iff_eq]
  refine ⟨⟨?_, ?_⟩, ?_⟩
  · have : monthToId origin + n * q - monthToId origin = n * q := by ring
    rw [this]; exact Int.mul_emod_left n q
  · have : monthToId origin + (n + 1) * q - monthToId origin = (n + 1) * q := by ring
    rw [this]; exact Int.mul_emod_left (n + 1) q
  · ring

theorem mem_zip_of_mem_right {α β} {l₁ : List α} {l₂ : List β} (hlen : l₂.length = l₁.length) {b : β}
    (hb : b ∈ l₂) : ∃ a, (a, b) ∈ l₁.zip l₂ := by
  induction l₁ generalizing l₂ with
  | nil => cases l₂ <;> simp_all
  | cons x l₁ ih =>
    cases l₂ with
    | nil => simp at hb
    | cons y l₂ =>
      rcases List.mem_cons.mp hb with rfl | hb
      · exact ⟨x, by simp⟩
      · obtain ⟨a, ha⟩ := ih (by simpa using hlen) hb
        exact ⟨a, by simp [ha]⟩

/-- every output cell of a successful `_aggregate_period` is a CumulativeCell without previous evaluation date
whose period is the period of some re-labelled cell -/
theorem aggregatePeriod_out_cell {tr : Transc} {prem : Bool} {rel newCells : List Cell}
    (hnew : smMapE (aggCell tr prem) (groupsOf key3 rel) = .ok newCells) {o : Cell} (ho : o ∈ newCells) :
    o.kind = .cumulative ∧ o.prev = none ∧ ∃ rc ∈ rel, rc.ps = o.ps ∧ rc.pe = o.pe ∧ rc.ev = o.ev ∧ rc.md = o.md := by
  obtain ⟨g, hg, hgo⟩ := smMapE_mem hnew ho
  obtain ⟨hkey, hg2⟩ := aggCell_key hg hgo
  obtain ⟨c0, rest, vals, hgc, hvals, ho'⟩ := aggCell_ok hgo
  have hc0 : c0 ∈ rel.filter (fun c => key3 c == key3 o) := by rw [← hg2, hgc]; simp
  refine ⟨by rw [ho'], by rw [ho'], c0, (List.mem_filter.mp hc0).1, ?_⟩
  rw [ho']; exact ⟨rfl, rfl, rfl, rfl⟩

/-- **bridge.** Month units, valid month-end origin: every output period of the model's `_aggregate_period` is one
of the closed-form windows of `Spec.C08` counted from the REQUESTED origin -/
theorem windowsOk_month_agg {tr : Transc} {t out : List Cell} {q q' : Int} {s : String} {origin : Date}
    {prem : Bool} (h : aggregatePeriod tr t (some (q, s)) origin prem = .ok out)
    (hst : standardizeResolution q s = .ok (q', .month)) (hv : origin.valid = true)
    (he : origin.isMonthEnd = true) : Spec.C08.windowsOk q' .month origin out = true := by
  obtain ⟨q2, u, init, rel, newCells, c0, hst', hc0, hmin, hanchor, hrel, hnew, hperm⟩ :=
    aggregatePeriod_decompose_anchor h
  rw [hst] at hst'
  obtain ⟨rfl, rfl⟩ : q' = q2 ∧ ResUnit.month = u := by
    injection hst' with h1; injection h1 with h2 h3; exact ⟨h2, h3⟩
  obtain ⟨j, hj, _, _⟩ := anchorBefore_month_agg hv he hanchor
  have hvi : init.valid = true := by rw [hj]; exact monthEndOf_valid _
  have hei : init.isMonthEnd = true := by rw [hj]; exact monthEndOf_isMonthEnd _
  have hid : monthToId init = monthToId origin + j * q' := by rw [hj, monthToId_monthEndOf]
  obtain ⟨hlen, hall⟩ := assignWindows_spec hrel
  unfold Spec.C08.windowsOk
  rw [List.all_eq_true]
  intro o ho
  obtain ⟨hkind, hprev, rc, hrc, hps, hpe, _, _⟩ := aggregatePeriod_out_cell hnew (hperm.mem_iff.mp ho)
  obtain ⟨c, hc⟩ := mem_zip_of_mem_right hlen hrc
  obtain ⟨k, hk, _⟩ := hall (c, rc) hc
  obtain ⟨h2, h1⟩ := window_month_shape_agg (q := q') hvi hei k
  have e1 : o.ps = (monthEndOf (monthToId origin + (j + k) * q')).succ := by
    rw [← hps, show rc.ps = (windowAt q' .month init k).1 from congrArg Prod.fst hk, h1, hid]; congr 2; ring
  have e2 : o.pe = monthEndOf (monthToId origin + (j + k + 1) * q') := by
    rw [← hpe, show rc.pe = (windowAt q' .month init k).2 from congrArg Prod.snd hk, h2, hid]; congr 1; ring
  rw [e1, e2, isWindow_month_agg q' origin (j + k), hkind, hprev]
  rfl

/-! ### from one slice to the whole triangle: `sum(agg_slices)` loses nothing -/

theorem smFoldE_ofCells_perm : ∀ {l : List (List Cell)} {acc out : List Cell},
    smFoldE (fun acc s => Triangle.ofCells (acc ++ s)) acc l = .ok out → out.Perm (acc ++ l.flatten) := by
  intro l
  induction l with
  | nil => intro acc out h; simp only [smFoldE] at h; cases h; simp
  | cons s l ih =>
    intro acc out h
    simp only [smFoldE] at h
    split at h
    · cases h
    · rename_i b hb
      have h1 := ih h
      have h2 : b.Perm (acc ++ s) := ofCells_ok_perm hb
      refine h1.trans ?_
      rw [List.flatten_cons, ← List.append_assoc]
      exact List.Perm.append_right _ h2

theorem sumTriangles_perm {aggs : List (List Cell)} {out : List Cell}
    (h : sumTriangles aggs = .ok out) : out.Perm aggs.flatten := by
  cases aggs with
  | nil => simp only [sumTriangles] at h; cases h; simp
  | cons t rest =>
    simp only [sumTriangles] at h
    simpa using smFoldE_ofCells_perm h

/-- `aggregate` on a cumulative triangle returns, up to the final re-sorting, exactly the cells of the per-slice
results: nothing is dropped, merged or duplicated across slices -/
theorem aggregateCum_perm {tr : Transc} {t out : List Cell} {a : AggArgs}
    (h : aggregateCum tr t a = .ok out) :
    ∃ aggs, smMapE (fun p : Metadata × List Cell => aggregateSlice tr a p.2) (Triangle.slices t) = .ok aggs ∧
      out.Perm aggs.flatten := by
  unfold aggregateCum at h
  split at h
  · cases h
  · rename_i aggs haggs
    exact ⟨aggs, haggs, sumTriangles_perm h⟩

theorem aggregateSlice_period {tr : Transc} {a : AggArgs} {sl r : List Cell}
    (h : aggregateSlice tr a sl = .ok r) :
    ∃ e, aggregateEval sl a.evalRes a.evalOrigin = .ok e ∧
      aggregatePeriod tr e a.periodRes a.periodOrigin a.prem = .ok r := by
  unfold aggregateSlice at h
  split at h
  · cases h
  · rename_i e he; exact ⟨e, he, h⟩

/-- whole triangle: every output period of `aggregate` (cumulative input, month units, valid month-end origin) is
a closed-form window of the requested origin -/
theorem windowsOk_month_cum {tr : Transc} {t out : List Cell} {a : AggArgs} {q q' : Int} {s : String}
    (h : aggregateCum tr t a = .ok out) (hp : a.periodRes = some (q, s))
    (hst : standardizeResolution q s = .ok (q', .month)) (hv : a.periodOrigin.valid = true)
    (he : a.periodOrigin.isMonthEnd = true) :
    Spec.C08.windowsOk q' .month a.periodOrigin out = true := by
  obtain ⟨aggs, haggs, hperm⟩ := aggregateCum_perm h
  unfold Spec.C08.windowsOk
  rw [List.all_eq_true]
  intro o ho
  obtain ⟨r, hr, hor⟩ := List.mem_flatten.mp (hperm.mem_iff.mp ho)
  obtain ⟨p, _, hp'⟩ := smMapE_mem haggs hr
  obtain ⟨e, _, hper⟩ := aggregateSlice_period hp'
  rw [hp] at hper
  have := windowsOk_month_agg hper hst hv he
  unfold Spec.C08.windowsOk at this
  exact List.all_eq_true.mp this o hor

/-! ### helpers for the whole-triangle conservation theorem -/

theorem sum_flatten_agg {α} (l : List (List α)) (g : α → Rat) :
    (l.flatten.map g).sum = (l.map fun r => (r.map g).sum).sum := by
  induction l with
  | nil => rfl
  | cons r l ih =>
    rw [List.flatten_cons, List.map_append, List.sum_append, ih, List.map_cons, List.sum_cons]

theorem metasOf_fold_nodup_agg (l : List Cell) (init : List Metadata) (h : init.Nodup) :
    (l.foldl (fun acc c => if acc.contains c.md then acc else acc ++ [c.md]) init).Nodup := by
  induction l generalizing init with
  | nil => exact h
  | cons a rest ih =>
    simp only [List.foldl_cons]
    apply ih
    split
    · exact h
    · rename_i hc
      rw [List.nodup_append]
      refine ⟨h, by simp, ?_⟩
      intro x hx y hy
      simp at hy; subst hy
      intro e; subst e
      apply hc; simpa using hx

theorem metasOf_nodup_agg (t : List Cell) : (metasOf t).Nodup := metasOf_fold_nodup_agg t [] (by simp)

theorem metasOf_fold_mem_agg (l : List Cell) (init : List Metadata) :
    (∀ m ∈ init, m ∈ l.foldl (fun acc c => if acc.contains c.md then acc else acc ++ [c.md]) init) ∧
    (∀ c ∈ l, c.md ∈ l.foldl (fun acc c => if acc.contains c.md then acc else acc ++ [c.md]) init) := by
  induction l generalizing init with
  | nil => exact ⟨fun m hm => hm, by simp⟩
  | cons a rest ih =>
    simp only [List.foldl_cons]
    obtain ⟨ih1, ih2⟩ := ih (if init.contains a.md then init else init ++ [a.md])
    constructor
    · intro m hm
      apply ih1
      split
      · exact hm
      · exact List.mem_append_left _ hm
    · intro c hc
      rcases List.mem_cons.mp hc with rfl | hc
      · apply ih1
        split
        · rename_i h; simpa using h
        · simp
      · exact ih2 c hc

theorem metasOf_mem_agg {t : List Cell} {c : Cell} (hc : c ∈ t) : c.md ∈ metasOf t :=
  (metasOf_fold_mem_agg t []).2 c hc

/-- every output cell of a successful `_aggregate_period` carries the metadata of a source cell -/
theorem aggregatePeriod_out_md {tr : Transc} {t out : List Cell} {q : Int} {s : String} {origin : Date}
    {prem : Bool} (h : aggregatePeriod tr t (some (q, s)) origin prem = .ok out) {o : Cell} (ho : o ∈ out) :
    ∃ c ∈ t, o.md = c.md := by
  obtain ⟨q', u, init, rel, newCells, _, hrel, hnew, hperm⟩ := aggregatePeriod_decompose h
  obtain ⟨hlen, hall⟩ := assignWindows_spec hrel
  obtain ⟨_, _, rc, hrc, _, _, _, hmd⟩ := aggregatePeriod_out_cell hnew (hperm.mem_iff.mp ho)
  obtain ⟨c, hc⟩ := mem_zip_of_mem_right hlen hrc
  obtain ⟨_, _, _, _, _, _, hmd', _⟩ := hall (c, rc) hc
  have hsorted : (t.mergeSort fun a b => coordCmp a b != .gt).Perm t := List.mergeSort_perm _ _
  exact ⟨c, hsorted.mem_iff.mp (List.of_mem_zip hc).1, by rw [← hmd]; exact hmd'⟩

/-! ### bridge: `Spec.C08.evalOk` on the model's `_aggregate_eval` (month units) -/

theorem foldl_minDate_le (l : List Date) (init : Date) :
    ¬ (init < l.foldl (fun m x => if x < m then x else m) init) ∧
    ∀ x ∈ l, ¬ (x < l.foldl (fun m x => if x < m then x else m) init) := by
  induction l generalizing init with
  | nil => exact ⟨fun h => Date.lt_asymm_agg h h, by simp⟩
  | cons a l ih =>
    simp only [List.foldl_cons, List.mem_cons, forall_eq_or_imp]
    obtain ⟨h1, h2⟩ := ih (if a < init then a else init)
    by_cases hc : a < init
    · simp only [hc, if_true] at h1 h2 ⊢
      exact ⟨fun hlt => h1 (Date.lt_trans_agg hc hlt), h1, h2⟩
    · simp only [hc, if_false] at h1 h2 ⊢
      exact ⟨h1, fun hlt => hc (Date.lt_of_lt_of_not_lt_agg hlt h1), h2⟩

theorem foldl_maxDate_ge (l : List Date) (init : Date) :
    ¬ (l.foldl (fun m x => if m < x then x else m) init < init) ∧
    ∀ x ∈ l, ¬ (l.foldl (fun m x => if m < x then x else m) init < x) := by
  induction l generalizing init with
  | nil => exact ⟨fun h => Date.lt_asymm_agg h h, by simp⟩
  | cons a l ih =>
    simp only [List.foldl_cons, List.mem_cons, forall_eq_or_imp]
    obtain ⟨h1, h2⟩ := ih (if init < a then a else init)
    by_cases hc : init < a
    · simp only [hc, if_true] at h1 h2 ⊢
      exact ⟨fun hlt => h1 (Date.lt_trans_agg hlt hc), h1, h2⟩
    · simp only [hc, if_false] at h1 h2 ⊢
      exact ⟨h1, fun hlt => h1 (Date.lt_of_lt_of_not_lt_agg hlt hc), h2⟩

theorem minDate_le {l : List Date} {m : Date} (h : minDate l = some m) : ∀ d ∈ l, ¬ (d < m) := by
  cases l with
  | nil => simp [minDate] at h
  | cons a l =>
    simp only [minDate, Option.some.injEq] at h
    subst h
    intro d hd
    rcases List.mem_cons.mp hd with rfl | hd
    · exact (foldl_minDate_le l d).1
    · exact (foldl_minDate_le l a).2 d hd

theorem maxDateAgg_ge {l : List Date} {m : Date} (h : maxDateAgg l = some m) : ∀ d ∈ l, ¬ (m < d) := by
  cases l with
  | nil => simp [maxDateAgg] at h
  | cons a l =>
    simp only [maxDateAgg, Option.some.injEq] at h
    subst h
    intro d hd
    rcases List.mem_cons.mp hd with rfl | hd
    · exact (foldl_maxDate_ge l d).1
    · exact (foldl_maxDate_ge l a).2 d hd

/-- the closed-form grid test of `Spec.C08` is "last day of month `M₀ + k·q` for an integer `k`" -/
theorem onGrid_month_iff {q : Int} {origin d : Date} (hd : d.valid = true) :
    Spec.C08.onGrid q .month origin d = true ↔ ∃ k : Int, d = monthEndOf (monthToId origin + k * q) := by
  unfold Spec.C08.onGrid
  simp only [Bool.and_eq_true, beq_iff_eq]
  constructor
  · rintro ⟨hme, hmod⟩
    refine ⟨(monthToId d - monthToId origin) / q, ?_⟩
    have := Int.emod_add_mul_ediv (monthToId d - monthToId origin) q
    rw [hmod] at this
    have e : monthToId origin + (monthToId d - monthToId origin) / q * q = monthToId d := by
      rw [Int.mul_comm]; omega
    rw [e, monthEndOf_monthToId hd hme]
  · rintro ⟨k, rfl⟩
    refine ⟨monthEndOf_isMonthEnd _, ?_⟩
    rw [monthToId_monthEndOf]
    have : monthToId origin + k * q - monthToId origin = k * q := by omega
    rw [this]; exact Int.mul_emod_left k q

/-! ### bridge: `Spec.C08.expectStraddle` (month units) -/

theorem monthToId_mono_agg {a b : Date} (ha : a.m ≤ 12) (h : ¬ b < a) : monthToId a ≤ monthToId b := by
  rw [Date.lt_iff_agg] at h
  unfold monthToId
  omega

/-- the closed-form window end of `Spec.C08` for a date inside window `n` of the origin's grid -/
theorem windowEnd_month_of_mem {q : Int} {origin d : Date} {n : Int} (hq : 1 ≤ q) (hd : d.valid = true)
    (h1 : ¬ (d < (monthEndOf (monthToId origin + n * q)).succ))
    (h2 : ¬ (monthEndOf (monthToId origin + (n + 1) * q) < d)) :
    Spec.C08.windowEnd q .month origin d = monthEndOf (monthToId origin + (n + 1) * q) := by
  rw [monthEndOf_succ_agg] at h1
  have hm := monthOf_range (monthToId origin + n * q + 1)
  have g1 := monthToId_mono_agg (a := ⟨yearOf (monthToId origin + n * q + 1), monthOf (monthToId origin + n * q + 1), 1⟩)
    (b := d) hm.2 h1
  rw [monthToId_mk] at g1
  rw [valid_iff] at hd
  have g2 := monthToId_mono_agg (a := d) (b := monthEndOf (monthToId origin + (n + 1) * q)) hd.2.1 h2
  rw [monthToId_monthEndOf] at g2
  unfold Spec.C08.windowEnd
  simp only
  rw [idToMonth_false]
  have hk : (monthToId d - monthToId origin - 1) / q = n := by
    have hq0 : 0 < q := by omega
    have a1 : n ≤ (monthToId d - monthToId origin - 1) / q := (Int.le_ediv_iff_mul_le hq0).mpr (by linarith)
    have a2 : (monthToId d - monthToId origin - 1) / q < n + 1 := (Int.ediv_lt_iff_lt_mul hq0).mpr (by linarith)
    omega
  rw [hk]

/-- window `k` from a month-end anchor `init = monthEnd (M₀ + j·q)` in closed form -/
theorem windowAt_month_origin {q : Int} {origin init : Date} {j : Int}
    (hj : init = monthEndOf (monthToId origin + j * q)) (k : Nat) :
    windowAt q .month init k = ((monthEndOf (monthToId origin + (j + k) * q)).succ,
      monthEndOf (monthToId origin + (j + k + 1) * q)) := by
  have hvi : init.valid = true := by rw [hj]; exact monthEndOf_valid _
  have hei : init.isMonthEnd = true := by rw [hj]; exact monthEndOf_isMonthEnd _
  have hid : monthToId init = monthToId origin + j * q := by rw [hj, monthToId_monthEndOf]
  obtain ⟨h2, h1⟩ := window_month_shape_agg (q := q) hvi hei k
  have e1 : monthToId init + (k : Int) * q = monthToId origin + (j + k) * q := by rw [hid]; ring
  have e2 : monthToId init + ((k : Int) + 1) * q = monthToId origin + (j + k + 1) * q := by rw [hid]; ring
  rw [Prod.ext_iff]; simp only
  rw [h1, h2, e1, e2]
  exact ⟨rfl, rfl⟩

/-- success ⇒ the closed-form straddle test of `Spec.C08` is false -/
theorem expectStraddle_false_of_ok {tr : Transc} {t out : List Cell} {q q' : Int} {s : String}
    {origin : Date} {prem : Bool} (h : aggregatePeriod tr t (some (q, s)) origin prem = .ok out)
    (hst : standardizeResolution q s = .ok (q', .month)) (hq : 1 ≤ q') (hv : origin.valid = true)
    (he : origin.isMonthEnd = true) (hcells : ∀ c ∈ t, c.ps.valid = true) :
    Spec.C08.expectStraddle q' .month origin t = false := by
  obtain ⟨q2, u, init, rel, newCells, c0, hst', hc0, hmin, hanchor, hrel, _, _⟩ :=
    aggregatePeriod_decompose_anchor h
  rw [hst] at hst'
  obtain ⟨rfl, rfl⟩ : q' = q2 ∧ ResUnit.month = u := by
    injection hst' with h1; injection h1 with h2 h3; exact ⟨h2, h3⟩
  obtain ⟨j, hj, hlt, _⟩ := anchorBefore_month_agg hv he hanchor
  have hperm : (t.mergeSort fun a b => coordCmp a b != .gt).Perm t := List.mergeSort_perm _ _
  obtain ⟨hlen, hall⟩ := assignWindows_spec hrel
  have hcont := assignWindows_contains (sorted_by_ps t)
    (fun c hc' => hcells c (hperm.mem_iff.mp hc'))
    (fun c hc' => Date.lt_of_lt_of_not_lt_agg hlt (hmin c (hperm.mem_iff.mp hc'))) hrel
  unfold Spec.C08.expectStraddle
  rw [Bool.eq_false_iff]
  intro hany
  obtain ⟨c, hc, hstr⟩ := List.any_eq_true.mp hany
  obtain ⟨rc, hrc⟩ := mem_zip_of_mem_left hlen (hperm.mem_iff.mpr hc)
  obtain ⟨k, hk, _, _, _, _, _, hnps, hnpe⟩ := hall (c, rc) hrc
  have hcps := hcont (c, rc) hrc
  rw [windowAt_month_origin hj k] at hk
  have e1 : rc.ps = _ := congrArg Prod.fst hk
  have e2 : rc.pe = _ := congrArg Prod.snd hk
  simp only at hcps hnps hnpe
  rw [e1] at hcps
  rw [e2] at hnps hnpe
  have hw := windowEnd_month_of_mem (origin := origin) (n := j + k) hq (hcells c hc) hcps hnps
  rw [hw] at hstr
  exact hnpe (by simpa using hstr)

/-- a `TriangleError` of the window walk ⇒ the closed-form straddle test of `Spec.C08` is true -/
theorem expectStraddle_true_of_error {t : List Cell} {q' : Int} {origin init : Date} {c0 : Cell}
    (hq : 1 ≤ q') (hv : origin.valid = true) (he : origin.isMonthEnd = true)
    (hcells : ∀ c ∈ t, c.ps.valid = true) (hmin : ∀ c ∈ t, ¬ c.ps < c0.ps)
    (hanchor : anchorBefore q' .month origin c0.ps = some init)
    (herr : assignWindows q' .month init (t.mergeSort fun a b => coordCmp a b != .gt) = .error .triangleError) :
    Spec.C08.expectStraddle q' .month origin t = true := by
  obtain ⟨j, hj, hlt, _⟩ := anchorBefore_month_agg hv he hanchor
  have hperm : (t.mergeSort fun a b => coordCmp a b != .gt).Perm t := List.mergeSort_perm _ _
  obtain ⟨c, hc, k, hfirst, hcross⟩ := assignWindows_triangleError_first (k0 := 0) (init0 := init)
    (sorted_by_ps t) (fun _ _ j hj => absurd hj (Nat.not_lt_zero j)) herr
  have hct : c ∈ t := hperm.mem_iff.mp hc
  have hbefore : iterD q' .month k init < c.ps := by
    cases k with
    | zero => exact Date.lt_of_lt_of_not_lt_agg hlt (hmin c hct)
    | succ k => exact hfirst.1 k (Nat.lt_succ_self k)
  have hstart : ¬ (c.ps < (windowAt q' .month init k).1) :=
    Date.not_lt_succ_of_lt_agg (hcells c hct) hbefore
  have hend := hfirst.2
  rw [windowAt_month_origin hj k] at hstart hend hcross
  simp only at hstart hend hcross
  have hw := windowEnd_month_of_mem (origin := origin) (n := j + k) hq (hcells c hct) hstart hend
  unfold Spec.C08.expectStraddle
  exact List.any_eq_true.mpr ⟨c, hct, by rw [hw]; simpa using hcross⟩

/-! ### `honly` discharged; straddle ⇔ `TriangleError` in closed form (month units) -/

/-- in month units from a month end the fuel of the model never runs out -/
theorem walkUp_ne_none_month {q : Int} {bound : Date} (hq : 1 ≤ q) (hvb : bound.valid = true) :
    ∀ (n : Nat) (cur : Date), cur.valid = true → cur.isMonthEnd = true →
      bound.ordinal - cur.ordinal < (n : Int) → 1 ≤ n → walkUp q .month bound n cur ≠ none := by
  intro n
  induction n with
  | zero => intro cur _ _ _ h1; omega
  | succ n ih =>
    intro cur hv he hn _
    simp only [walkUp]
    rw [resolutionDelta_month_agg, addMonths_monthEnd_all cur q he]
    split
    · rename_i hlt
      have hlt' : cur < monthEndOf (monthToId cur + q) := by
        have := monthEndOf_lt (M := monthToId cur) (N := monthToId cur + q) (by omega)
        rwa [monthEndOf_monthToId hv he] at this
      have h1 := ordinal_lt_of_lt_agg hv (monthEndOf_valid _) hlt'
      have h2 := ordinal_lt_of_lt_agg (monthEndOf_valid _) hvb hlt
      exact ih _ (monthEndOf_valid _) (monthEndOf_isMonthEnd _) (by push_cast at hn; omega) (by omega)
    · simp

/-- **`honly` discharged (month units).** From a valid month-end anchor lying before every period start, with a
positive quantity and source cells that satisfy the constructor's date rules and have valid period starts, the
window walk can only fail with `TriangleError` -/
theorem assignWindows_error_month {q : Int} (hq : 1 ≤ q) :
    ∀ (cells : List Cell) (init : Date), init.valid = true → init.isMonthEnd = true →
      cells.Pairwise (fun a b => ¬ b.ps < a.ps) →
      (∀ c ∈ cells, c.datesOk = true ∧ c.ps.valid = true ∧ init < c.ps) →
      ∀ e, assignWindows q .month init cells = .error e → e = .triangleError := by
  intro cells
  induction cells with
  | nil => intro init _ _ _ _ e h; simp [assignWindows] at h
  | cons c rest ih =>
    intro init hv he hs hcells e h
    obtain ⟨hdates, hvps, hinit⟩ := hcells c (by simp)
    simp only [assignWindows] at h
    split at h
    · rename_i hnone
      exfalso
      refine walkUp_ne_none_month hq hvps (aggFuel init c.ps) init hv he ?_ ?_ hnone
      · unfold aggFuel
        have := Int.le_natAbs (a := init.ordinal - c.ps.ordinal)
        have h2 : ((init.ordinal - c.ps.ordinal).natAbs : Int) = |init.ordinal - c.ps.ordinal| := Int.natCast_natAbs _
        have h3 := neg_abs_le (init.ordinal - c.ps.ordinal)
        push_cast
        omega
      · unfold aggFuel; omega
    · rename_i init' hw
      obtain ⟨k, hk, hstop, hbelow⟩ := walkUp_spec hw
      have hform := iterD_month_monthEnd q k init hv he
      have hv' : init'.valid = true := by rw [hk, hform]; exact monthEndOf_valid _
      have he' : init'.isMonthEnd = true := by rw [hk, hform]; exact monthEndOf_isMonthEnd _
      have hbefore : init' < c.ps := by
        cases k with
        | zero => rw [hk]; exact hinit
        | succ k => rw [hk]; exact hbelow k (Nat.lt_succ_self k)
      split at h
      · cases h; rfl
      · rename_i hno
        split at h
        · rename_i e' hmk
          exfalso
          unfold Cell.mk? at hmk
          split at hmk
          · cases hmk
          · rename_i hbad
            apply hbad
            have hnext : resolutionDelta init' q .month = monthEndOf (monthToId init' + q) := by
              rw [resolutionDelta_month_agg, addMonths_monthEnd_all init' q he']
            have hlt' : init' < monthEndOf (monthToId init' + q) := by
              have := monthEndOf_lt (M := monthToId init') (N := monthToId init' + q) (by omega)
              rwa [monthEndOf_monthToId hv' he'] at this
            simp only [Cell.datesOk, Bool.and_eq_true, Bool.not_eq_true', decide_eq_false_iff_not,
              bne_iff_ne, ne_eq] at hdates ⊢
            obtain ⟨⟨⟨_, hevps⟩, hmax⟩, _⟩ := hdates
            refine ⟨⟨⟨?_, ?_⟩, hmax⟩, trivial⟩
            · rw [hnext]; exact Date.not_lt_succ_of_lt_agg (monthEndOf_valid _) hlt'
            · intro hlt2
              have h1 := Date.not_lt_succ_of_lt_agg hvps hbefore
              exact hevps (Date.lt_of_lt_of_not_lt_agg hlt2 h1)
        · split at h
          · rename_i e' he''
            cases h
            have hs' := List.pairwise_cons.mp hs
            exact ih init' hv' he' hs'.2 (fun c' hc' =>
              ⟨(hcells c' (by simp [hc'])).1, (hcells c' (by simp [hc'])).2.1,
               Date.lt_of_lt_of_not_lt_agg hbefore (hs'.1 c' hc')⟩) e he''
          · cases h

/-- a successful window walk ⇒ the closed-form straddle test is false -/
theorem expectStraddle_false_of_walk {t rel : List Cell} {q' : Int} {origin init : Date} {c0 : Cell}
    (hq : 1 ≤ q') (hv : origin.valid = true) (he : origin.isMonthEnd = true)
    (hcells : ∀ c ∈ t, c.ps.valid = true) (hmin : ∀ c ∈ t, ¬ c.ps < c0.ps)
    (hanchor : anchorBefore q' .month origin c0.ps = some init)
    (hrel : assignWindows q' .month init (t.mergeSort fun a b => coordCmp a b != .gt) = .ok rel) :
    Spec.C08.expectStraddle q' .month origin t = false := by
  obtain ⟨j, hj, hlt, _⟩ := anchorBefore_month_agg hv he hanchor
  have hperm : (t.mergeSort fun a b => coordCmp a b != .gt).Perm t := List.mergeSort_perm _ _
  obtain ⟨hlen, hall⟩ := assignWindows_spec hrel
  have hcont := assignWindows_contains (sorted_by_ps t)
    (fun c hc' => hcells c (hperm.mem_iff.mp hc'))
    (fun c hc' => Date.lt_of_lt_of_not_lt_agg hlt (hmin c (hperm.mem_iff.mp hc'))) hrel
  unfold Spec.C08.expectStraddle
  rw [Bool.eq_false_iff]
  intro hany
  obtain ⟨c, hc, hstr⟩ := List.any_eq_true.mp hany
  obtain ⟨rc, hrc⟩ := mem_zip_of_mem_left hlen (hperm.mem_iff.mpr hc)
  obtain ⟨k, hk, _, _, _, _, _, hnps, hnpe⟩ := hall (c, rc) hrc
  have hcps := hcont (c, rc) hrc
  rw [windowAt_month_origin hj k] at hk
  have e1 : rc.ps = _ := congrArg Prod.fst hk
  have e2 : rc.pe = _ := congrArg Prod.snd hk
  simp only at hcps hnps hnpe
  rw [e1] at hcps
  rw [e2] at hnps hnpe
  have hw := windowEnd_month_of_mem (origin := origin) (n := j + k) hq (hcells c hc) hcps hnps
  rw [hw] at hstr
  exact hnpe (by simpa using hstr)

/-- **the window walk raises `TriangleError` exactly when the closed-form straddle test is true** (month units,
valid month-end origin, positive quantity, constructor-valid source cells with valid period starts) — no `honly` -/
theorem assignWindows_straddle_iff_month {t : List Cell} {q' : Int} {origin init : Date} {c0 : Cell}
    (hq : 1 ≤ q') (hv : origin.valid = true) (he : origin.isMonthEnd = true)
    (hcells : ∀ c ∈ t, c.datesOk = true ∧ c.ps.valid = true) (hmin : ∀ c ∈ t, ¬ c.ps < c0.ps)
    (hanchor : anchorBefore q' .month origin c0.ps = some init) :
    assignWindows q' .month init (t.mergeSort fun a b => coordCmp a b != .gt) = .error .triangleError ↔
      Spec.C08.expectStraddle q' .month origin t = true := by
  have hps : ∀ c ∈ t, c.ps.valid = true := fun c hc => (hcells c hc).2
  constructor
  · exact expectStraddle_true_of_error hq hv he hps hmin hanchor
  · intro htrue
    obtain ⟨j, hj, hlt, _⟩ := anchorBefore_month_agg hv he hanchor
    have hperm : (t.mergeSort fun a b => coordCmp a b != .gt).Perm t := List.mergeSort_perm _ _
    cases hres : assignWindows q' .month init (t.mergeSort fun a b => coordCmp a b != .gt) with
    | ok rel =>
      have := expectStraddle_false_of_walk hq hv he hps hmin hanchor hres
      rw [this] at htrue; cases htrue
    | error e =>
      have := assignWindows_error_month hq _ init (by rw [hj]; exact monthEndOf_valid _)
        (by rw [hj]; exact monthEndOf_isMonthEnd _) (sorted_by_ps t)
        (fun c hc => ⟨(hcells c (hperm.mem_iff.mp hc)).1, (hcells c (hperm.mem_iff.mp hc)).2,
          Date.lt_of_lt_of_not_lt_agg hlt (hmin c (hperm.mem_iff.mp hc))⟩) e hres
      rw [this]

/-! ### the anchor walk ends (month units) -/

theorem walkDown_ne_none_month {q : Int} {bound : Date} (hq : 1 ≤ q) (hvb : bound.valid = true) :
    ∀ (n : Nat) (cur : Date), cur.valid = true → cur.isMonthEnd = true →
      cur.ordinal - bound.ordinal + 1 < (n : Int) → 1 ≤ n → walkDown q .month bound n cur ≠ none := by
  intro n
  induction n with
  | zero => intro cur _ _ _ h1; omega
  | succ n ih =>
    intro cur hv he hn _
    simp only [walkDown]
    split
    · rename_i hle
      rw [resolutionDelta_month_neg_agg, addMonths_monthEnd_all cur (-q) he]
      have hlt' : monthEndOf (monthToId cur + -q) < cur := by
        have := monthEndOf_lt (M := monthToId cur + -q) (N := monthToId cur) (by omega)
        rwa [monthEndOf_monthToId hv he] at this
      have h1 := ordinal_lt_of_lt_agg (monthEndOf_valid _) hv hlt'
      -- bound ≤ cur ⇒ bound.ordinal ≤ cur.ordinal
      have h2 : bound.ordinal ≤ cur.ordinal := by
        by_contra hc
        have := lt_of_ordinal_lt_agg hv hvb (by omega)
        rw [Date.le_iff_not_lt_agg] at hle
        exact hle this
      by_cases hn1 : n = 0
      · subst hn1; push_cast at hn; omega
      · exact ih _ (monthEndOf_valid _) (monthEndOf_isMonthEnd _) (by push_cast at hn; omega) (by omega)
    · simp

/-- the anchor walk ends: in month units from a valid month-end origin (positive quantity, valid bound) the model's
fuel is never exhausted -/
theorem anchorBefore_ne_none_month {q : Int} {origin bound : Date} (hq : 1 ≤ q) (hv : origin.valid = true)
    (he : origin.isMonthEnd = true) (hvb : bound.valid = true) :
    anchorBefore q .month origin bound ≠ none := by
  unfold anchorBefore
  have habs : ∀ a b : Int, a - b + 1 < ((a - b).natAbs + 2 : Nat) ∧ b - a < ((a - b).natAbs + 2 : Nat) := by
    intro a b
    have h2 : ((a - b).natAbs : Int) = |a - b| := Int.natCast_natAbs _
    have h3 := neg_abs_le (a - b)
    have h4 := le_abs_self (a - b)
    push_cast
    constructor <;> omega
  split
  · rename_i hnone
    exact absurd hnone (walkUp_ne_none_month hq hvb (aggFuel origin bound) origin hv he
      (by unfold aggFuel; exact (habs origin.ordinal bound.ordinal).2) (by unfold aggFuel; omega))
  · rename_i a1 hup
    obtain ⟨k1, hk1, _, _⟩ := walkUp_spec hup
    rw [iterD_month_monthEnd q k1 origin hv he] at hk1
    exact walkDown_ne_none_month hq hvb (aggFuel a1 bound) a1 (by rw [hk1]; exact monthEndOf_valid _)
      (by rw [hk1]; exact monthEndOf_isMonthEnd _)
      (by unfold aggFuel; exact (habs a1.ordinal bound.ordinal).1) (by unfold aggFuel; omega)

end Bermuda
