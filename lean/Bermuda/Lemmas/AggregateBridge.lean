/-
C08: the closed-form Bool predicates of `Spec/C08.lean` (`cover`, `cellSums`, `keysOk`, `conserves`) on the
model's output — month units, valid month-end origin. Part I: facts about one slice (`SliceFacts`); Part II:
the whole triangle.
-/
import Bermuda.Lemmas.AggregateAnchor
import Bermuda.Lemmas.SummarizeSpec
namespace Bermuda
open Generated.Summarize Bermuda.Properties.C09

/-- source cell `c` lies INSIDE the period of output cell `o` and has its evaluation date -/
def insideB (o c : Cell) : Bool := !(c.ps < o.ps) && !(o.pe < c.pe) && c.ev == o.ev

theorem inWindow_eq (o c : Cell) : Spec.C08.inWindow o c = ((c.md == o.md) && insideB o c) := by
  rw [Bool.eq_iff_iff]
  simp only [Spec.C08.inWindow, insideB, Bool.and_eq_true, beq_iff_eq, decide_eq_true_eq,
    Bool.not_eq_true', decide_eq_false_iff_not, Date.le_iff_not_lt_agg]
  constructor
  · rintro ⟨⟨⟨h1, h2⟩, h3⟩, h4⟩; exact ⟨h1.symm, ⟨h3, h4⟩, h2.symm⟩
  · rintro ⟨h1, ⟨h3, h4⟩, h2⟩; exact ⟨⟨⟨h1.symm, h2.symm⟩, h3⟩, h4⟩

/-- what a successful `_aggregate_period` did to one slice `S`, in terms of "inside the window" only -/
structure SliceFacts (S r : List Cell) (prem : Bool) : Prop where
  nodup : (r.map key3).Nodup
  outc : ∀ o ∈ r, o.kind = .cumulative ∧ o.prev = none ∧ ∃ c ∈ S, insideB o c = true ∧ o.md = c.md
  covered : ∀ c ∈ S, ∃ o ∈ r, insideB o c = true ∧ ∀ o' ∈ r, insideB o' c = true → key3 o' = key3 o
  sums : ∀ o ∈ r, ∀ (f : String) (i : Nat), ruleOf [] (lowerKey f) = some ⟨.sum, [f]⟩ →
    (prem = true ∨ f ∉ nonLossMetrics) →
    (∀ c ∈ S, insideB o c = true → (c.getV f).inRange i = true) →
    (o.getV f).inRange i = true ∧
      (o.getV f).at i = ((S.filter (insideB o)).map fun c => (c.getV f).at i).sum
  keys : ∀ o ∈ r, o.values.keys.Nodup ∧
    ∀ k, k ∈ o.values.keys ↔ ∃ c ∈ S, insideB o c = true ∧ k ∈ c.values.keys

/-- regime-independent core: the windows that actually receive cells are pairwise disjoint (`hdisj`) -/
theorem sliceFacts_core {tr : Transc} {S r : List Cell} {q q' : Int} {s : String} {origin : Date}
    {prem : Bool} {u : ResUnit} (h : aggregatePeriod tr S (some (q, s)) origin prem = .ok r)
    (hst : standardizeResolution q s = .ok (q', u))
    (hcells : ∀ c ∈ S, c.ps.valid = true ∧ ¬ (c.pe < c.ps))
    (hdisj : ∀ (init : Date) (c0 : Cell), c0 ∈ S → (∀ c ∈ S, ¬ c.ps < c0.ps) →
      anchorBefore q' u origin c0.ps = some init → ∀ c ∈ S, ∀ c' ∈ S, ∀ k k',
      FirstWindow q' u init k c.ps → FirstWindow q' u init k' c'.ps → k < k' →
      (windowAt q' u init k).2 < (windowAt q' u init k').1) :
    SliceFacts S r prem := by
  obtain ⟨q2, u2, init, rel, newCells, c0, hst', hc0, hmin, hanchor, hrel, hnew, hperm⟩ :=
    aggregatePeriod_decompose_anchor h
  rw [hst] at hst'
  obtain ⟨rfl, rfl⟩ : q' = q2 ∧ u = u2 := by
    injection hst' with h1; injection h1 with h2 h3; exact ⟨h2, h3⟩
  have hlt : init < c0.ps := by
    have hwd : ¬ (c0.ps ≤ init) := by
      unfold anchorBefore at hanchor
      split at hanchor
      · cases hanchor
      · exact walkDown_spec hanchor
    rw [Date.le_iff_agg] at hwd
    rw [Date.lt_iff_agg]; omega
  have hD := hdisj init c0 hc0 hmin hanchor
  have hsp : (S.mergeSort fun a b => coordCmp a b != .gt).Perm S := List.mergeSort_perm _ _
  have hfw := assignWindows_first_window (k0 := 0) (init0 := init) (sorted_by_ps S)
    (fun _ _ j hj => absurd hj (Nat.not_lt_zero j)) hrel
  obtain ⟨hlen, hall⟩ := assignWindows_spec hrel
  have hcont := assignWindows_contains (sorted_by_ps S)
    (fun c hc' => (hcells c (hsp.mem_iff.mp hc')).1)
    (fun c hc' => Date.lt_of_lt_of_not_lt_agg hlt (hmin c (hsp.mem_iff.mp hc'))) hrel
  -- keys of the output
  have hkeys : (r.map key3).Perm (smDedup (rel.map key3)) := by
    have hk : newCells.map key3 = (groupsOf key3 rel).map (·.1) :=
      smMapE_map _ _ hnew (fun g hg o ho => (aggCell_key hg ho).1)
    have := hperm.map key3
    rw [hk] at this
    simpa [groupsOf, List.map_map, Function.comp_def] using this
  -- anatomy of an output cell
  have hout : ∀ o ∈ r, ∃ c0 vals, c0 ∈ rel ∧ key3 c0 = key3 o ∧ c0.md = o.md ∧ o.kind = .cumulative ∧
      o.prev = none ∧ o.values = vals ∧
      summarizeCellValues tr [] (rel.filter fun c => key3 c == key3 o) prem = .ok vals := by
    intro o ho
    obtain ⟨g, hg, hgo⟩ := smMapE_mem hnew (hperm.mem_iff.mp ho)
    obtain ⟨hkey, hg2⟩ := aggCell_key hg hgo
    obtain ⟨c0, rest, vals, hgc, hvals, ho'⟩ := aggCell_ok hgo
    have hc0 : c0 ∈ rel.filter (fun c => key3 c == key3 o) := by rw [← hg2, hgc]; simp
    refine ⟨c0, vals, (List.mem_filter.mp hc0).1, by simpa using (List.mem_filter.mp hc0).2, ?_, ?_, ?_, ?_, ?_⟩
    · rw [ho']
    · rw [ho']
    · rw [ho']
    · rw [ho']
    · rw [← hg2]; exact hvals
  -- labelled with the window of `o`  ⇔  inside it
  have hiff : ∀ o ∈ r, ∀ p ∈ (S.mergeSort fun a b => coordCmp a b != .gt).zip rel,
      (key3 p.2 == key3 o) = insideB o p.1 := by
    intro o ho p hp
    obtain ⟨rc0, _, hrc0, hkey0, _⟩ := hout o ho
    obtain ⟨c00, hc00⟩ := mem_zip_of_mem_right hlen hrc0
    obtain ⟨k0, hfirst0, hk0⟩ := hfw (c00, rc0) hc00
    have hops : o.ps = (windowAt q' u init k0).1 := by
      rw [← congrArg Prod.fst hk0]; exact (congrArg (fun k : Date × Date × Date => k.1) hkey0).symm
    have hope : o.pe = (windowAt q' u init k0).2 := by
      rw [← congrArg Prod.snd hk0]; exact (congrArg (fun k : Date × Date × Date => k.2.1) hkey0).symm
    obtain ⟨_, _, _, _, hev, _, _, hnps, hnpe⟩ := hall p hp
    obtain ⟨k, hfirst, hk⟩ := hfw p hp
    have hcps := hcont p hp
    have hrps : p.2.ps = (windowAt q' u init k).1 := congrArg Prod.fst hk
    have hrpe : p.2.pe = (windowAt q' u init k).2 := congrArg Prod.snd hk
    have hpS : p.1 ∈ S := hsp.mem_iff.mp (List.of_mem_zip hp).1
    have hcS : c00 ∈ S := hsp.mem_iff.mp (List.of_mem_zip hc00).1
    have hdates := (hcells p.1 (hsp.mem_iff.mp (List.of_mem_zip hp).1)).2
    rw [Bool.eq_iff_iff]
    simp only [insideB, beq_iff_eq, Bool.and_eq_true, Bool.not_eq_true', decide_eq_false_iff_not]
    constructor
    · intro hkey
      have e1 : p.2.ps = o.ps := congrArg (fun k : Date × Date × Date => k.1) hkey
      have e2 : p.2.pe = o.pe := congrArg (fun k : Date × Date × Date => k.2.1) hkey
      have e3 : p.2.ev = o.ev := congrArg (fun k : Date × Date × Date => k.2.2) hkey
      exact ⟨⟨by rw [← e1]; exact hcps, by rw [← e2]; exact hnpe⟩, by rw [← hev, e3]⟩
    · rintro ⟨⟨h1, h2⟩, h3⟩
      have hkk : k = k0 := by
        rcases Nat.lt_trichotomy k k0 with hlt' | heq | hgt
        · exfalso
          have hd := hD p.1 hpS c00 hcS k k0 hfirst hfirst0 hlt'
          rw [← hrpe, ← hops] at hd
          exact hnps (Date.lt_of_lt_of_not_lt_agg hd h1)
        · exact heq
        · exfalso
          have hd := hD c00 hcS p.1 hpS k0 k hfirst0 hfirst hgt
          rw [← hope, ← hrps] at hd
          have h4 : o.pe < p.1.ps := Date.lt_of_lt_of_not_lt_agg hd hcps
          exact h2 (Date.lt_of_lt_of_not_lt_agg h4 hdates)
      subst hkk
      simp only [key3]
      rw [hrps, hrpe, ← hops, ← hope, hev, h3]
  have hvalsEq : ∀ p ∈ (S.mergeSort fun a b => coordCmp a b != .gt).zip rel, p.2.values = p.1.values ∧
      p.2.md = p.1.md := by
    intro p hp
    obtain ⟨_, _, _, _, _, hvals, hmd, _⟩ := hall p hp
    exact ⟨hvals, hmd⟩
  refine ⟨hkeys.nodup_iff.mpr (nodup_smDedup _), ?_, ?_, ?_, ?_⟩
  · -- outc
    intro o ho
    obtain ⟨rc0, _, hrc0, hkey0, hmd0, hkind, hprev, _, _⟩ := hout o ho
    obtain ⟨c00, hc00⟩ := mem_zip_of_mem_right hlen hrc0
    refine ⟨hkind, hprev, c00, hsp.mem_iff.mp (List.of_mem_zip hc00).1, ?_, ?_⟩
    · rw [← hiff o ho (c00, rc0) hc00]; simpa using hkey0
    · rw [← hmd0]; exact (hvalsEq (c00, rc0) hc00).2
  · -- covered
    intro c hc
    obtain ⟨rc, hrc⟩ := mem_zip_of_mem_left hlen (hsp.mem_iff.mpr hc)
    have hmem : key3 rc ∈ r.map key3 :=
      hkeys.mem_iff.mpr (mem_smDedup.mpr (List.mem_map.mpr ⟨rc, (List.of_mem_zip hrc).2, rfl⟩))
    obtain ⟨o, ho, hko⟩ := List.mem_map.mp hmem
    refine ⟨o, ho, ?_, ?_⟩
    · rw [← hiff o ho (c, rc) hrc]; simpa using hko.symm
    · intro o' ho' hin'
      have := hiff o' ho' (c, rc) hrc
      rw [hin'] at this
      have h1 : key3 rc = key3 o' := by simpa using this
      rw [← h1, hko]
  · -- sums
    intro o ho f i hr hc hin
    obtain ⟨_, vals, _, _, _, _, _, hvals, hsum⟩ := hout o ho
    have hrange : ∀ rc ∈ rel.filter (fun c => key3 c == key3 o), (rc.getV f).inRange i = true := by
      intro rc hrc
      obtain ⟨hrc1, hrc2⟩ := List.mem_filter.mp hrc
      obtain ⟨c, hc'⟩ := mem_zip_of_mem_right hlen hrc1
      have hv' : rc.values = c.values := (hvalsEq (c, rc) hc').1
      have : rc.getV f = c.getV f := by simp [Cell.getV, hv']
      rw [this]
      exact hin c (hsp.mem_iff.mp (List.of_mem_zip hc').1) (by rw [← hiff o ho (c, rc) hc']; exact hrc2)
    obtain ⟨hat, hir⟩ := summarizeCellValues_sum_at' (i := i) hsum hc hr hrange
    have hget : o.getV f = (Dict.get? vals f).getD .none := by simp [Cell.getV, hvals]
    refine ⟨by rw [hget]; exact hir, ?_⟩
    rw [hget, hat, sum_filter_eq_indicator, sum_filter_eq_indicator,
      ← sum_perm (hsp.map fun c => if insideB o c then (c.getV f).at i else 0)]
    symm
    congr 1
    apply map_eq_of_zip _ _ _ _ hlen
    intro p hp
    have hv' : p.2.values = p.1.values := (hvalsEq p hp).1
    have : p.2.getV f = p.1.getV f := by simp [Cell.getV, hv']
    rw [← hiff o ho p hp, this]
  · -- keys
    intro o ho
    obtain ⟨_, vals, _, _, _, _, _, hvals, hsum⟩ := hout o ho
    have hkp := summarizeCellValues_keys_perm hsum
    rw [hvals]
    refine ⟨hkp.nodup_iff.mpr (nodup_smDedup _), fun k => ?_⟩
    rw [hkp.mem_iff, mem_valueKeys]
    constructor
    · rintro ⟨rc, hrc, hk⟩
      obtain ⟨hrc1, hrc2⟩ := List.mem_filter.mp hrc
      obtain ⟨c, hc'⟩ := mem_zip_of_mem_right hlen hrc1
      have hv' : rc.values = c.values := (hvalsEq (c, rc) hc').1
      exact ⟨c, hsp.mem_iff.mp (List.of_mem_zip hc').1, by rw [← hiff o ho (c, rc) hc']; exact hrc2,
        by rw [← hv']; exact hk⟩
    · rintro ⟨c, hc, hin, hk⟩
      obtain ⟨rc, hrc⟩ := mem_zip_of_mem_left hlen (hsp.mem_iff.mpr hc)
      have hv' : rc.values = c.values := (hvalsEq (c, rc) hrc).1
      exact ⟨rc, List.mem_filter.mpr ⟨(List.of_mem_zip hrc).2, by rw [hiff o ho (c, rc) hrc]; exact hin⟩,
        by rw [hv']; exact hk⟩

theorem sliceFacts_month {tr : Transc} {S r : List Cell} {q q' : Int} {s : String} {origin : Date}
    {prem : Bool} (h : aggregatePeriod tr S (some (q, s)) origin prem = .ok r)
    (hst : standardizeResolution q s = .ok (q', .month)) (hq : 1 ≤ q') (hv : origin.valid = true)
    (he : origin.isMonthEnd = true) (hcells : ∀ c ∈ S, c.ps.valid = true ∧ ¬ (c.pe < c.ps)) :
    SliceFacts S r prem := by
  refine sliceFacts_core h hst hcells ?_
  intro init c0 _ _ hanchor c _ c' _ k k' _ _ hkk
  obtain ⟨j, hj, _, _⟩ := anchorBefore_month_agg hv he hanchor
  exact window_disjoint_month_agg hq (by rw [hj]; exact monthEndOf_valid _)
    (by rw [hj]; exact monthEndOf_isMonthEnd _) hkk

/-- `aggPeriod_conserves` needing the samples only at the evaluation date in question -/
theorem aggPeriod_conserves_ev {tr : Transc} {t out : List Cell} {q : Int} {s : String} {origin : Date}
    {prem : Bool} {f : String} {i : Nat}
    (h : aggregatePeriod tr t (some (q, s)) origin prem = .ok out)
    (hr : ruleOf [] (lowerKey f) = some ⟨.sum, [f]⟩) (hc : prem = true ∨ f ∉ nonLossMetrics) (e : Date)
    (hin : ∀ c ∈ t, c.ev = e → (c.getV f).inRange i = true) :
    ((out.filter fun o => o.ev == e).map fun o => (o.getV f).at i).sum =
      ((t.filter fun c => c.ev == e).map fun c => (c.getV f).at i).sum := by
  obtain ⟨q', u, init, rel, newCells, _, hrel, hnew, hperm⟩ := aggregatePeriod_decompose h
  obtain ⟨hlen, hall⟩ := assignWindows_spec hrel
  let G : Cell → Rat := fun x => if x.ev == e then (x.getV f).at i else 0
  have hsorted : (t.mergeSort fun a b => coordCmp a b != .gt).Perm t := List.mergeSort_perm _ _
  have hV : (t.mergeSort fun a b => coordCmp a b != .gt).map (fun c => (c.ev, c.getV f)) =
      rel.map (fun rc => (rc.ev, rc.getV f)) :=
    map_eq_of_zip _ _ _ _ hlen (fun p hp => by
      obtain ⟨k, _, _, _, hev, hvals, _⟩ := hall p hp
      simp [Cell.getV, hev, hvals])
  have hrange : ∀ rc ∈ rel, rc.ev = e → (rc.getV f).inRange i = true := by
    intro rc hrc hre
    have : (rc.ev, rc.getV f) ∈ rel.map (fun rc => (rc.ev, rc.getV f)) := List.mem_map.mpr ⟨rc, hrc, rfl⟩
    rw [← hV] at this
    obtain ⟨c, hc', hce⟩ := List.mem_map.mp this
    have h1 : c.getV f = rc.getV f := by simpa using congrArg Prod.snd hce
    have h2 : c.ev = rc.ev := by simpa using congrArg Prod.fst hce
    rw [← h1]; exact hin c (hsorted.mem_iff.mp hc') (by rw [h2, hre])
  have hG : (t.mergeSort fun a b => coordCmp a b != .gt).map G = rel.map G := by
    have := congrArg (List.map fun p : Date × Val => if p.1 == e then p.2.at i else 0) hV
    simpa [List.map_map, Function.comp_def, G] using this
  have hcell : ∀ g ∈ groupsOf key3 rel, ∀ o, aggCell tr prem g = .ok o → G o = (g.2.map G).sum := by
    intro g hg o hgo
    obtain ⟨hkey, hg2⟩ := aggCell_key hg hgo
    obtain ⟨c0, rest, vals, hgc, hvals, ho'⟩ := aggCell_ok hgo
    have hev : ∀ c ∈ g.2, c.ev = o.ev := by
      intro c hc'
      rw [hg2] at hc'
      have : key3 c = key3 o := by simpa using (List.mem_filter.mp hc').2
      exact congrArg (fun k : Date × Date × Date => k.2.2) this
    have hsub : ∀ c ∈ g.2, c ∈ rel := fun c hc' => by rw [hg2] at hc'; exact (List.mem_filter.mp hc').1
    by_cases hoe : (o.ev == e) = true
    · have hoe' : o.ev = e := by simpa using hoe
      have := summarizeCellValues_sum_at' (i := i) hvals hc hr
        (fun c hc' => hrange c (hsub c hc') (by rw [hev c hc', hoe']))
      have hget : o.getV f = (Dict.get? vals f).getD .none := by rw [ho']; rfl
      simp only [G, hoe, if_true]
      rw [hget, this.1]
      congr 1
      apply List.map_congr_left
      intro c hc'
      simp [hev c hc', hoe]
    · simp only [G, hoe]
      rw [sum_map_zero]
      · rfl
      · intro c hc'; simp [hev c hc', hoe]
  rw [sum_filter_eq_indicator, sum_filter_eq_indicator]
  show (out.map G).sum = (t.map G).sum
  rw [sum_perm (hperm.map G), smMapE_sum G (fun g => (g.2.map G).sum) hnew hcell]
  unfold groupsOf
  rw [List.map_map]
  have := sum_groups key3 G (smDedup (rel.map key3)) rel (nodup_smDedup _)
    (fun a ha => mem_smDedup.mpr (List.mem_map.mpr ⟨a, ha, rfl⟩))
  simp only [Function.comp_def]
  rw [this, ← hG]
  exact sum_perm (hsorted.map G)

/-! ## Part II: the whole triangle -/

theorem smMapE_forall₂ {α β} {f : α → Except Err β} : ∀ {l : List α} {out : List β},
    smMapE f l = .ok out → List.Forall₂ (fun a b => f a = .ok b) l out := by
  intro l
  induction l with
  | nil => intro out h; simp only [smMapE] at h; cases h; exact .nil
  | cons x l ih =>
    intro out h
    obtain ⟨b', bs, hb', hbs, rfl⟩ := smMapE_cons_ok h
    exact .cons hb' (ih hbs)

theorem forall₂_mem_right {α β} {R : α → β → Prop} : ∀ {l : List α} {l' : List β},
    List.Forall₂ R l l' → ∀ b ∈ l', ∃ a ∈ l, R a b
  | _, _, .nil => fun _ hb => by simp at hb
  | _, _, .cons hh t => fun b hb => by
    rcases List.mem_cons.mp hb with rfl | hb
    · exact ⟨_, by simp, hh⟩
    · obtain ⟨a, ha, hr⟩ := forall₂_mem_right t b hb
      exact ⟨a, by simp [ha], hr⟩

theorem forall₂_mem_left {α β} {R : α → β → Prop} : ∀ {l : List α} {l' : List β},
    List.Forall₂ R l l' → ∀ a ∈ l, ∃ b ∈ l', R a b
  | _, _, .nil => fun _ ha => by simp at ha
  | _, _, .cons hh t => fun a ha => by
    rcases List.mem_cons.mp ha with rfl | ha
    · exact ⟨_, by simp, hh⟩
    · obtain ⟨b, hb, hr⟩ := forall₂_mem_left t a ha
      exact ⟨b, by simp [hb], hr⟩

theorem forall₂_pairwise {α β} {R : α → β → Prop} {Q : α → α → Prop} {Q' : β → β → Prop}
    (himp : ∀ a b x y, R a x → R b y → Q a b → Q' x y) : ∀ {l : List α} {l' : List β},
    List.Forall₂ R l l' → l.Pairwise Q → l'.Pairwise Q'
  | _, _, .nil, _ => List.Pairwise.nil
  | _, _, .cons hh t, hp => by
    obtain ⟨h1, h2⟩ := List.pairwise_cons.mp hp
    refine List.pairwise_cons.mpr ⟨?_, forall₂_pairwise himp t h2⟩
    intro y hy
    obtain ⟨b, hb, hr⟩ := forall₂_mem_right t y hy
    exact himp _ _ _ _ hh hr (h1 b hb)

theorem forall₂_sum {α β} {R : α → β → Prop} (F : α → Rat) (F' : β → Rat)
    (h : ∀ a b, R a b → F a = F' b) : ∀ {l : List α} {l' : List β},
    List.Forall₂ R l l' → (l.map F).sum = (l'.map F').sum
  | _, _, .nil => rfl
  | _, _, .cons hh t => by
    rw [List.map_cons, List.map_cons, List.sum_cons, List.sum_cons, h _ _ hh, forall₂_sum F F' h t]

/-- a list whose keys are distinct has exactly one element satisfying a predicate that pins the key -/
theorem filter_length_one {α κ} [DecidableEq κ] (k : α → κ) {l : List α} (hn : (l.map k).Nodup)
    (P : α → Bool) {o : α} (ho : o ∈ l) (hP : P o = true) (hu : ∀ o' ∈ l, P o' = true → k o' = k o) :
    (l.filter P).length = 1 := by
  induction l with
  | nil => simp at ho
  | cons a l ih =>
    rw [List.map_cons, List.nodup_cons] at hn
    rcases List.mem_cons.mp ho with rfl | ho'
    · have hrest : l.filter P = [] := by
        rw [List.filter_eq_nil_iff]
        intro x hx hPx
        have := hu x (by simp [hx]) hPx
        exact hn.1 (by rw [← this]; exact List.mem_map.mpr ⟨x, hx, rfl⟩)
      rw [List.filter_cons, hP]; simp [hrest]
    · have ha : P a = false := by
        by_contra hc
        have hPa : P a = true := by simpa using hc
        have := hu a (by simp) hPa
        exact hn.1 (by rw [this]; exact List.mem_map.mpr ⟨o, ho', rfl⟩)
      rw [List.filter_cons, ha]
      simpa using ih hn.2 ho' (fun o' ho'' => hu o' (by simp [ho'']))

/-- the period stage of `aggregate` on a (possibly evaluation-filtered) cumulative triangle `src`: one
`_aggregate_period` per slice `P`, results concatenated into `out` -/
structure Stage (tr : Transc) (P : List (Metadata × List Cell)) (aggs : List (List Cell)) (src out : List Cell)
    (q : Int) (s : String) (origin : Date) (prem : Bool) : Prop where
  keys : (P.map (·.1)).Nodup
  md : ∀ p ∈ P, ∀ c ∈ p.2, c.md = p.1
  runs : List.Forall₂ (fun p r => aggregatePeriod tr p.2 (some (q, s)) origin prem = .ok r) P aggs
  perm : out.Perm aggs.flatten
  src1 : ∀ p ∈ P, (src.filter (·.md == p.1)).Perm p.2
  src2 : ∀ c ∈ src, ∃ p ∈ P, p.1 = c.md

/-- metadata, period and evaluation date of an output cell -/
def key4 (o : Cell) : Metadata × Date × Date × Date := (o.md, o.ps, o.pe, o.ev)

section whole
variable {tr : Transc} {P : List (Metadata × List Cell)} {aggs : List (List Cell)} {src out : List Cell}
  {q q' : Int} {s : String} {origin : Date} {prem : Bool}

theorem Stage.p_unique (st : Stage tr P aggs src out q s origin prem) {p p' : Metadata × List Cell}
    (hp : p ∈ P) (hp' : p' ∈ P) (h : p.1 = p'.1) : p = p' :=
  List.inj_on_of_nodup_map st.keys hp hp' h

/-- every output cell comes from the slice of its metadata -/
theorem Stage.out_slice (st : Stage tr P aggs src out q s origin prem)
    (hfacts : ∀ p ∈ P, ∀ r, aggregatePeriod tr p.2 (some (q, s)) origin prem = .ok r →
      SliceFacts p.2 r prem)
    {o : Cell} (ho : o ∈ out) :
    ∃ p ∈ P, ∃ r ∈ aggs, aggregatePeriod tr p.2 (some (q, s)) origin prem = .ok r ∧ o ∈ r ∧ o.md = p.1 := by
  obtain ⟨r, hr, hor⟩ := List.mem_flatten.mp (st.perm.mem_iff.mp ho)
  obtain ⟨p, hp, hrun⟩ := forall₂_mem_right st.runs r hr
  obtain ⟨_, _, c, hc, _, hmd⟩ := (hfacts _ hp _ hrun).outc o hor
  exact ⟨p, hp, r, hr, hrun, hor, by rw [hmd]; exact st.md p hp c hc⟩

/-- … and the slice of a metadata yields exactly the output cells of that metadata -/
theorem Stage.mem_of_md (st : Stage tr P aggs src out q s origin prem)
    (hfacts : ∀ p ∈ P, ∀ r, aggregatePeriod tr p.2 (some (q, s)) origin prem = .ok r →
      SliceFacts p.2 r prem)
    {p : Metadata × List Cell} {r : List Cell} (hp : p ∈ P)
    (hr : aggregatePeriod tr p.2 (some (q, s)) origin prem = .ok r) {o : Cell} (ho : o ∈ out)
    (hmd : o.md = p.1) : o ∈ r := by
  obtain ⟨p', hp', r', _, hrun', hor', hmd'⟩ := st.out_slice hfacts ho
  have : p' = p := st.p_unique hp' hp (by rw [← hmd', hmd])
  subst this
  rw [hr] at hrun'; cases hrun'; exact hor'

/-- the closed-form sources of an output cell are the cells of its slice inside its window -/
theorem Stage.sources_perm (st : Stage tr P aggs src out q s origin prem) {p : Metadata × List Cell}
    (hp : p ∈ P) {o : Cell} (hmd : o.md = p.1) :
    (Spec.C08.sources src o).Perm (p.2.filter (insideB o)) := by
  have : Spec.C08.sources src o = (src.filter (·.md == p.1)).filter (insideB o) := by
    unfold Spec.C08.sources
    rw [List.filter_filter]
    apply List.filter_congr
    intro c _
    rw [inWindow_eq, hmd, Bool.and_comm]
  rw [this]
  exact (st.src1 p hp).filter _

theorem Stage.mem_sources (st : Stage tr P aggs src out q s origin prem) {p : Metadata × List Cell}
    (hp : p ∈ P) {o c : Cell} (hmd : o.md = p.1) :
    c ∈ Spec.C08.sources src o ↔ c ∈ p.2 ∧ insideB o c = true := by
  rw [(st.sources_perm hp hmd).mem_iff, List.mem_filter]

end whole

theorem forall₂_with_mem {α β} {R : α → β → Prop} : ∀ {l : List α} {l' : List β},
    List.Forall₂ R l l' → List.Forall₂ (fun a b => a ∈ l ∧ R a b) l l'
  | _, _, .nil => .nil
  | _, _, .cons hh t =>
    .cons ⟨by simp, hh⟩ ((forall₂_with_mem t).imp fun _ _ h => ⟨by simp [h.1], h.2⟩)

section whole2
variable {tr : Transc} {P : List (Metadata × List Cell)} {aggs : List (List Cell)} {src out : List Cell}
  {q q' : Int} {s : String} {origin : Date} {prem : Bool}

theorem Stage.nodup_key4 (st : Stage tr P aggs src out q s origin prem)
    (hfacts : ∀ p ∈ P, ∀ r, aggregatePeriod tr p.2 (some (q, s)) origin prem = .ok r →
      SliceFacts p.2 r prem) :
    (out.map key4).Nodup := by
  rw [(st.perm.map key4).nodup_iff, List.map_flatten, List.nodup_flatten]
  refine ⟨?_, ?_⟩
  · intro l hl
    obtain ⟨r, hr, rfl⟩ := List.mem_map.mp hl
    obtain ⟨p, hp, hrun⟩ := forall₂_mem_right st.runs r hr
    have hn := (hfacts _ hp _ hrun).nodup
    have : r.map key3 = (r.map key4).map fun k => (k.2.1, k.2.2.1, k.2.2.2) := by
      rw [List.map_map]; rfl
    rw [this] at hn
    exact hn.of_map
  · rw [List.pairwise_map]
    have hP : P.Pairwise (fun a b => a.1 ≠ b.1) := by
      have := st.keys
      rwa [List.Nodup, List.pairwise_map] at this
    refine forall₂_pairwise ?_ (forall₂_with_mem st.runs) hP
    rintro a b x y ⟨ha, hra⟩ ⟨hb, hrb⟩ hne k hkx hky
    obtain ⟨o, ho, rfl⟩ := List.mem_map.mp hkx
    obtain ⟨o', ho', hk'⟩ := List.mem_map.mp hky
    obtain ⟨_, _, c, hc, _, hmd⟩ := (hfacts _ ha _ hra).outc o ho
    obtain ⟨_, _, c', hc', _, hmd'⟩ := (hfacts _ hb _ hrb).outc o' ho'
    apply hne
    have e1 : o.md = a.1 := by rw [hmd]; exact st.md a ha c hc
    have e2 : o'.md = b.1 := by rw [hmd']; exact st.md b hb c' hc'
    have e3 : o'.md = o.md := congrArg (fun k : Metadata × Date × Date × Date => k.1) hk'
    rw [← e1, ← e2, e3]

theorem Stage.cover (st : Stage tr P aggs src out q s origin prem)
    (hfacts : ∀ p ∈ P, ∀ r, aggregatePeriod tr p.2 (some (q, s)) origin prem = .ok r →
      SliceFacts p.2 r prem) :
    Spec.C08.cover src out = true := by
  have hn := st.nodup_key4 hfacts
  unfold Spec.C08.cover
  rw [Bool.and_eq_true]
  refine ⟨nodupB_of_nodup hn, ?_⟩
  rw [List.all_eq_true]
  intro c hc
  rw [beq_iff_eq]
  obtain ⟨p, hp, hpm⟩ := st.src2 c hc
  have hcp : c ∈ p.2 := (st.src1 p hp).mem_iff.mp (List.mem_filter.mpr ⟨hc, by simp [hpm]⟩)
  obtain ⟨r, hr, hrun⟩ := forall₂_mem_left st.runs p hp
  have hf := hfacts _ hp _ hrun
  obtain ⟨o, hor, hin, huniq⟩ := hf.covered c hcp
  have ho : o ∈ out := st.perm.mem_iff.mpr (List.mem_flatten.mpr ⟨r, hr, hor⟩)
  obtain ⟨_, _, c1, hc1, _, hmd1⟩ := hf.outc o hor
  have homd : o.md = p.1 := by rw [hmd1]; exact st.md p hp c1 hc1
  refine filter_length_one key4 hn (fun o => Spec.C08.inWindow o c) ho ?_ ?_
  · show Spec.C08.inWindow o c = true
    rw [inWindow_eq, hin, homd, hpm]; simp
  · intro o' ho' hw
    have hw' : Spec.C08.inWindow o' c = true := hw
    rw [inWindow_eq, Bool.and_eq_true, beq_iff_eq] at hw'
    have hor' := st.mem_of_md hfacts hp hrun ho' (by rw [← hw'.1, hpm])
    have hk3 := huniq o' hor' hw'.2
    simp only [key3, Prod.mk.injEq] at hk3
    simp only [key4, Prod.mk.injEq]
    exact ⟨by rw [← hw'.1, homd, hpm], hk3.1, hk3.2.1, hk3.2.2⟩

theorem Stage.cellSums (st : Stage tr P aggs src out q s origin prem)
    (hfacts : ∀ p ∈ P, ∀ r, aggregatePeriod tr p.2 (some (q, s)) origin prem = .ok r →
      SliceFacts p.2 r prem)
    {fields : List String}
    (hf : ∀ f ∈ fields, ruleOf [] (lowerKey f) = some ⟨.sum, [f]⟩ ∧ (prem = true ∨ f ∉ nonLossMetrics)) :
    Spec.C08.cellSums fields src out = true := by
  unfold Spec.C08.cellSums
  simp only [List.all_eq_true, Bool.and_eq_true]
  intro o ho
  obtain ⟨p, hp, r, _, hrun, hor, hmd⟩ := st.out_slice hfacts ho
  have hfa := hfacts _ hp _ hrun
  refine ⟨?_, ?_⟩
  · obtain ⟨_, _, c, hc, hin, _⟩ := hfa.outc o hor
    have : c ∈ Spec.C08.sources src o := (st.mem_sources hp hmd).mpr ⟨hc, hin⟩
    cases hg : Spec.C08.sources src o with
    | nil => rw [hg] at this; simp at this
    | cons _ _ => rfl
  · intro f hf' i _
    cases hin : Spec.C09.allInRange (Spec.C08.sources src o) f i with
    | false => simp
    | true =>
      simp only [Bool.not_true, Bool.false_or, Bool.and_eq_true, beq_iff_eq]
      have hall : ∀ c ∈ p.2, insideB o c = true → (c.getV f).inRange i = true := by
        intro c hc hi
        have := (st.mem_sources hp hmd).mpr ⟨hc, hi⟩
        simp only [Spec.C09.allInRange, List.all_eq_true] at hin
        exact hin c this
      obtain ⟨h1, h2⟩ := hfa.sums o hor f i (hf f hf').1 (hf f hf').2 hall
      refine ⟨h1, ?_⟩
      rw [h2]
      unfold Spec.C09.sumAt
      exact (sum_perm ((st.sources_perm hp hmd).map fun c => (c.getV f).at i)).symm

theorem Stage.keysOk (st : Stage tr P aggs src out q s origin prem)
    (hfacts : ∀ p ∈ P, ∀ r, aggregatePeriod tr p.2 (some (q, s)) origin prem = .ok r →
      SliceFacts p.2 r prem) :
    Spec.C08.keysOk src out = true := by
  unfold Spec.C08.keysOk
  simp only [List.all_eq_true, Bool.and_eq_true]
  intro o ho
  obtain ⟨p, hp, r, _, hrun, hor, hmd⟩ := st.out_slice hfacts ho
  obtain ⟨hnd, hk⟩ := (hfacts _ hp _ hrun).keys o hor
  refine ⟨⟨nodupB_of_nodup hnd, ?_⟩, ?_⟩
  · intro k hk'
    obtain ⟨c, hc, hin, hkc⟩ := (hk k).mp hk'
    exact List.any_eq_true.mpr ⟨c, (st.mem_sources hp hmd).mpr ⟨hc, hin⟩, (Dict.contains_iff _ _).mpr hkc⟩
  · intro c hc k hkc
    obtain ⟨hc1, hc2⟩ := (st.mem_sources hp hmd).mp hc
    exact (Dict.contains_iff _ _).mpr ((hk k).mpr ⟨c, hc1, hc2, hkc⟩)

theorem Stage.conserves (st : Stage tr P aggs src out q s origin prem)
    (hfacts : ∀ p ∈ P, ∀ r, aggregatePeriod tr p.2 (some (q, s)) origin prem = .ok r →
      SliceFacts p.2 r prem)
    {fields : List String}
    (hf : ∀ f ∈ fields, ruleOf [] (lowerKey f) = some ⟨.sum, [f]⟩ ∧ (prem = true ∨ f ∉ nonLossMetrics)) :
    Spec.C08.conserves fields src out = true := by
  unfold Spec.C08.conserves
  simp only [List.all_eq_true]
  rintro ⟨m, e⟩ _ f hf' i _
  cases hin : Spec.C09.allInRange (src.filter fun c => (c.md, c.ev) == (m, e)) f i with
  | false => simp
  | true =>
    simp only [Bool.not_true, Bool.false_or, Bool.and_eq_true, beq_iff_eq]
    have hsrcR : ∀ c ∈ src, c.md = m → c.ev = e → (c.getV f).inRange i = true := by
      intro c hc h1 h2
      simp only [Spec.C09.allInRange, List.all_eq_true] at hin
      exact hin c (List.mem_filter.mpr ⟨hc, by simp [h1, h2]⟩)
    refine ⟨?_, ?_⟩
    · simp only [Spec.C09.allInRange, List.all_eq_true]
      intro x hx
      obtain ⟨hxo, hxk⟩ := List.mem_filter.mp hx
      have hxk' : x.md = m ∧ x.ev = e := by simpa using hxk
      obtain ⟨p, hp, r, _, hrun, hor, hmd⟩ := st.out_slice hfacts hxo
      have hfa := hfacts _ hp _ hrun
      refine (hfa.sums x hor f i (hf f hf').1 (hf f hf').2 ?_).1
      intro c hc hi
      have hcs : c ∈ src := (List.mem_filter.mp ((st.src1 p hp).mem_iff.mpr hc)).1
      have hev : c.ev = x.ev := by
        simp only [insideB, Bool.and_eq_true, beq_iff_eq] at hi; exact hi.2
      exact hsrcR c hcs (by rw [st.md p hp c hc, ← hmd, hxk'.1]) (by rw [hev, hxk'.2])
    · unfold Spec.C09.sumAt
      let G : Cell → Rat := fun x => if ((x.md, x.ev) == (m, e)) then (x.getV f).at i else 0
      rw [sum_filter_eq_indicator, sum_filter_eq_indicator]
      show (out.map G).sum = (src.map G).sum
      rw [sum_perm (st.perm.map G), sum_flatten_agg]
      have hpair : ∀ (p : Metadata × List Cell) (r : List Cell),
          (p ∈ P ∧ aggregatePeriod tr p.2 (some (q, s)) origin prem = .ok r) →
          ((src.filter fun c => c.md == p.1).map G).sum = (r.map G).sum := by
        rintro p r ⟨hp, hrun⟩
        have hfa := hfacts _ hp _ hrun
        rw [sum_perm ((st.src1 p hp).map G)]
        have hrmd : ∀ x ∈ r, x.md = p.1 := by
          intro x hx
          obtain ⟨_, _, c, hc, _, hmd⟩ := hfa.outc x hx
          rw [hmd]; exact st.md p hp c hc
        by_cases hpm : p.1 = m
        · have hG1 : ∀ c ∈ p.2, G c = if c.ev == e then (c.getV f).at i else 0 := by
            intro c hc; simp [G, st.md p hp c hc, hpm]
          have hG2 : ∀ x ∈ r, G x = if x.ev == e then (x.getV f).at i else 0 := by
            intro x hx; simp [G, hrmd x hx, hpm]
          rw [List.map_congr_left hG1, List.map_congr_left hG2, ← sum_filter_eq_indicator,
            ← sum_filter_eq_indicator]
          refine (aggPeriod_conserves_ev hrun (hf f hf').1 (hf f hf').2 e ?_).symm
          intro c hc hce
          exact hsrcR c (List.mem_filter.mp ((st.src1 p hp).mem_iff.mpr hc)).1
            (by rw [st.md p hp c hc, hpm]) hce
        · have hz1 : ∀ c ∈ p.2, G c = 0 := by
            intro c hc
            have : ¬ (c.md = m) := by rw [st.md p hp c hc]; exact hpm
            simp [G, this]
          have hz2 : ∀ x ∈ r, G x = 0 := by
            intro x hx
            have : ¬ (x.md = m) := by rw [hrmd x hx]; exact hpm
            simp [G, this]
          rw [sum_map_zero _ _ hz1, sum_map_zero _ _ hz2]
      rw [← forall₂_sum (fun p : Metadata × List Cell => ((src.filter fun c => c.md == p.1).map G).sum)
        (fun r : List Cell => (r.map G).sum) hpair (forall₂_with_mem st.runs)]
      have := sum_groups (fun c : Cell => c.md) G (P.map (·.1)) src st.keys (fun c hc => by
        obtain ⟨p, hp, hpm⟩ := st.src2 c hc
        exact List.mem_map.mpr ⟨p, hp, hpm⟩)
      rw [List.map_map] at this
      exact this

end whole2

/-! ### the stage of `aggregate` on a cumulative triangle -/

theorem agg_fields_additive : ∀ f ∈ Spec.C09.additiveFields, ruleOf [] (lowerKey f) = some ⟨.sum, [f]⟩ := by
  decide +kernel

theorem agg_fields_loss : ∀ f ∈ Spec.C09.lossFields,
    ruleOf [] (lowerKey f) = some ⟨.sum, [f]⟩ ∧ f ∉ nonLossMetrics := by
  decide +kernel

/-- the fields the driver passes to `cellSums` / `conserves` are summed -/
theorem agg_fields_summed (prem : Bool) :
    ∀ f ∈ (if prem then Spec.C09.additiveFields else Spec.C09.lossFields),
      ruleOf [] (lowerKey f) = some ⟨.sum, [f]⟩ ∧ (prem = true ∨ f ∉ nonLossMetrics) := by
  intro f hf
  cases prem with
  | true => exact ⟨agg_fields_additive f (by simpa using hf), Or.inl rfl⟩
  | false => exact ⟨(agg_fields_loss f (by simpa using hf)).1, Or.inr (agg_fields_loss f (by simpa using hf)).2⟩

/-- `aggregate` on a cumulative triangle whose per-slice evaluation stage is "keep the cells satisfying `G`"
(`G = fun _ => true` without an evaluation resolution) is a `Stage` over the filtered triangle -/
theorem stage_of_aggregateCum {tr : Transc} {t out : List Cell} {a : AggArgs} {q : Int} {s : String}
    (h : aggregateCum tr t a = .ok out) (hp : a.periodRes = some (q, s)) (G : Cell → Bool)
    (heval : ∀ p ∈ Triangle.slices t, ∀ e, aggregateEval p.2 a.evalRes a.evalOrigin = .ok e →
      e = p.2.filter G) :
    ∃ aggs, Stage tr ((Triangle.slices t).map fun p => (p.1, p.2.filter G)) aggs (t.filter G) out q s
      a.periodOrigin a.prem := by
  obtain ⟨aggs, haggs, hperm⟩ := aggregateCum_perm h
  have hslice : ∀ p ∈ Triangle.slices t, p.1 ∈ metasOf t ∧
      p.2 = (t.filter (·.md == p.1)).mergeSort Cell.le := by
    intro p hp'
    unfold Triangle.slices at hp'
    obtain ⟨m, hm, rfl⟩ := List.mem_map.mp hp'
    exact ⟨hm, rfl⟩
  have hsp : ∀ p ∈ Triangle.slices t, p.2.Perm (t.filter (·.md == p.1)) := by
    intro p hp'
    rw [(hslice p hp').2]; exact List.mergeSort_perm _ _
  refine ⟨aggs, ?_, ?_, ?_, hperm, ?_, ?_⟩
  · rw [List.map_map]
    have : ((fun p : Metadata × List Cell => p.1) ∘ fun p : Metadata × List Cell => (p.1, p.2.filter G)) =
        fun p => p.1 := rfl
    rw [this]
    unfold Triangle.slices
    rw [List.map_map]
    have : ((fun p : Metadata × List Cell => p.1) ∘
        fun m => (m, (t.filter (·.md == m)).mergeSort Cell.le)) = id := rfl
    rw [this, List.map_id]
    exact metasOf_nodup_agg t
  · intro p hp' c hc
    obtain ⟨p0, hp0, rfl⟩ := List.mem_map.mp hp'
    have := (hsp p0 hp0).mem_iff.mp (List.mem_filter.mp hc).1
    simpa using (List.mem_filter.mp this).2
  · rw [List.forall₂_map_left_iff]
    refine (forall₂_with_mem (smMapE_forall₂ haggs)).imp ?_
    rintro p r ⟨hp', hrun⟩
    obtain ⟨e, he, hper⟩ := aggregateSlice_period hrun
    rw [heval p hp' e he, hp] at hper
    exact hper
  · intro p hp'
    obtain ⟨p0, hp0, rfl⟩ := List.mem_map.mp hp'
    simp only
    rw [List.filter_filter]
    have : (t.filter fun a => a.md == p0.1 && G a) = (t.filter (·.md == p0.1)).filter G := by
      rw [List.filter_filter]
      apply List.filter_congr
      intro c _; exact Bool.and_comm _ _
    rw [this]
    exact ((hsp p0 hp0).filter G).symm
  · intro c hc
    have hct : c ∈ t := (List.mem_filter.mp hc).1
    have hm := metasOf_mem_agg hct
    refine ⟨(c.md, ((t.filter (·.md == c.md)).mergeSort Cell.le).filter G), ?_, rfl⟩
    refine List.mem_map.mpr ⟨(c.md, (t.filter (·.md == c.md)).mergeSort Cell.le), ?_, rfl⟩
    unfold Triangle.slices
    exact List.mem_map.mpr ⟨c.md, hm, rfl⟩

theorem kindsConsistent_of_subset {l l' : List Cell} (hsub : ∀ c ∈ l', c ∈ l)
    (h : kindsConsistent l = true) : kindsConsistent l' = true := by
  unfold kindsConsistent at *
  simp only [Bool.or_eq_true, List.all_eq_true] at *
  rcases h with (h | h) | h
  · exact Or.inl (Or.inl fun c hc => h c (hsub c hc))
  · exact Or.inl (Or.inr fun c hc => h c (hsub c hc))
  · exact Or.inr fun c hc => h c (hsub c hc)

/-- slice facts for every slice of a stage from slice facts for every sub-list of the source -/
theorem Stage.facts_of {tr : Transc} {P : List (Metadata × List Cell)} {aggs : List (List Cell)}
    {src out : List Cell} {q : Int} {s : String} {origin : Date} {prem : Bool}
    (st : Stage tr P aggs src out q s origin prem)
    (hslice : ∀ S r, (∀ c ∈ S, c ∈ src) → aggregatePeriod tr S (some (q, s)) origin prem = .ok r →
      SliceFacts S r prem) :
    ∀ p ∈ P, ∀ r, aggregatePeriod tr p.2 (some (q, s)) origin prem = .ok r → SliceFacts p.2 r prem :=
  fun p hp r hr => hslice p.2 r
    (fun c hc => (List.mem_filter.mp ((st.src1 p hp).mem_iff.mpr hc)).1) hr

/-- the five clauses from a `Stage` -/
theorem Stage.holds {tr : Transc} {P : List (Metadata × List Cell)} {aggs : List (List Cell)}
    {src out : List Cell} {q q' : Int} {s : String} {origin : Date} {prem : Bool} {u : ResUnit}
    (st : Stage tr P aggs src out q s origin prem)
    (hfacts : ∀ p ∈ P, ∀ r, aggregatePeriod tr p.2 (some (q, s)) origin prem = .ok r →
      SliceFacts p.2 r prem)
    (hw : Spec.C08.windowsOk q' u origin out = true) :
    Spec.C08.holds q' u origin (if prem then Spec.C09.additiveFields else Spec.C09.lossFields) src out
      = true := by
  unfold Spec.C08.holds
  rw [hw, st.cover hfacts, st.cellSums hfacts (agg_fields_summed prem),
    st.keysOk hfacts, st.conserves hfacts (agg_fields_summed prem)]
  rfl

/-! ### closed instance of the whole pipeline (non-vacuity of `spec_holds_on_model_month`) -/

def aggExArgs : AggArgs := { periodRes := some (6, "month") }

theorem aggExQ_slices : Triangle.slices aggExQ = [({}, aggExQ)] := by
  unfold Triangle.slices
  have hm : metasOf aggExQ = [{}] := by decide +kernel
  rw [hm]
  simp only [List.map_cons, List.map_nil]
  have hf : aggExQ.filter (·.md == ({} : Metadata)) = aggExQ := by decide +kernel
  rw [hf]
  congr 2
  exact List.mergeSort_of_pairwise (by decide +kernel)

/-- `aggregate` SUCCEEDS on the three quarters (whole pipeline: slices, evaluation stage, period stage, sum) -/
theorem aggExQ_aggregate : aggregate Transc.id aggExQ aggExArgs = .ok aggExOut := by
  have hinc : smIsIncremental aggExQ = false := by decide +kernel
  unfold aggregate
  rw [hinc]
  simp only [Bool.false_eq_true, if_false]
  unfold aggregateCum
  rw [aggExQ_slices]
  have hs : aggregateSlice Transc.id aggExArgs aggExQ = .ok aggExOut := by
    unfold aggregateSlice
    simp only [aggExArgs, aggregateEval]
    exact aggExQ_aggregates
  simp only [smMapE, hs, sumTriangles, smFoldE]

end Bermuda
